import Panacea.Model.Keystore
import Panacea.Generated.Facts
/-!
# C20 — Concurrent readers see committed snapshots; shared code is race-free  (partial)

**Proved here (key store, all thread counts, all schedules):** with the lock usage of the repaired key
store (no method acquires the mutex while holding it), no reachable state of the writer-preferring
RWMutex model is a deadlock.  The unrepaired `LoadByAddress` (read lock held across `Load`, which
read-locks again) deadlocks in a three-step schedule — `decide`-checked witness, reproduced on the real
code by the `kslock` stream's watchdog before the repair (F5).

**Proved in `Properties/C10`/`App`:** queries are evaluated on the committed state of a height and never
see the working state of the block being executed.

**Known finding F16 (dependency code):** a *listing* query at the latest height can see the next height while
that height is being committed (iavl fast-node index); modelled below (`listing_at_latest_sees_next_height`,
`listing_stable_without_fast_index`) and reproduced on the real application by the `conc` stream.

**Cannot be exhibited by any model here:** data races in Go memory (validation, sign-bytes and query code
share no mutable state: see the fact table of `Properties/C09`), and baseapp's actual snapshotting; the
`conc` stream runs query goroutines against a per-height oracle while blocks execute (support, not proof).
-/
namespace Panacea.C20
open Panacea Keystore

/-- per-thread consistency: what it holds is what its program is about to release -/
def Good (t : Thread) : Prop :=
  (t.heldR = 0 ∧ t.heldW = false ∧ wb t.prog = true ∧ (t.waitingW = true → ∃ r, t.prog = .lock :: r)) ∨
  (t.heldR = 1 ∧ t.heldW = false ∧ t.waitingW = false ∧ ∃ r, t.prog = .runlock :: r ∧ wb r = true) ∨
  (t.heldR = 0 ∧ t.heldW = true ∧ t.waitingW = false ∧ ∃ r, t.prog = .unlock :: r ∧ wb r = true)

theorem wb_cons_rlock {r : List LockOp} (h : wb (.rlock :: r) = true) : ∃ r', r = .runlock :: r' ∧ wb r' = true := by
  match r, h with
  | .runlock :: r', h => exact ⟨r', rfl, by simpa [wb] using h⟩

theorem wb_cons_lock {r : List LockOp} (h : wb (.lock :: r) = true) : ∃ r', r = .unlock :: r' ∧ wb r' = true := by
  match r, h with
  | .unlock :: r', h => exact ⟨r', rfl, by simpa [wb] using h⟩

theorem wb_not_runlock {r : List LockOp} : wb (.runlock :: r) = false := by simp [wb]
theorem wb_not_unlock {r : List LockOp} : wb (.unlock :: r) = false := by simp [wb]

/-- a step of a good thread leaves it good -/
theorem good_step (s : Sys) (t t' : Thread) (hg : Good t) (h : stepOf s t = some t') : Good t' := by
  unfold stepOf at h
  rcases hg with ⟨h1, h2, h3, h4⟩ | ⟨h1, h2, h3, r, hp, hw⟩ | ⟨h1, h2, h3, r, hp, hw⟩
  · match hp : t.prog with
    | [] => simp [hp] at h
    | .rlock :: rest =>
      simp only [hp] at h
      split at h
      · simp at h; subst h
        rw [hp] at h3
        obtain ⟨r', hr, hw⟩ := wb_cons_rlock h3
        right; left
        have hwait : t.waitingW = false := by
          cases hwt : t.waitingW with
          | false => rfl
          | true => obtain ⟨r2, hr2⟩ := h4 hwt; rw [hp] at hr2; cases hr2
        exact ⟨by simp [h1], h2, hwait, r', hr, hw⟩
      · simp at h
    | .runlock :: rest => rw [hp] at h3; simp [wb] at h3
    | .unlock :: rest => rw [hp] at h3; simp [wb] at h3
    | .lock :: rest =>
      simp only [hp] at h
      rw [hp] at h3
      obtain ⟨r', hr, hw⟩ := wb_cons_lock h3
      split at h
      · simp at h; subst h
        right; right
        exact ⟨h1, rfl, rfl, r', hr, hw⟩
      · split at h
        · simp at h
        · simp at h; subst h
          left
          exact ⟨h1, h2, h3, fun _ => ⟨rest, rfl⟩⟩
  · simp only [hp] at h
    simp at h; subst h
    left
    exact ⟨by simp [h1], h2, hw, fun hwt => by simp [h3] at hwt⟩
  · simp only [hp] at h
    simp at h; subst h
    left
    exact ⟨h1, rfl, hw, fun hwt => by simp [h3] at hwt⟩

/-- **Progress.**  If every thread is good (holds only what its program is about to release, i.e. nobody
acquires while holding), the system is never deadlocked: as long as some thread is not finished, some
thread can step. -/
theorem no_deadlock (s : Sys) (hg : ∀ t ∈ s, Good t) : deadlocked s = false := by
  unfold deadlocked
  cases hd : done s with
  | true => rfl
  | false =>
    simp only [Bool.not_false, Bool.true_and, Bool.not_eq_false']
    -- case 1: someone is about to release
    by_cases hrel : ∃ t ∈ s, ∃ r, t.prog = .runlock :: r ∨ t.prog = .unlock :: r
    · obtain ⟨t, ht, r, hp⟩ := hrel
      unfold enabled
      rw [List.any_eq_true]
      refine ⟨t, ht, ?_⟩
      rcases hp with hp | hp <;> simp [stepOf, hp]
    · -- nobody holds anything
      have hfree : free s = true := by
        unfold free; rw [List.all_eq_true]
        intro t ht
        rcases hg t ht with ⟨h1, h2, _, _⟩ | ⟨_, _, _, r, hp, _⟩ | ⟨_, _, _, r, hp, _⟩
        · simp [h1, h2]
        · exact absurd ⟨t, ht, r, Or.inl hp⟩ hrel
        · exact absurd ⟨t, ht, r, Or.inr hp⟩ hrel
      -- some thread is not done
      have hnd : ∃ t ∈ s, t.prog ≠ [] := by
        unfold done at hd
        false_or_by_contra; rename_i hc
        have : s.all (·.prog.isEmpty) = true := by
          rw [List.all_eq_true]; intro t ht
          false_or_by_contra; rename_i hne
          exact hc ⟨t, ht, by intro he; simp [he] at hne⟩
        rw [this] at hd; cases hd
      by_cases hlk : ∃ t ∈ s, ∃ r, t.prog = .lock :: r
      · obtain ⟨t, ht, r, hp⟩ := hlk
        unfold enabled; rw [List.any_eq_true]
        exact ⟨t, ht, by simp [stepOf, hp, hfree]⟩
      · -- all unfinished threads are at an `rlock`, and nobody waits for the write lock
        obtain ⟨t, ht, hne⟩ := hnd
        have hnw : noWriter s = true := by
          unfold noWriter; rw [List.all_eq_true]
          intro u hu
          rcases hg u hu with ⟨_, h2, _, h4⟩ | ⟨_, _, _, r, hp, _⟩ | ⟨_, _, _, r, hp, _⟩
          · have : u.waitingW = false := by
              cases hw : u.waitingW with
              | false => rfl
              | true => obtain ⟨r, hr⟩ := h4 hw; exact absurd ⟨u, hu, r, hr⟩ hlk
            simp [h2, this]
          · exact absurd ⟨u, hu, r, Or.inl hp⟩ hrel
          · exact absurd ⟨u, hu, r, Or.inr hp⟩ hrel
        unfold enabled; rw [List.any_eq_true]
        refine ⟨t, ht, ?_⟩
        match hp : t.prog with
        | [] => exact absurd hp hne
        | .rlock :: r => simp [stepOf, hp, hnw]
        | .runlock :: r => exact absurd ⟨t, ht, r, Or.inl hp⟩ hrel
        | .unlock :: r => exact absurd ⟨t, ht, r, Or.inr hp⟩ hrel
        | .lock :: r => exact absurd ⟨t, ht, r, hp⟩ hlk

/-- goodness is preserved by every step of the system -/
theorem good_preserved (s s' : Sys) (i : Nat) (hg : ∀ t ∈ s, Good t) (h : stepThread s i = some s') :
    ∀ t ∈ s', Good t := by
  unfold stepThread at h
  cases hi : s[i]? with
  | none => simp [hi] at h
  | some t =>
    simp only [hi] at h
    cases hs : stepOf s t with
    | none => simp [hs] at h
    | some t' =>
      simp [hs] at h; subst h
      intro u hu
      rcases List.mem_or_eq_of_mem_set hu with hu | rfl
      · exact hg u hu
      · exact good_step s t u (hg t (List.mem_of_getElem? hi)) hs

/-- threads that run well-bracketed, non-nesting lock programs start in a good state … -/
theorem wb_threads_good (progs : List (List LockOp)) (h : ∀ p ∈ progs, wb p = true) :
    ∀ t ∈ progs.map (fun p => ({ prog := p } : Thread)), Good t := by
  intro t ht
  obtain ⟨p, hp, rfl⟩ := List.mem_map.mp ht
  left
  exact ⟨rfl, rfl, h p hp, fun hw => by simp at hw⟩

/-- … and **no schedule of any number of such threads can deadlock** (every reachable state is good by
`good_preserved`, every good state has an enabled thread or is finished by `no_deadlock`). -/
theorem wb_never_deadlocks (progs : List (List LockOp)) (h : ∀ p ∈ progs, wb p = true) (sched : List Nat) :
    deadlocked (runSched (progs.map fun p => ({ prog := p } : Thread)) sched) = false := by
  have key : ∀ (sched : List Nat) (st : Sys), (∀ t ∈ st, Good t) → ∀ t ∈ runSched st sched, Good t := by
    intro sched
    induction sched with
    | nil => intro st hg; exact hg
    | cons i rest ih =>
      intro st hg
      simp only [runSched]
      cases hs : stepThread st i with
      | none => simpa [hs] using ih st hg
      | some st' => simpa [hs] using ih st' (good_preserved st st' i hg hs)
  exact no_deadlock _ (key sched _ (wb_threads_good progs h))

/-! ### The lock programs of the real key store, regenerated from the source on every run

`Generated.lockPaths` lists, for every exported `KeyStore` method, the mutex operations on **every control
path** (early returns, both branches of every `if`, loops zero times / once, calls to other methods of the
type expanded path by path, deferred unlocks at the end). -/

def parseOp : String → Option LockOp
  | "Lock" => some .lock
  | "Unlock" => some .unlock
  | "RLock" => some .rlock
  | "RUnlock" => some .runlock
  | _ => none

/-- all lock programs the source can run (`none` if a token is not a mutex operation) -/
def sourcePrograms : Option (List (List LockOp)) :=
  (Generated.lockPaths.flatMap (·.2)).mapM fun p => p.mapM parseOp

/-- **Every control path of every exported key-store method is well-bracketed and never acquires the mutex
while holding it** — re-proved against the regenerated table on every run. -/
theorem source_paths_well_bracketed : ∃ ps, sourcePrograms = some ps ∧ ∀ p ∈ ps, wb p = true := by
  refine ⟨_, rfl, ?_⟩
  decide

/-- the methods that exist, and that the table is not empty (non-vacuity of the statement above) -/
theorem source_methods : Generated.lockPaths.map (·.1) = ["Load", "LoadByAddress", "Save"] ∧
    progLoadByAddress ∈ (sourcePrograms.getD []) ∧ progSave ∈ (sourcePrograms.getD []) := by decide

/-- **No schedule of any number of concurrent key-store calls — each following any control path of any
exported method — can deadlock.** -/
theorem keystore_never_deadlocks (ps progs : List (List LockOp)) (hps : sourcePrograms = some ps)
    (h : ∀ p ∈ progs, p ∈ ps) (sched : List Nat) :
    deadlocked (runSched (progs.map fun p => ({ prog := p } : Thread)) sched) = false := by
  obtain ⟨ps', hps', hwb⟩ := source_paths_well_bracketed
  rw [hps] at hps'
  cases hps'
  exact wb_never_deadlocks progs (fun p hp => hwb p (h p hp)) sched

/-- a path that returns while still holding the read lock (what a misplaced `RUnlock` after an early
`return` produces) is not well-bracketed, and one such thread plus a saver is a deadlock -/
example : wb [.rlock] = false := by decide
example : (((stepThread [{ prog := [.rlock] }, { prog := progSave }] 0).bind fun s => stepThread s 1).map deadlocked) = some true := by
  decide


/-! ## Listing queries and IAVL's fast-node index (known finding F16)

The part of the store that is logic: committed snapshots by version, the *fast index* (a copy of the latest
state, shared by all readers) and the latest version number.  `SaveVersion` of iavl v0.20.1 writes the new
nodes and the index first and advances the latest version afterwards — two steps a concurrent reader can fall
between.  An iterator over the tree of version `v` reads the index iff `v` is (still) the latest version. -/

structure Tree (S : Type) where
  versions : List S        -- snapshot of version `i+1` at index `i`
  fast : S                 -- fast-node index: the latest written state
  latest : Nat             -- what `ndb.getLatestVersion` answers

/-- `SaveVersion`, first half: nodes of the new version and the fast index are written -/
def saveWrite {S} (t : Tree S) (s : S) : Tree S := { t with versions := t.versions ++ [s], fast := s }
/-- `SaveVersion`, second half: the latest version advances -/
def saveBump {S} (t : Tree S) : Tree S := { t with latest := t.latest + 1 }

/-- what an iterator created on the immutable tree of version `v` reads -/
def iterAt {S} (useFast : Bool) (t : Tree S) (v : Nat) : Option S :=
  if useFast && v == t.latest then some t.fast else t.versions[v - 1]?

/-- **Without the fast index a listing at a committed height is unaffected by any later commit step.** -/
theorem listing_stable_without_fast_index {S} (t : Tree S) (s : S) (v : Nat) (hv : v - 1 < t.versions.length) :
    iterAt false (saveWrite t s) v = iterAt false t v ∧ iterAt false (saveBump t) v = iterAt false t v := by
  simp [iterAt, saveWrite, saveBump, List.getElem?_append_left hv]

/-- **With it (iavl v0.20.1 as used by this application), a listing asked for the latest height `H` between
the two halves of the commit of `H+1` returns the state of `H+1`.** -/
theorem listing_at_latest_sees_next_height {S} (t : Tree S) (s : S) :
    iterAt true (saveWrite t s) t.latest = some s := by
  simp [iterAt, saveWrite]

/-- concrete instance: versions 1, 2 committed (states 10, 20), commit of version 3 (state 30) half done:
a listing "at height 2" answers 30, and after the commit has finished it answers 20 again -/
example : iterAt true (saveWrite { versions := [10, 20], fast := 20, latest := 2 } 30) 2 = some 30 ∧
    iterAt true (saveBump (saveWrite { versions := [10, 20], fast := 20, latest := 2 } 30)) 2 = some 20 := by decide

/-! ## The unrepaired `LoadByAddress` deadlocks (F5): three-step witness -/

/-- a loader takes its first read lock, a saver starts waiting for the write lock, the loader's second
`RLock` is now blocked behind the waiting writer, who waits for the loader: nobody can move. -/
def f5Start : Sys := [{ prog := progLoadByAddressOld }, { prog := progSave }]
def f5After : Option Sys := (stepThread f5Start 0).bind fun s => stepThread s 1

example : f5After.map deadlocked = some true := by decide
/-- the same schedule with the repaired method is not a deadlock -/
example : ((stepThread [{ prog := progLoadByAddress }, { prog := progSave }] 0).bind fun s => stepThread s 1).map deadlocked
    = some false := by decide

end Panacea.C20
