import Panacea.Model.Validate
import Panacea.Lemmas.Aol
/-!
# C16 — Stateless acceptance equals the documented limits, for every field value

`Documented…` are transcribed from the property statement / `aol.md` / `did.md`, independently of the
code model (`Validate.*`, `Did.validateBasic`), and each validator is proved equivalent to its documented
predicate for *all* byte strings (lengths in bytes).
-/
namespace Panacea.C16
open Panacea Validate

/-! ## Documented limits -/

/-- `[A-Za-z0-9._-]` -/
def NameChar (c : UInt8) : Prop :=
  (0x41 ≤ c ∧ c ≤ 0x5a) ∨ (0x61 ≤ c ∧ c ≤ 0x7a) ∨ (0x30 ≤ c ∧ c ≤ 0x39) ∨ c = 0x2e ∨ c = 0x5f ∨ c = 0x2d

def DocTopic (t : Bytes) : Prop := 1 ≤ t.length ∧ t.length ≤ 70 ∧ ∀ c ∈ t, NameChar c
def DocMoniker (m : Bytes) : Prop := m.length ≤ 70 ∧ ∀ c ∈ m, NameChar c
def DocDescription (d : Bytes) : Prop := d.length ≤ 5000
def DocRecordKey (k : Bytes) : Prop := k.length ≤ 70
def DocRecordValue (v : Bytes) : Prop := v.length ≤ 5000
def DocAddr (dec : Bytes → Option Bytes) (a : Bytes) : Prop := ∃ b, dec a = some b

def DocumentedAol (dec : Bytes → Option Bytes) : Aol.Msg → Prop
  | .createTopic t d o => DocTopic t ∧ DocDescription d ∧ DocAddr dec o
  | .addWriter t m d w o => DocTopic t ∧ DocMoniker m ∧ DocDescription d ∧ DocAddr dec w ∧ DocAddr dec o
  | .deleteWriter t w o => DocTopic t ∧ DocAddr dec w ∧ DocAddr dec o
  | .addRecord t k v w o f =>
    DocTopic t ∧ DocRecordKey k ∧ DocRecordValue v ∧ DocAddr dec w ∧ DocAddr dec o ∧ (f = [] ∨ DocAddr dec f)

theorem nameChar_iff (c : UInt8) : nameChar c = true ↔ NameChar c := by
  simp [nameChar, NameChar, UInt8.le_iff_toNat_le, or_assoc]

theorem all_nameChar_iff (t : Bytes) : t.all nameChar = true ↔ ∀ c ∈ t, NameChar c := by
  simp [List.all_eq_true, nameChar_iff]

theorem topic_iff (t : Bytes) : validateTopicName t = .ok () ↔ DocTopic t := by
  unfold validateTopicName DocTopic maxTopicLength
  constructor
  · intro h
    by_cases h1 : t.length > 70
    · simp [h1] at h
    · simp only [h1, if_false] at h
      have h2 : t ≠ [] ∧ ∀ x ∈ t, nameChar x = true := by simpa using h
      refine ⟨?_, by omega, fun c hc => (nameChar_iff c).mp (h2.2 c hc)⟩
      cases t with
      | nil => exact absurd rfl h2.1
      | cons x xs => simp
  · intro ⟨h1, h2, h3⟩
    have h70 : ¬ t.length > 70 := by omega
    have hne : t ≠ [] := by intro he; subst he; simp at h1
    simp [h70, hne, (all_nameChar_iff t).mpr h3]

theorem moniker_iff (m : Bytes) : validateMoniker m = .ok () ↔ DocMoniker m := by
  unfold validateMoniker DocMoniker maxMonikerLength
  constructor
  · intro h
    by_cases h1 : m.length > 70
    · simp [h1] at h
    · simp only [h1, if_false] at h
      have h2 : ∀ x ∈ m, nameChar x = true := by simpa using h
      exact ⟨by omega, fun c hc => (nameChar_iff c).mp (h2 c hc)⟩
  · intro ⟨h2, h3⟩
    have h70 : ¬ m.length > 70 := by omega
    simp [h70, (all_nameChar_iff m).mpr h3]

theorem description_iff (d : Bytes) : validateDescription d = .ok () ↔ DocDescription d := by
  unfold validateDescription DocDescription maxDescriptionLength
  by_cases h : d.length > 5000 <;> simp [h] <;> omega

theorem recordKey_iff (k : Bytes) : validateRecordKey k = .ok () ↔ DocRecordKey k := by
  unfold validateRecordKey DocRecordKey maxRecordKeyLength
  by_cases h : k.length > 70 <;> simp [h] <;> omega

theorem recordValue_iff (v : Bytes) : validateRecordValue v = .ok () ↔ DocRecordValue v := by
  unfold validateRecordValue DocRecordValue maxRecordValueLength
  by_cases h : v.length > 5000 <;> simp [h] <;> omega

theorem addr_iff (dec : Bytes → Option Bytes) (a : Bytes) : validAddr dec a = .ok () ↔ DocAddr dec a := by
  unfold validAddr DocAddr
  cases h : dec a <;> simp [h]

/-- sequencing of validators: the chain succeeds iff every link does -/
theorem seq_ok_iff (x : Outcome Unit) (y : Outcome Unit) : (x >>= fun _ => y) = .ok () ↔ x = .ok () ∧ y = .ok () := by
  cases x <;> simp [bind, Outcome.bind]

/-- **AOL**: a message passes stateless validation iff every field respects the published limits. -/
theorem aol_accept_iff_documented (dec : Bytes → Option Bytes) (m : Aol.Msg) :
    aolValidateBasic dec m = .ok () ↔ DocumentedAol dec m := by
  cases m with
  | createTopic t d o =>
    simp only [aolValidateBasic, DocumentedAol, seq_ok_iff, topic_iff, description_iff, addr_iff]
  | addWriter t mo d w o =>
    simp only [aolValidateBasic, DocumentedAol, seq_ok_iff, topic_iff, moniker_iff, description_iff, addr_iff]
  | deleteWriter t w o =>
    simp only [aolValidateBasic, DocumentedAol, seq_ok_iff, topic_iff, addr_iff]
  | addRecord t k v w o f =>
    simp only [aolValidateBasic, DocumentedAol, seq_ok_iff, topic_iff, recordKey_iff, recordValue_iff, addr_iff]
    by_cases hf : f = []
    · simp [hf]
    · simp [hf, addr_iff]

/-! ## PNFT -/

def DocumentedPnft (dec : Bytes → Option Bytes) : PnftMsg → Prop
  | .createDenom id name symbol _ _ _ _ creator => id ≠ [] ∧ (0x00 : UInt8) ∉ id ∧ name ≠ [] ∧ symbol ≠ [] ∧ DocAddr dec creator
  | .updateDenom id _ _ _ _ _ _ updater => id ≠ [] ∧ DocAddr dec updater
  | .deleteDenom id remover => id ≠ [] ∧ DocAddr dec remover
  | .transferDenom id sender receiver => id ≠ [] ∧ DocAddr dec sender ∧ DocAddr dec receiver
  | .mintPNFT denomId id name _ _ _ _ creator =>
    denomId ≠ [] ∧ id ≠ [] ∧ name ≠ [] ∧ (0x00 : UInt8) ∉ denomId ∧ (0x00 : UInt8) ∉ id ∧ DocAddr dec creator
  | .transferPNFT denomId id sender receiver => denomId ≠ [] ∧ id ≠ [] ∧ DocAddr dec sender ∧ DocAddr dec receiver
  | .burnPNFT denomId id burner => denomId ≠ [] ∧ id ≠ [] ∧ DocAddr dec burner

theorem nonEmpty_iff (b : Bytes) (w : String) : nonEmpty b w = .ok () ↔ b ≠ [] := by
  unfold nonEmpty; by_cases h : b = [] <;> simp [h]

theorem noNul_iff (b : Bytes) : noNul b = .ok () ↔ (0x00 : UInt8) ∉ b := by
  unfold noNul; by_cases h : b.contains 0x00 = true <;> simp_all

theorem pnftAddr_iff (dec : Bytes → Option Bytes) (a : Bytes) : pnftAddr dec a = .ok () ↔ DocAddr dec a := by
  unfold pnftAddr DocAddr
  cases h : dec a <;> simp [h]

/-- an address that decodes is in particular a non-empty string (`AccAddressFromBech32("")` fails) -/
theorem PNFT_addr_nonempty_redundant (dec : Bytes → Option Bytes) (hd : dec [] = none) (a : Bytes)
    (h : DocAddr dec a) : a ≠ [] := by
  intro he; subst he; obtain ⟨b, hb⟩ := h; simp [hd] at hb

/-- **PNFT**: accepted iff the required identifiers, name, symbol and actor addresses are present and
well-formed (`dec [] = none`: the empty string is not an address). -/
theorem pnft_accept_iff_documented (dec : Bytes → Option Bytes) (hd : dec [] = none) (m : PnftMsg) :
    pnftValidateBasic dec m = .ok () ↔ DocumentedPnft dec m := by
  have ne : ∀ a, DocAddr dec a → a ≠ [] := PNFT_addr_nonempty_redundant dec hd
  cases m <;>
    simp only [pnftValidateBasic, DocumentedPnft, seq_ok_iff, nonEmpty_iff, noNul_iff, pnftAddr_iff] <;>
    constructor <;> intro h <;> simp_all <;> (try (intro he; subst he; simp_all [DocAddr]))

/-! ## DID -/

/-- `did:panacea:<32–44 base58 characters>` -/
def DocDID (d : Bytes) : Prop :=
  ∃ rest, d = Did.didPrefix ++ rest ∧ 32 ≤ rest.length ∧ rest.length ≤ 44 ∧ ∀ c ∈ rest, c ∈ Did.b58Alphabet

/-- `<did>#<1–128 non-space characters>` -/
def DocVMID (id did : Bytes) : Prop :=
  ∃ suffix, id = did ++ [0x23] ++ suffix ∧ 1 ≤ suffix.length ∧ suffix.length ≤ 128 ∧
    ∀ c ∈ suffix, c ≠ 0x09 ∧ c ≠ 0x0a ∧ c ≠ 0x0c ∧ c ≠ 0x0d ∧ c ≠ 0x20

theorem isB58_iff (c : UInt8) : Did.isB58 c = true ↔ c ∈ Did.b58Alphabet := by
  unfold Did.isB58 Did.b58Index
  rw [List.isSome_idxOf?]

theorem isPrefixOf_iff (p l : Bytes) : p.isPrefixOf l = true ↔ ∃ r, l = p ++ r := by
  rw [List.isPrefixOf_iff_prefix]
  constructor
  · intro ⟨r, hr⟩; exact ⟨r, hr.symm⟩
  · intro ⟨r, hr⟩; exact ⟨r, hr.symm⟩

theorem did_iff (d : Bytes) : Did.validateDID d = true ↔ DocDID d := by
  unfold Did.validateDID DocDID
  simp only [Bool.and_eq_true, decide_eq_true_eq, List.all_eq_true, isB58_iff, isPrefixOf_iff]
  constructor
  · intro ⟨⟨r, hr⟩, h⟩
    subst hr
    simp only [List.drop_left] at h
    exact ⟨r, rfl, h.1.1, h.1.2, h.2⟩
  · intro ⟨r, hr, h1, h2, h3⟩
    subst hr
    simp only [List.drop_left]
    exact ⟨⟨r, rfl⟩, ⟨h1, h2⟩, h3⟩

theorem vmid_iff (id did : Bytes) : Did.validateVMID id did = true ↔ DocVMID id did := by
  unfold Did.validateVMID DocVMID
  simp only [Bool.and_eq_true, decide_eq_true_eq, List.all_eq_true, isPrefixOf_iff, Did.maxVMIDLen, decide_eq_true_iff]
  have hsp : ∀ c : UInt8, (!Did.isSpace c) = true ↔ (c ≠ 0x09 ∧ c ≠ 0x0a ∧ c ≠ 0x0c ∧ c ≠ 0x0d ∧ c ≠ 0x20) := by
    intro c; simp [Did.isSpace, and_assoc]
  constructor
  · intro ⟨⟨r, hr⟩, h⟩
    subst hr
    simp only [List.drop_left] at h
    refine ⟨r, rfl, ?_, of_decide_eq_true h.1.1, fun c hc => (hsp c).mp (h.2 c hc)⟩
    have := h.1.2; cases r <;> simp at this ⊢
  · intro ⟨r, hr, h1, h2, h3⟩
    subst hr
    simp only [List.drop_left]
    refine ⟨⟨r, rfl⟩, ⟨decide_eq_true h2, ?_⟩, fun c hc => (hsp c).mpr (h3 c hc)⟩
    intro he; subst he; simp at h1

/-- **DID**: accepted iff the DID matches `did:panacea:<32–44 base58>`, a proof is present, the document is
present, well-formed per the method specification (`Did.Doc.valid`, whose identifier clauses are the two
equivalences above) and describes that DID, and the sender address is well-formed. -/
theorem did_accept_iff_documented (dec : Bytes → Option Bytes) (did : Bytes) (doc : Option Did.Doc)
    (db vmID sig fr : Bytes) :
    (Did.validateBasic dec (.create did doc db vmID sig fr) = .ok () ↔
      DocDID did ∧ (∃ d, doc = some d ∧ d.valid = true ∧ d.id = did) ∧ sig ≠ [] ∧ DocAddr dec fr) ∧
    (Did.validateBasic dec (.update did doc db vmID sig fr) = .ok () ↔
      DocDID did ∧ (∃ d, doc = some d ∧ d.valid = true ∧ d.id = did) ∧ sig ≠ [] ∧ DocAddr dec fr) ∧
    (Did.validateBasic dec (.deactivate did vmID sig fr) = .ok () ↔
      DocDID did ∧ sig ≠ [] ∧ DocAddr dec fr) := by
  have hA : ∀ a, (dec a).isNone = true ↔ ¬ DocAddr dec a := by
    intro a; unfold DocAddr; cases dec a <;> simp
  have core : (if (!Did.validateDID did) = true then (Outcome.err "did/3:invalid-did" : Outcome Unit) else
      match doc with
      | none => .err "did/4:invalid-doc"
      | some d =>
        if (!d.valid) = true then .err "did/4:invalid-doc" else
        if d.id ≠ did then .err "did/4:invalid-doc" else
        if sig = [] then .err "did/6:invalid-sig" else
        if (dec fr).isNone = true then .err "sdk:invalid-address" else .ok ()) = .ok () ↔
      DocDID did ∧ (∃ d, doc = some d ∧ d.valid = true ∧ d.id = did) ∧ sig ≠ [] ∧ DocAddr dec fr := by
    rw [← did_iff]
    by_cases h1 : Did.validateDID did = true
    · cases doc with
      | none => simp [h1]
      | some d =>
        by_cases h2 : d.valid = true
        · by_cases h3 : d.id = did
          · by_cases h4 : sig = []
            · simp [h1, h2, h3, h4]
            · by_cases h5 : DocAddr dec fr
              · have := (not_congr (hA fr)).mpr (fun hn => hn h5)
                simp [h1, h2, h3, h4, h5, this]
              · have := (hA fr).mpr h5
                simp [h1, h2, h3, h4, h5, this]
          · simp [h1, h2, h3]
        · simp [h1, h2]
    · simp [h1]
  refine ⟨by simp only [Did.validateBasic]; exact core, by simp only [Did.validateBasic]; exact core, ?_⟩
  simp only [Did.validateBasic]
  rw [← did_iff]
  by_cases h1 : Did.validateDID did = true
  · by_cases h4 : sig = []
    · simp [h1, h4]
    · by_cases h5 : DocAddr dec fr
      · have := (not_congr (hA fr)).mpr (fun hn => hn h5)
        simp [h1, h4, h5, this]
      · have := (hA fr).mpr h5
        simp [h1, h4, h5, this]
  · simp [h1]

/-- Every topic name the validator admits is free of the genesis key separator `/` (the link C18's
string round trip relies on). -/
theorem admitted_topic_has_no_slash (t : Bytes) (h : validateTopicName t = .ok ()) : CompKey.slash ∉ t := by
  have := (topic_iff t).mp h
  intro hm
  have hc := this.2.2 _ hm
  simp [NameChar, CompKey.slash, UInt8.le_iff_toNat_le] at hc

/-! ## Non-vacuity / boundary instances (tests, labelled as such) -/
example : validateTopicName (List.replicate 70 0x61) = .ok () := by decide
example : validateTopicName (List.replicate 71 0x61) ≠ .ok () := by decide
example : validateTopicName [] ≠ .ok () := by decide
example : validateTopicName [0x61, 0x2f] ≠ .ok () := by decide
example : validateMoniker [] = .ok () := by decide

end Panacea.C16
