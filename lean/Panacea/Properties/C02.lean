import Panacea.Lemmas.Tx
import Panacea.Lemmas.AolRec
import Panacea.Properties.C15
/-!
# C02 — AOL write authorization: only owner-approved, currently listed writers append

Two layers.  **Transaction layer** (`Tx`): a transaction reaches the message handlers only if every
address of every message's `GetSigners` contributed a valid signature (with the right account sequence);
inside a `MsgExec`, a message runs only if its single signer is the executing grantee itself or has
granted that message type to the grantee.  **Message layer** (`Aol`): who `GetSigners` is, and what each
handler requires of the state.  Together: a record is appended only with the authorisation of an address
that is in the topic's writer list at that moment; the writer list changes only with the authorisation
of the owner; a topic is created only under its signer's own address.
Gov- and group-executed messages are outside the model (their signer is a module / policy account).
-/
namespace Panacea.C02
open Panacea CompKey Validate Tx Aol

theorem mem_zip_of_mem {α β} : ∀ (l1 : List α) (l2 : List β) (a : α), l1.length = l2.length → a ∈ l1 →
    ∃ b, (a, b) ∈ l1.zip l2 := by
  intro l1
  induction l1 with
  | nil => intro l2 a _ h; simp at h
  | cons x xs ih =>
    intro l2 a hl ha
    cases l2 with
    | nil => simp at hl
    | cons y ys =>
      rcases List.mem_cons.mp ha with rfl | ha
      · exact ⟨y, by simp⟩
      · obtain ⟨b, hb⟩ := ih ys a (by simpa using hl) ha
        exact ⟨b, by simp [hb]⟩

/-- **Every required signer signed.**  If a transaction got past the ante handler, then for every
address in the transaction's signer set there is a signature in the transaction that is by that address,
verifies, and carries that account's current sequence number. -/
theorem accepted_tx_signed_by_every_signer (e : Env) (s : Tx.State) (tx : Tx) (s' : Tx.State) (r : Result)
    (h : deliverTx e s tx = (s', r)) (hr : r = .ok ∨ r = .failedMsgs) :
    ∃ signers, txSigners e tx = .ok signers ∧
      ∀ a ∈ signers, ∃ sg ∈ tx.sigs, sg.signer = a ∧ sg.valid = true := by
  unfold deliverTx at h
  split at h
  · simp at h; rcases hr with hr | hr <;> simp [← h.2] at hr
  · split at h
    · split at h
      · rename_i signers hsig
        split at h
        · rename_i s1 hante
          obtain ⟨_, _, _, _, _, hlen, hall, _⟩ := ante_ok hante
          refine ⟨signers, hsig, ?_⟩
          intro a ha
          obtain ⟨sg, hm⟩ := mem_zip_of_mem signers tx.sigs a hlen.symm ha
          have := hall (a, sg) hm
          exact ⟨sg, (List.of_mem_zip hm).2, this.1, this.2.1⟩
        · simp at h; rcases hr with hr | hr <;> simp [← h.2] at hr
      · simp at h; rcases hr with hr | hr <;> simp [← h.2] at hr
    · simp at h; rcases hr with hr | hr <;> simp [← h.2] at hr

theorem mem_dedup (l : List Bytes) (a : Bytes) : a ∈ dedup l ↔ a ∈ l := by
  induction l with
  | nil => simp [dedup]
  | cons x xs ih =>
    simp only [dedup, List.mem_cons, List.mem_filter, decide_eq_true_eq]
    constructor
    · rintro (h | ⟨h, _⟩)
      · exact Or.inl h
      · exact Or.inr (ih.mp h)
    · rintro (h | h)
      · exact Or.inl h
      · by_cases he : a = x
        · exact Or.inl he
        · exact Or.inr ⟨ih.mpr h, he⟩

/-- The signer set of a transaction contains the `GetSigners` addresses of each of its messages. -/
theorem msg_signers_subset_tx_signers (e : Env) (tx : Tx) (signers : List Bytes) (h : txSigners e tx = .ok signers)
    (m : AnyMsg) (hm : m ∈ tx.msgs) (l : List Bytes) (hl : msgSigners e m = .ok l) : ∀ a ∈ l, a ∈ signers := by
  have key : ∀ (msgs : List AnyMsg) (all : List Bytes), txSigners.go e msgs = .ok all → m ∈ msgs → ∀ a ∈ l, a ∈ all := by
    intro msgs
    induction msgs with
    | nil => intro all _ hm; simp at hm
    | cons x xs ih =>
      intro all hgo hm a ha
      simp only [txSigners.go] at hgo
      cases hx : msgSigners e x with
      | ok lx =>
        cases hr : txSigners.go e xs with
        | ok lr =>
          simp [hx, hr] at hgo; subst hgo
          rcases List.mem_cons.mp hm with rfl | hm
          · rw [hl] at hx; cases hx; simp [ha]
          · simp [ih lr hr hm a ha]
        | err c => simp [hx, hr] at hgo
        | panic p => simp [hx, hr] at hgo
      | err c => cases hr : txSigners.go e xs <;> simp [hx, hr] at hgo
      | panic p => cases hr : txSigners.go e xs <;> simp [hx, hr] at hgo
  unfold txSigners at h
  cases hgo : txSigners.go e tx.msgs with
  | ok all =>
    simp only [hgo] at h
    intro a ha
    have hin := (mem_dedup all a).mpr (key tx.msgs all hgo hm a ha)
    cases hp : tx.payer with
    | none => simp [hp] at h; subst h; exact hin
    | some p =>
      simp [hp] at h; subst h
      split
      · exact hin
      · exact List.mem_append_left _ hin
  | err c => simp [hgo] at h
  | panic p => simp [hgo] at h

/-- Inside a `MsgExec`, every executed message has exactly one signer, and that signer is the grantee
itself or has granted this message type to the grantee. -/
theorem exec_requires_grant_or_self (e : Env) (grantee : Bytes) : ∀ (msgs : List Inner) (s s' : Tx.State),
    dispatch e grantee s msgs = .ok s' →
    ∀ m ∈ msgs, ∃ granter, innerSigners e m = .ok [granter] ∧
      (granter = grantee ∨ hasGrant s granter grantee m.typeTag = true) := by
  intro msgs
  induction msgs with
  | nil => intro s s' _ m hm; simp at hm
  | cons x rest ih =>
    intro s s' h m hm
    simp only [dispatch] at h
    cases hs : innerSigners e x with
    | ok l =>
      simp only [hs] at h
      match l, h with
      | [granter], h =>
        simp only at h
        split at h
        · simp at h
        · rename_i hauth
          cases hr : runInner e s x with
          | ok s1 =>
            simp only [hr] at h
            rcases List.mem_cons.mp hm with rfl | hm
            · refine ⟨granter, hs, ?_⟩
              by_cases hg : granter = grantee
              · exact Or.inl hg
              · right
                cases hh : hasGrant s granter grantee m.typeTag with
                | true => rfl
                | false => exact absurd ⟨hg, by simp [hh]⟩ hauth
            · obtain ⟨g, h1, h2⟩ := ih s1 s' h m hm
              refine ⟨g, h1, ?_⟩
              rcases h2 with h2 | h2
              · exact Or.inl h2
              · right; unfold hasGrant at h2 ⊢; rw [(runInner_bank hr).2.2] at h2; exact h2
          | err c => simp [hr] at h
          | panic p => simp [hr] at h
      | [], h => simp at h
      | _ :: _ :: _, h => simp at h
    | err c => simp [hs] at h
    | panic p => simp [hs] at h

/-! ## Message layer -/

/-- A record is appended only if the named writer is, at that moment, in the topic's writer list — and
that writer's address is among the message's `GetSigners` (so, by the transaction layer, it signed or
delegated). -/
theorem append_requires_listed_writer (c : AddrCodec) (now : Int) (s s' : Aol.State) (t k v w o f : Bytes) (r : Resp)
    (h : Aol.handle c now s (.addRecord t k v w o f) = .ok (s', r)) :
    ∃ oa wa wk, c.dec o = some oa ∧ c.dec w = some wa ∧ encode [oa, t, wa] = some wk ∧ s.writers.has wk = true ∧
      ∀ l, aolSigners c.dec (.addRecord t k v w o f) = .ok l → wa ∈ l := by
  obtain ⟨oa, wa, tk, wk, rk, ho, hw, _, _, hwk, hhas, _⟩ := addRecord_ok h
  refine ⟨oa, wa, wk, ho, hw, hwk, hhas, ?_⟩
  intro l hl
  simp only [aolSigners, hw] at hl
  by_cases hf : f = []
  · simp [hf] at hl; subst hl; simp
  · cases hd : c.dec f with
    | none => simp [hf, hd] at hl
    | some fa => simp [hf, hd] at hl; subst hl; simp

/-- The writer list of a topic changes only through `AddWriter` / `DeleteWriter` messages, whose only
`GetSigners` address is the owner they name, and only entries *under that owner's address* change. -/
theorem writer_list_changes_only_by_owner (c : AddrCodec) (now : Int) (s s' : Aol.State) (m : Aol.Msg) (r : Resp)
    (h : Aol.handle c now s m = .ok (s', r)) (k : Bytes) (hk : s'.writers.get k ≠ s.writers.get k) :
    ∃ t w o oa wa, (m = .addWriter t [] [] w o ∨ (∃ mo d, m = .addWriter t mo d w o) ∨ m = .deleteWriter t w o) ∧
      c.dec o = some oa ∧ c.dec w = some wa ∧ encode [oa, t, wa] = some k ∧
      aolSigners c.dec m = .ok [oa] := by
  cases m with
  | createTopic tn d oa =>
    obtain ⟨_, _, _, _, _, _, _, rfl, _⟩ := createTopic_ok h; exact absurd rfl hk
  | addRecord tn key value wa oa fp =>
    obtain ⟨_, _, _, _, _, _, _, _, _, _, _, _, rfl, _⟩ := addRecord_ok h; exact absurd rfl hk
  | addWriter tn mo d wa oa =>
    obtain ⟨o, w, tk, wk, ho, hw, _, _, hwk, _, rfl, _⟩ := addWriter_ok h
    have : k = wk := by
      false_or_by_contra; rename_i hne
      exact hk (by simp only; exact Map.get_set_ne _ _ _ _ hne)
    subst this
    exact ⟨tn, wa, oa, o, w, Or.inr (Or.inl ⟨mo, d, rfl⟩), ho, hw, hwk, by simp [aolSigners, ho]⟩
  | deleteWriter tn wa oa =>
    obtain ⟨o, w, tk, wk, ho, hw, _, hwk, _, rfl, _⟩ := deleteWriter_ok h
    have : k = wk := by
      false_or_by_contra; rename_i hne
      exact hk (by simp only; exact Map.get_del_ne _ _ _ hne)
    subst this
    exact ⟨tn, wa, oa, o, w, Or.inr (Or.inr rfl), ho, hw, hwk, by simp [aolSigners, ho]⟩

/-- A topic is only ever created under its signer's own address. -/
theorem topic_created_under_signer (c : AddrCodec) (now : Int) (s s' : Aol.State) (t d o : Bytes) (r : Resp)
    (h : Aol.handle c now s (.createTopic t d o) = .ok (s', r)) :
    ∃ oa tk, aolSigners c.dec (.createTopic t d o) = .ok [oa] ∧ encode [oa, t] = some tk ∧
      s'.topics.get tk = some { description := d } ∧ ∀ k, k ≠ tk → s'.topics.get k = s.topics.get k := by
  obtain ⟨oa, tk, ok, ho, htk, _, _, rfl, _⟩ := createTopic_ok h
  exact ⟨oa, tk, by simp [aolSigners, ho], htk, Map.get_set_eq _ _ _, fun k hk => Map.get_set_ne _ _ _ _ hk⟩

/-- Is `(owner, topic, writer)` (decoded addresses) in the writer table? -/
def listed (s : Aol.State) (oa t wa : Bytes) : Bool :=
  match encode [oa, t, wa] with
  | some wk => s.writers.has wk
  | none => false

/-- **Removal is immediate and lasting.**  After a successful `DeleteWriter(o, t, w)`, along any further
history in which no `AddWriter` for that same `(o, t, w)` succeeds, `w` is not listed and every
`AddRecord` to `(o, t)` naming `w` is rejected. -/
theorem delete_writer_immediate (c : AddrCodec) (now : Int) (s s1 : Aol.State) (t w o : Bytes) (r : Resp)
    (oa wa : Bytes) (ho : c.dec o = some oa) (hw : c.dec w = some wa)
    (h : Aol.handle c now s (.deleteWriter t w o) = .ok (s1, r)) (ops : List (Int × Aol.Msg))
    (hnoadd : ∀ op ∈ ops, ∀ mo d w' o', op.2 = .addWriter t mo d w' o' → c.dec o' = some oa → c.dec w' = some wa → False) :
    listed (Aol.run c s1 ops) oa t wa = false ∧
    ∀ now' k v w' o' f, c.dec o' = some oa → c.dec w' = some wa →
      (Aol.handle c now' (Aol.run c s1 ops) (.addRecord t k v w' o' f)).isOk = false := by
  obtain ⟨oa', wa', tk, wk, ho', hw', _, hwk, _, hs1, _⟩ := deleteWriter_ok h
  rw [ho] at ho'; cases ho'; rw [hw] at hw'; cases hw'
  have h0 : listed s1 oa t wa = false := by
    simp only [listed, hwk, hs1, Map.has_del]; simp
  -- not-listed is preserved by every message except a successful AddWriter for the same triple
  have keep : ∀ (ops : List (Int × Aol.Msg)) (st : Aol.State), listed st oa t wa = false →
      (∀ op ∈ ops, ∀ mo d w' o', op.2 = .addWriter t mo d w' o' → c.dec o' = some oa → c.dec w' = some wa → False) →
      listed (Aol.run c st ops) oa t wa = false := by
    intro ops
    induction ops with
    | nil => intro st h _; exact h
    | cons op rest ih =>
      intro st hst hno
      simp only [Aol.run, List.foldl_cons]
      apply ih _ _ (fun op' hop' => hno op' (List.mem_cons_of_mem _ hop'))
      unfold Aol.step
      cases hh : Aol.handle c op.1 st op.2 with
      | err e => exact hst
      | panic e => exact hst
      | ok p =>
        obtain ⟨st', r'⟩ := p
        simp only
        cases hm : op.2 with
        | createTopic tn d oa2 =>
          rw [hm] at hh; obtain ⟨_, _, _, _, _, _, _, rfl, _⟩ := createTopic_ok hh; exact hst
        | addRecord tn key value wa2 oa2 fp =>
          rw [hm] at hh; obtain ⟨_, _, _, _, _, _, _, _, _, _, _, _, rfl, _⟩ := addRecord_ok hh; exact hst
        | deleteWriter tn wa2 oa2 =>
          rw [hm] at hh; obtain ⟨_, _, _, wk2, _, _, _, _, _, rfl, _⟩ := deleteWriter_ok hh
          simp only [listed, hwk] at hst ⊢
          rw [Map.has_del]; simp [hst]
        | addWriter tn mo d wa2 oa2 =>
          rw [hm] at hh
          obtain ⟨o2, w2, tk2, wk2, ho2, hw2, _, _, hwk2, _, rfl, _⟩ := addWriter_ok hh
          simp only [listed, hwk] at hst ⊢
          rw [Map.has_set]
          have : wk ≠ wk2 := by
            intro he; subst he
            obtain ⟨e1, e2, e3⟩ := encode3_inj hwk hwk2
            subst e1 e2 e3
            exact hno op (by simp) mo d wa2 oa2 hm ho2 hw2
          simp [this, hst]
  have hl := keep ops s1 h0 hnoadd
  refine ⟨hl, ?_⟩
  intro now' k v w' o' f ho2 hw2
  cases hh : Aol.handle c now' (Aol.run c s1 ops) (.addRecord t k v w' o' f) with
  | ok p =>
    obtain ⟨s2, r2⟩ := p
    obtain ⟨oa3, wa3, _, wk3, _, ho3, hw3, _, _, hwk3, hhas3, _⟩ := addRecord_ok hh
    rw [ho2] at ho3; cases ho3; rw [hw2] at hw3; cases hw3
    simp only [listed, hwk3] at hl
    rw [hl] at hhas3; cases hhas3
  | err e => rfl
  | panic e => rfl

/-- Every rejected attempt leaves topics, writers and records exactly as they were: a rejected message
leaves the AOL state untouched (`Aol.step`), and a transaction in which *any* message fails leaves all
custom-module state untouched (`C15.tx_atomic`). -/
theorem rejected_is_noop (c : AddrCodec) (s : Aol.State) (op : Int × Aol.Msg)
    (h : (Aol.handle c op.1 s op.2).isOk = false) : Aol.step c s op = s := by
  unfold Aol.step
  cases hd : Aol.handle c op.1 s op.2 with
  | ok p => simp [hd, Outcome.isOk] at h
  | err e => rfl
  | panic e => rfl

end Panacea.C02
