import Panacea.Generated.Facts
import Panacea.Lemmas.Bank
/-!
# C07 — Burn address is a sink: emptied every block, supply shrinks by exactly that

About the code after the repair of F11 (`BurnCoins` moves `SpendableCoins`, not `GetAllBalances`).
On the unrepaired code the stream's invariant monitor showed "bank: total supply invariant" broken on the
real application (partial debit after a failed send outside any cache branch); the model of the
unrepaired end-blocker is kept (`burnEndBlockOld`) with the counterexample below.

Hypotheses: the denomination universe has no duplicates; the burn address is not the burn module account;
locked amounts at the burn address do not exceed its balances (bank's own invariant for vesting accounts).
"Registered chain invariants" other than bank's supply identity (staking, distribution, gov) are outside
the model: the stream asserts them with `crisis.AssertInvariants` after every history.
-/
namespace Panacea.C07
open Panacea Bank

theorem map_fst_coinsOf_nodup (s : State) (a : Bytes) (ds : List Bytes) (h : ds.Nodup) :
    ((coinsOf s a ds).map (·.1)).Nodup := by
  unfold coinsOf
  have : ((ds.map fun d => (d, spendable s a d)).filter (·.2 ≠ 0)).map (·.1) =
      ds.filter (fun d => spendable s a d ≠ 0) := by
    induction ds with
    | nil => rfl
    | cons d rest ih =>
      have := ih (List.nodup_cons.mp h).2
      simp only [List.map_cons, List.filter_cons]
      split <;> simp_all
  rw [this]
  exact h.sublist List.filter_sublist

theorem mem_coinsOf {s : State} {a : Bytes} {ds : List Bytes} {c : Bytes × Nat} (h : c ∈ coinsOf s a ds) :
    c.1 ∈ ds ∧ c.2 = spendable s a c.1 ∧ c.2 ≠ 0 := by
  unfold coinsOf at h
  simp only [List.mem_filter, List.mem_map] at h
  obtain ⟨⟨d, hd, rfl⟩, hz⟩ := h
  exact ⟨hd, rfl, by simpa using hz⟩

/-- **End-of-block burn.**  After the end-blocker, for every denomination: the spendable balance of the burn
address is zero; the supply has shrunk by exactly the amount that was spendable there; no other account's
balance (including the burn module account's) has changed; locks are untouched. -/
theorem burn_endblock_spec (s : State) (burn module : Bytes) (hne : burn ≠ module) (hnd : s.denoms.Nodup)
    (hlock : ∀ d ∈ s.denoms, s.locked burn d ≤ s.bal burn d) :
    let s' := burnEndBlock s burn module
    (∀ d ∈ s.denoms, spendable s' burn d = 0) ∧
    (∀ d ∈ s.denoms, s'.supply d = s.supply d - spendable s burn d) ∧
    (∀ a d, a ≠ burn → s'.bal a d = s.bal a d) ∧
    s'.locked = s.locked := by
  intro s'
  have hcoins : spendableCoins s burn = coinsOf s burn s.denoms := rfl
  by_cases hempty : coinsOf s burn s.denoms = []
  · -- nothing spendable anywhere
    have hs' : s' = s := by simp [s', burnEndBlock, hcoins, hempty]
    have hz : ∀ d ∈ s.denoms, spendable s burn d = 0 := by
      intro d hd
      false_or_by_contra; rename_i hnz
      have : (d, spendable s burn d) ∈ coinsOf s burn s.denoms := by
        unfold coinsOf; simp only [List.mem_filter, List.mem_map]
        exact ⟨⟨d, hd, rfl⟩, by simpa using hnz⟩
      rw [hempty] at this; cases this
    rw [hs']
    exact ⟨hz, fun d hd => by rw [hz d hd]; rfl, fun _ _ _ => rfl, rfl⟩
  · obtain ⟨s1, hsub, hdeb⟩ := subUnlocked_spendable burn s.denoms s hnd hlock
    have hnd2 := map_fst_coinsOf_nodup s burn s.denoms hnd
    obtain ⟨a1, a2, a3, a4, a5⟩ := addCoins_spec module (coinsOf s burn s.denoms) s1 hnd2
    obtain ⟨b1, b2, b3, b4, b5⟩ := burnCoins_spec module (coinsOf s burn s.denoms) (addCoins s1 module (coinsOf s burn s.denoms)) hnd2
    have hs' : s' = burnCoins (addCoins s1 module (coinsOf s burn s.denoms)) module (coinsOf s burn s.denoms) := by
      simp [s', burnEndBlock, hcoins, hempty, sendCoins, hsub]
    rw [hs']
    refine ⟨?_, ?_, ?_, ?_⟩
    · intro d hd
      unfold spendable
      rw [b2 burn d (Or.inl hne), a2 burn d (Or.inl hne), hdeb.onDs d hd, b4, a3, hdeb.locked]
      have := hlock d hd
      unfold spendable; omega
    · intro d hd
      by_cases hz : spendable s burn d = 0
      · have hnot : d ∉ (coinsOf s burn s.denoms).map (·.1) := by
          intro hm
          obtain ⟨c, hc, rfl⟩ := List.mem_map.mp hm
          obtain ⟨_, h2, h3⟩ := mem_coinsOf hc
          exact h3 (by rw [h2, hz])
        rw [b3 d hnot, a4, hdeb.supply, hz]; rfl
      · have hm : (d, spendable s burn d) ∈ coinsOf s burn s.denoms := by
          unfold coinsOf; simp only [List.mem_filter, List.mem_map]
          exact ⟨⟨d, hd, rfl⟩, by simpa using hz⟩
        rw [(b1 _ hm).2, a4, hdeb.supply]
    · intro a d ha
      by_cases hm : a = module
      · subst hm
        by_cases hin : d ∈ (coinsOf s burn s.denoms).map (·.1)
        · obtain ⟨c, hc, rfl⟩ := List.mem_map.mp hin
          rw [(b1 c hc).1, a1 c hc, hdeb.frame a c.1 (Or.inl ha)]; omega
        · rw [b2 a d (Or.inr hin), a2 a d (Or.inr hin), hdeb.frame a d (Or.inl ha)]
      · rw [b2 a d (Or.inl hm), a2 a d (Or.inl hm), hdeb.frame a d (Or.inl ha)]
    · rw [b4, a3, hdeb.locked]

/-- The end-blocker can never fail or abort on the burn address's state: it is a total function that
returns a state (the send of spendable coins always succeeds, `subUnlocked_spendable`). -/
theorem burn_endblock_send_never_fails (s : State) (burn : Bytes) (hnd : s.denoms.Nodup)
    (hlock : ∀ d ∈ s.denoms, s.locked burn d ≤ s.bal burn d) :
    ∃ s1, subUnlocked s burn (spendableCoins s burn) = (s1, true) := by
  obtain ⟨s1, h, _⟩ := subUnlocked_spendable burn s.denoms s hnd hlock
  exact ⟨s1, h⟩

/-! ## The unrepaired end-blocker violates the property (F11): concrete witness -/

def aaa : Bytes := [0x61]
def umed : Bytes := [0x75]
def burnA : Bytes := [1]
def modA : Bytes := [2]

/-- 10 unlocked `aaa` and 5 vesting-locked `umed` at the burn address -/
def witness : State :=
  { bal := fun a d => if a = burnA ∧ d = aaa then 10 else if a = burnA ∧ d = umed then 5 else 0,
    locked := fun a d => if a = burnA ∧ d = umed then 5 else 0,
    supply := fun d => if d = aaa then 10 else if d = umed then 5 else 0,
    denoms := [aaa, umed] }

/-- the old end-blocker debits the 10 `aaa` (so they are gone from the burn address) … -/
example : (burnEndBlockOld witness burnA modA).bal burnA aaa = 0 := by decide
/-- … credits them nowhere … -/
example : (burnEndBlockOld witness burnA modA).bal modA aaa = 0 := by decide
/-- … and does not reduce the supply: 10 `aaa` exist in the supply but in no account. -/
example : (burnEndBlockOld witness burnA modA).supply aaa = 10 := by decide
/-- the repaired end-blocker on the same state burns exactly the spendable 10 `aaa` -/
example : (burnEndBlock witness burnA modA).supply aaa = 0 ∧ (burnEndBlock witness burnA modA).bal burnA umed = 5 := by decide

end Panacea.C07

namespace Panacea.C07
/-- Over the regenerated table of end-blockers (`app.go`, `SetOrderEndBlockers`): the burn runs after every
end-blocker that can move coins (governance executes passed proposals and refunds deposits, staking completes
unbondings, group and feegrant prune and pay back), so whatever they send to the burn address is burned in the
same block — "at the end of every block the spendable balance of the burn address is zero". -/
theorem burn_after_coin_moving_endblockers :
    ∀ m ∈ ["crisis", "gov", "staking", "bank", "distribution", "feegrant", "group", "transfer", "ibc"],
      Generated.endBlockers.idxOf m < Generated.endBlockers.idxOf "burn" := by decide

/-- … and only the custom modules' own (empty) end-blockers come after it. -/
theorem only_custom_modules_after_burn :
    Generated.endBlockers.drop (Generated.endBlockers.idxOf "burn" + 1) = ["pnft"] ∨
    Generated.endBlockers.drop (Generated.endBlockers.idxOf "burn" + 1) = [] := by decide
end Panacea.C07
