import Panacea.Lemmas.AolDense
import Panacea.Lemmas.AolGenesis
/-!
# C01 — AOL records are append-only: immutable, never deleted, densely numbered

Histories are arbitrary finite lists of the four AOL messages (valid, invalid, from any account —
a message that fails or panics leaves the state unchanged, which is what the transaction layer
guarantees, see C15/`App`).  Restarts are the identity on committed state (C10) and genesis
export/import is the identity on states satisfying the key well-formedness invariant (C08), so they
do not appear as separate operations here.

Hypotheses that remain, all explicit:
* `RecInv s₀` — the start state's records and `total_records` counters agree (true of the empty
  genesis, `recInv_empty`, of every state that passed the repaired genesis validation, `recInv_validated_genesis`
  (F26), and preserved by every message, `recInv_reachable`);
* `B + history.length < 2^64` where `B` bounds every `total_records` of the start state — `uint64`
  counters do not overflow during the history.
-/
namespace Panacea.C01
open Panacea CompKey Aol

/-- The four tables live under different prefix bytes, so a key of one table is never a key of another. -/
theorem tables_disjoint (p q : UInt8) (k1 k2 : Bytes) (h : p ≠ q) : p :: k1 ≠ q :: k2 := by
  intro he; exact h (List.cons.inj he).1

/-- `(owner, topic, offset) ↦ store key` is injective. -/
theorem recordKey_injective (o t o' t' : Bytes) (n n' : Nat) (k : Bytes) (hn : n < 2 ^ 64) (hn' : n' < 2 ^ 64)
    (h : recordKey o t n = .ok k) (h' : recordKey o' t' n' = .ok k) : o = o' ∧ t = t' ∧ n = n' := by
  unfold recordKey mustEncode at h h'
  cases he : encode [o, t, be64 n] with
  | none => simp [he] at h
  | some x =>
    cases he' : encode [o', t', be64 n'] with
    | none => simp [he'] at h'
    | some y =>
      simp [he] at h; simp [he'] at h'
      subst h h'
      exact recordKey_inj (by simpa [two64] using hn) (by simpa [two64] using hn') he he'

/-- The state invariant holds for the empty genesis … -/
theorem recInv_genesis : RecInv {} := recInv_empty

/-- … for every state imported from a genesis that passed the (repaired, F26) validation: records below their topic's
counter, as many record entries per topic as the counter says — by the pigeonhole principle exactly the offsets
`0 … total_records-1` … -/
theorem recInv_validated_genesis (s : State) (h : GenesisChecked s) : RecInv s := recInv_of_genesisChecked h

/-- … and for every state reachable from a state that satisfies it, by any history. -/
theorem recInv_reachable (c : AddrCodec) (s : State) (B : Nat) (ops : List (Int × Msg))
    (hi : RecInv s) (hb : Below s B) (hB : B + ops.length < 2 ^ 64) : RecInv (run c s ops) :=
  (recInv_run ops hi hb (by simpa [two64] using hB)).1

/-- An acknowledged append: the reported offset is `total_records` of the topic before the append, which
is exactly the number of records the topic held (offsets `0 … offset-1` exist, `offset` and above do
not), and the record is immediately readable with the submitted key, value, writer and the block time. -/
theorem addRecord_acknowledged (c : AddrCodec) (now : Int) (s s' : State) (tn key value wa oa fp ro rt : Bytes)
    (n B : Nat) (hi : RecInv s) (hb : Below s B) (hB : B + 1 < 2 ^ 64)
    (h : handle c now s (.addRecord tn key value wa oa fp) = .ok (s', .addRecord ro rt n)) :
    ro = oa ∧ rt = tn ∧
    (∃ o, c.dec oa = some o ∧ n = totalRecords s o tn ∧ totalRecords s' o tn = n + 1) ∧
    (∀ m, m < 2 ^ 64 → ((queryRecord c s oa tn m).isOk = true ↔ m < n)) ∧
    queryRecord c s' oa tn n = .ok { key := key, value := value, nanoTimestamp := now, writerAddress := wa } := by
  obtain ⟨o, w, tk, wk, rk, hdo, _, htk, hhas, _, _, hrk, hs', hr⟩ := addRecord_ok h
  obtain ⟨topic, hget⟩ := (has_eq_true_iff _ _).mp hhas
  have hT : topicAt s tk = topic := topicAt_of_get hget
  rw [hT] at hr hrk
  cases hr
  have htot : totalRecords s o tn = topic.totalRecords := by simp [totalRecords, htk, hget]
  refine ⟨rfl, rfl, ⟨o, hdo, htot.symm, ?_⟩, ?_, ?_⟩
  · rcases totalRecords_handle hb (by simpa [two64] using hB) o tn h with ⟨_, _, h2⟩ | ⟨h1, _⟩
    · rw [h2, htot]
    · simp [targets, hdo] at h1
  · intro m hm
    simp only [queryRecord, bind, Outcome.bind, decAddr, hdo, encodeQ]
    cases hem : encode [o, tn, be64 m] with
    | none =>
      -- cannot happen: the same components with another 8-byte offset encode as well
      exfalso
      have h1 := (encode_isSome_iff [o, tn, be64 topic.totalRecords]).mp (by simp [hrk])
      have h2 := (encode_isSome_iff [o, tn, be64 m]).mpr (by
        intro v hv; simp at hv
        rcases hv with rfl | rfl | rfl
        · exact h1 _ (by simp)
        · exact h1 _ (by simp)
        · simp [be64_length])
      simp [hem] at h2
    | some mk =>
      simp only
      constructor
      · intro hok
        cases hg : s.records.get mk with
        | none => simp [hg, Outcome.isOk] at hok
        | some rec =>
          obtain ⟨tk', topic', htk', hg', hlt⟩ := hi.sound o tn m mk (by simpa [two64] using hm) hem
            ((has_eq_true_iff _ _).mpr ⟨rec, hg⟩)
          rw [htk] at htk'; cases htk'; rw [hget] at hg'; cases hg'; exact hlt
      · intro hlt
        have := hi.complete o tn tk topic m mk htk hget hlt hem
        obtain ⟨rec, hg⟩ := (has_eq_true_iff _ _).mp this
        simp [hg, Outcome.isOk]
  · subst hs'
    simp only [queryRecord, bind, Outcome.bind, decAddr, hdo, encodeQ, hrk, Map.get_set_eq]

/-- **Immutability, forever.**  Once an append is acknowledged with offset `n`, the query for
`(owner, topic, n)` returns exactly that key, value, writer and block timestamp after *every* further
history of messages (valid or not, from anyone, including writer removals and re-additions). -/
theorem acked_record_forever (c : AddrCodec) (now : Int) (s s' : State) (tn key value wa oa fp ro rt : Bytes)
    (n B : Nat) (ops : List (Int × Msg))
    (hi : RecInv s) (hb : Below s B) (hB : B + 1 + ops.length < 2 ^ 64)
    (h : handle c now s (.addRecord tn key value wa oa fp) = .ok (s', .addRecord ro rt n)) :
    queryRecord c (run c s' ops) oa tn n =
      .ok { key := key, value := value, nanoTimestamp := now, writerAddress := wa } := by
  have hB1 : B + 1 < two64 := by simp [two64]; omega
  obtain ⟨hi', hb'⟩ := recInv_handle hi hb hB1 h
  obtain ⟨o, w, tk, wk, rk, hdo, _, htk, hhas, _, _, hrk, hs', hr⟩ := addRecord_ok h
  cases hr
  have hq : s'.records.get rk = some { key := key, value := value, nanoTimestamp := now, writerAddress := wa } := by
    subst hs'; exact Map.get_set_eq _ _ _
  have := record_frame_run (c := c) ops hi' hb' (by simpa [two64] using hB) rk _ hq
  simp only [queryRecord, bind, Outcome.bind, decAddr, hdo, encodeQ, hrk, this]

/-- **Dense numbering.**  Along any history, the offsets acknowledged for a topic `(o, t)` are
`k, k+1, k+2, …` where `k` is the topic's record count at the start: no gap, no reuse. -/
theorem offsets_dense (c : AddrCodec) (o t : Bytes) (s : State) (B : Nat) (ops : List (Int × Msg))
    (hb : Below s B) (hB : B + ops.length < 2 ^ 64) :
    acks c o t s ops = List.range' (totalRecords s o t) (acks c o t s ops).length :=
  acks_dense o t ops hb (by simpa [two64] using hB)

/-- No message other than a successful `AddRecord` changes the record table at all, and that one only
adds the entry at the acknowledged offset (everything stored before is still there, unchanged). -/
theorem record_table_append_only (c : AddrCodec) (s : State) (B : Nat) (op : Int × Msg)
    (hi : RecInv s) (hb : Below s B) (hB : B + 1 < 2 ^ 64) (k : Bytes) (rec : Record)
    (hk : s.records.get k = some rec) : (step c s op).records.get k = some rec :=
  record_frame_step hi hb (by simpa [two64] using hB) k rec hk

/-! ## Non-vacuity: a concrete history meeting the hypotheses -/

/-- A toy address codec: the text of an address is its bytes (enough for the examples). -/
def idCodec : AddrCodec := { enc := id, dec := fun s => if addrOk s then some s else none }

def ex0 : State := run idCodec {} [(5, .createTopic [0x74] [] [1]), (6, .addWriter [0x74] [] [] [2] [1])]

example : Below ex0 0 := by
  intro tk topic h
  have : ex0.topics = [([1, 1, 1, 0x74], { description := [], totalRecords := 0, totalWriters := 1 })] := by decide
  rw [this] at h
  simp only [Map.get] at h
  split at h <;> simp at h
  subst h; simp

example : handle idCodec 7 ex0 (.addRecord [0x74] [9] [8] [2] [1] []) =
    .ok (step idCodec ex0 (7, .addRecord [0x74] [9] [8] [2] [1] []), .addRecord [1] [0x74] 0) := by decide

example : acks idCodec [1] [0x74] ex0
    [(7, .addRecord [0x74] [9] [8] [2] [1] []), (8, .deleteWriter [0x74] [2] [1]),
     (9, .addRecord [0x74] [9] [8] [2] [1] []), (9, .addWriter [0x74] [] [] [2] [1]),
     (9, .addRecord [0x74] [7] [7] [2] [1] [])] = [0, 1] := by decide

end Panacea.C01
