import Panacea.Generated.Facts
/-!
# C19 — Software upgrades run to completion and preserve custom-module data

**Configuration half (proof over the regenerated tables).**  `Generated.upgrades` and `Generated.mountedStores`
are re-extracted from `app/app.go`, `app/upgrades/*/types.go` and `app/keepers/keys.go` on every run, so
these theorems are re-checked against what the source says now.  `baseline` — the stores of the release
that preceded the first descriptor (v2.0.5) — is history, not derivable from the tree: a recorded constant
in the trusted base.

**Dynamic half (partial).**  The custom modules have `ConsensusVersion = 1` and register no migrations, so
`RunMigrations` does not touch them (`custom_modules_not_migrated`); that the x/upgrade machinery, the store
loader and restarts around the upgrade height behave is exercised by the `upgrade` stream on the real
application (plan crossing its height on a populated chain, dumps before/after, module version map,
re-opening the database before / at / after the height) — support, not proof.
-/
namespace Panacea.C19
open Panacea

/-- stores mounted by the release before the first upgrade descriptor (recorded constant) -/
def baseline : List String :=
  ["acc", "bank", "staking", "mint", "distribution", "slashing", "gov", "params", "upgrade", "evidence",
   "capability", "ibc", "transfer", "aol", "did", "burn", "token", "wasm"]

/-- store set after applying the descriptors in order: drop `Deleted`, add `Added` -/
def applyUpgrades (base : List String) (us : List (String × List String × List String)) : List String :=
  us.foldl (fun acc u => (acc.filter fun s => !u.2.2.contains s) ++ u.2.1) base

def sameSet (a b : List String) : Bool := a.all b.contains && b.all a.contains

/-- A node that upgrades through the releases in order ends with exactly the stores this binary mounts. -/
theorem fold_descriptors_eq_mounted :
    sameSet (applyUpgrades baseline Generated.upgrades) Generated.mountedStores = true := by decide

/-- every mounted store predates the first descriptor or is introduced by one of them … -/
theorem every_mounted_store_accounted :
    Generated.mountedStores.all (fun s => baseline.contains s || Generated.upgrades.any (fun u => u.2.1.contains s)) = true := by
  decide

/-- … and no descriptor deletes a store that is mounted (a deleted store is never re-added later either) -/
theorem no_mounted_store_deleted :
    Generated.mountedStores.all (fun s => !Generated.upgrades.any (fun u => u.2.2.contains s)) = true := by decide

/-- everything a descriptor adds is mounted by this binary -/
theorem added_stores_are_mounted :
    Generated.upgrades.all (fun u => u.2.1.all Generated.mountedStores.contains) = true := by decide

/-- no store is added twice, and nothing that already exists is added -/
theorem no_double_add :
    (Generated.upgrades.flatMap (·.2.1)).all (fun s => !baseline.contains s) = true ∧
    (Generated.upgrades.flatMap (·.2.1)).Nodup := by decide

/-- the upgrade that leads to this release is the last descriptor and changes no store -/
theorem last_upgrade_is_v2_2_1 : Generated.upgrades.getLast? = some ("v2.2.1", [], []) := by decide

/-- The custom modules are at consensus version 1 and the version map they are migrated *from* also says 1
(they were initialised at 1 and never bumped), so `RunMigrations` runs no migration for them: a migration
from version `v` to `v` is the identity. -/
def migrate {S : Type} (migrations : Nat → S → S) (fromV toV : Nat) (s : S) : S :=
  (List.range' fromV (toV - fromV)).foldl (fun st v => migrations v st) s

theorem custom_modules_not_migrated :
    Generated.consensusVersions = [("x/aol", "1"), ("x/burn", "1"), ("x/did", "1"), ("x/pnft", "1")] ∧
    ∀ (S : Type) (m : Nat → S → S) (s : S), migrate m 1 1 s = s := by
  exact ⟨by decide, fun _ _ _ => rfl⟩

/-- Restarting after the upgrade block yields the same node: the handlers' closures call nothing on the application's
long-lived objects without the block context, so running one leaves nothing in memory that a restarted process would
lack (F24; regenerated from `app/upgrades/*` on every run). -/
theorem upgrade_handlers_touch_only_block_state : Panacea.Generated.handlerMemoryCalls = [] := by decide

end Panacea.C19
