import Panacea.Model.App
import Panacea.Generated.Facts
/-!
# C10 — Restart equivalence: committed state survives, uncommitted work leaves no trace  (partial)

In the node model the statements are short, because the model has no state outside `committed` / `working`.
That *the real application* has no such state is the substance, and it is carried by
* the tie `Ties/C10` (regenerated from the source on every run): the keeper structs of the four custom modules
  contain only a codec, store keys and other keepers; the package-level variables of the custom packages are
  the amino codecs, key prefixes and error values — nothing that is written after `init`;
* the `restart` stream: the real application on one database, stopped and re-opened after Commit, after
  BeginBlock, after every prefix of a block's transactions and after EndBlock, compared (height, app hash,
  store dumps, hashes of all later blocks) with a twin that never stopped.
* `upgrade_handlers_touch_only_block_state` (over the regenerated table `Generated.handlerMemoryCalls`): inside the
  upgrade handlers no keeper, params subspace or module-manager method is called without the block context — running
  a handler leaves nothing in the process that a restarted process would lack (F24 was exactly such a call);
**Cannot be exhibited by a model:** durability of IAVL / the database, `LoadLatestVersion`.
-/
namespace Panacea.C10
open Panacea.App

/-- Running an upgrade handler changes block state only: its closure calls nothing on the application's long-lived
objects without passing the block context (regenerated from `app/upgrades/*` on every run). -/
theorem upgrade_handlers_touch_only_block_state : Panacea.Generated.handlerMemoryCalls = [] := by decide

variable {S B : Type}

/-- A crash discards the block in progress and nothing else. -/
theorem crash_discards_working (exec : S → B → S) (g : S) (n : Node S) :
    (stepNode exec g n .crash).committed = n.committed ∧ (stepNode exec g n .crash).working = none := ⟨rfl, rfl⟩

/-- After a restart the node is exactly at its last committed state, whatever it had executed of the next
block. -/
theorem restart_resumes_committed (exec : S → B → S) (g : S) (n : Node S) (b : B) :
    stepNode exec g (stepNode exec g n (.execBlock b)) .crash = { n with working := none } := rfl

/-- **Crash, then re-deliver = never stopped.**  Executing a block, crashing before the commit, and then
executing and committing the same block gives the same node as executing and committing it once; by
induction the same holds for every later block sequence. -/
theorem crash_then_redeliver_eq_uninterrupted (exec : S → B → S) (g : S) (n : Node S) (hw : n.working = none)
    (b : B) (rest : List B) :
    runBlocks exec g (stepNode exec g (stepNode exec g n (.execBlock b)) .crash) (b :: rest) =
    runBlocks exec g n (b :: rest) := by
  have : stepNode exec g (stepNode exec g n (.execBlock b)) .crash = n := by
    cases n; simp_all [stepNode]
  rw [this]

/-- Queries never change the node, and the answer for a committed height is a function of that height's
committed state: it cannot depend on the working copy, so it is the same before, during and after the
execution of any later block (C20's snapshot clause in the model). -/
theorem query_reads_committed_snapshot (exec : S → B → S) (g : S) (n : Node S) (h : Nat) (ops : List (Op B))
    (hlt : h < n.committed.length) : queryAt (runNode exec g n ops) h = queryAt n h := by
  induction ops generalizing n with
  | nil => rfl
  | cons op rest ih =>
    simp only [runNode, List.foldl_cons]
    have hstep : (stepNode exec g n op).committed.length ≥ n.committed.length ∧
        queryAt (stepNode exec g n op) h = queryAt n h := by
      cases op with
      | execBlock b => exact ⟨Nat.le_refl _, rfl⟩
      | crash => exact ⟨Nat.le_refl _, rfl⟩
      | query k => exact ⟨Nat.le_refl _, rfl⟩
      | commit =>
        simp only [stepNode]
        cases hw : n.working with
        | none => exact ⟨Nat.le_refl _, rfl⟩
        | some w =>
          simp only [queryAt, List.length_append, List.length_singleton]
          exact ⟨by omega, by rw [List.getElem?_append_left hlt]⟩
    have := ih (stepNode exec g n op) (by omega)
    simp only [runNode] at this
    rw [this, hstep.2]

/-! non-vacuity: a counter "state", blocks add their payload -/
example : (runBlocks (fun (s : Nat) (b : Nat) => s + b) 0 { committed := [] } [1, 2, 3]).committed = [1, 3, 6] := by decide

end Panacea.C10
