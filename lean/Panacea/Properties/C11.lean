import Panacea.Lemmas.DidHist
/-!
# C11 — A DID resolves to a document about itself; proofs are bound to one DID

These theorems are about the code *after* the repair of F6 (`ValidateBasic` of Create/Update requires
`document.id = did`).  On the unrepaired code the first theorem is false: the correspondence monitor
`mon.c11.ids` exhibited stored active documents whose id differs from their key.
-/
namespace Panacea.C11
open Panacea Did

/-- Whenever the registry holds an active document under `d`, that document's id is `d` — in every state
reachable from a well-formed one by any history. -/
theorem active_doc_id_eq_key (da : Bytes → Option Bytes) (cr : Crypto) (s : State) (B : Nat) (ms : List Msg)
    (hw : WF s) (hb : ∀ did d, s.get did = some d → d.seq ≤ B) (hB : B + ms.length < 2 ^ 64)
    (did : Bytes) (cur : DocWithSeq) (doc : Doc)
    (hq : queryDID (run da cr s ms) did = .ok cur) (hdoc : cur.doc = some doc) : doc.id = did := by
  have hw' := (wf_run (da := da) (cr := cr) ms hw hb (by simpa [two64] using hB)).1
  -- what the query returns is the stored entry, and it is live
  simp only [queryDID, bind, Outcome.bind] at hq
  split at hq
  · simp at hq
  · rename_i hemp
    cases hd : (getDoc (run da cr s ms) did).deactivated with
    | ok b =>
      simp only [hd] at hq
      cases b with
      | true => simp at hq
      | false =>
        simp at hq
        subst hq
        obtain ⟨stored, hst, hne⟩ := live_of_not_empty_not_dead (by simpa using hemp) hd
        rw [hdoc] at hst; cases hst
        cases hg : (run da cr s ms).get did with
        | none => simp [getDoc, hg] at hdoc
        | some x =>
          have : getDoc (run da cr s ms) did = x := getDoc_of_get hg
          rw [this] at hdoc
          exact hw'.selfId did x doc hg hdoc hne
    | err e => simp [hd] at hq
    | panic e => simp [hd] at hq

/-- Every accepted create or update writes an entry whose document id is the DID it is written under:
nobody can occupy an identifier with a document about another one. -/
theorem write_is_about_its_own_did (da : Bytes → Option Bytes) (cr : Crypto) (s s' : State) (did : Bytes)
    (doc : Option Doc) (db vmID sig fr : Bytes) :
    (deliver da cr s (.create did doc db vmID sig fr) = .ok s' → ∃ d, doc = some d ∧ d.id = did) ∧
    (deliver da cr s (.update did doc db vmID sig fr) = .ok s' → ∃ d, doc = some d ∧ d.id = did) := by
  constructor
  · intro h; obtain ⟨d, _, hd, _, _, hid, _⟩ := create_ok h; exact ⟨d, hd, hid⟩
  · intro h; obtain ⟨d, _, _, hd, _, _, hid, _⟩ := update_ok h; exact ⟨d, hd, hid⟩

/-- **Proofs are bound to one DID.**  Given that the document encoding is injective (`marshal`, the
protobuf encoding, is a parameter; `hm` says the messages carry `marshal document`), a proof accepted for
a write under `did₁` cannot be accepted for a write under a different `did₂`: the two acceptances would
need the same signature to verify over different sign bytes — or the DIDs are equal. -/
theorem proof_bound_to_did (marshal : Doc → Bytes) (hinj : ∀ a b, marshal a = marshal b → a = b)
    (da : Bytes → Option Bytes) (cr : Crypto) (s1 s1' s2 s2' : State) (did1 did2 : Bytes)
    (d1 d2 : Doc) (vmID1 vmID2 sig fr1 fr2 : Bytes)
    (h1 : deliver da cr s1 (.update did1 (some d1) (marshal d1) vmID1 sig fr1) = .ok s1')
    (h2 : deliver da cr s2 (.update did2 (some d2) (marshal d2) vmID2 sig fr2) = .ok s2') :
    did1 = did2 ∨ ∃ pk pk' m m', cr.verify pk m sig = true ∧ cr.verify pk' m' sig = true ∧ m ≠ m' := by
  obtain ⟨e1, _, _, he1, _, _, hid1, _, _, _, hp1, _⟩ := update_ok h1
  obtain ⟨e2, _, _, he2, _, _, hid2, _, _, _, hp2, _⟩ := update_ok h2
  cases he1; cases he2
  by_cases hd : did1 = did2
  · exact Or.inl hd
  · right
    refine ⟨_, _, _, _, hp1.verified, hp2.verified, ?_⟩
    intro he
    have := (signBytes_injective _ _ _ _ he).1
    have := hinj _ _ this
    subst this
    exact hd (hid1.symm.trans hid2)

/-- The same for deactivation, with no assumption about any encoding: the signed content is the DID
itself (`DIDDocument{Id: did}`), whose encoding is modelled concretely. -/
theorem deactivation_proof_bound_to_did (da : Bytes → Option Bytes) (cr : Crypto) (s1 s1' s2 s2' : State)
    (did1 did2 vmID1 vmID2 sig fr1 fr2 : Bytes)
    (h1 : deliver da cr s1 (.deactivate did1 vmID1 sig fr1) = .ok s1')
    (h2 : deliver da cr s2 (.deactivate did2 vmID2 sig fr2) = .ok s2') :
    did1 = did2 ∨ ∃ pk pk' m m', cr.verify pk m sig = true ∧ cr.verify pk' m' sig = true ∧ m ≠ m' := by
  obtain ⟨_, _, hv1, _, _, _, hp1, _⟩ := deactivate_ok h1
  obtain ⟨_, _, hv2, _, _, _, hp2, _⟩ := deactivate_ok h2
  by_cases hd : did1 = did2
  · exact Or.inl hd
  · right
    refine ⟨_, _, _, _, hp1.verified, hp2.verified, ?_⟩
    intro he
    have hm := (signBytes_injective _ _ _ _ he).1
    have n1 : did1 ≠ [] := by intro h; subst h; simp [validateDID, didPrefix] at hv1
    have n2 : did2 ≠ [] := by intro h; subst h; simp [validateDID, didPrefix] at hv2
    simp only [marshalIdOnly, n1, n2, if_false, List.cons_append, List.cons.injEq, true_and] at hm
    obtain ⟨hl, hr⟩ := varint_prefix_free _ _ _ _ hm
    exact hd hr

end Panacea.C11
