import Panacea.Lemmas.DidHist
/-!
# C04 — DID sequence is strictly monotonic; an accepted proof is never accepted again

Hypotheses, all explicit: `WF s₀` (entries carry a document pointer and a `uint64` sequence; true of the
empty registry and preserved by every message, `wf_reachable`) and `B + history.length < 2^64`, where `B`
bounds the sequences of the start state (no `uint64` overflow during the history).

The replay theorems come in two forms: a hypothesis-free *reduction* ("if a replay were accepted, the
very same signature verifies, under a current authentication key, over different sign bytes") and the
corollary under `SigBinds`, the statement that a signature verifies for at most one message.
-/
namespace Panacea.C04
open Panacea Did

theorem wf_empty : WF ([] : State) :=
  ⟨fun _ _ h => by simp [Map.get] at h, fun _ _ h => by simp [Map.get] at h, fun _ _ _ h => by simp [Map.get] at h⟩

theorem wf_reachable (da : Bytes → Option Bytes) (cr : Crypto) (s : State) (B : Nat) (ms : List Msg)
    (hw : WF s) (hb : ∀ did d, s.get did = some d → d.seq ≤ B) (hB : B + ms.length < 2 ^ 64) :
    WF (run da cr s ms) := (wf_run ms hw hb (by simpa [two64] using hB)).1

/-- Creation pins the sequence to 0. -/
theorem seq_create_zero (da : Bytes → Option Bytes) (cr : Crypto) (s s' : State) (did : Bytes) (doc : Option Doc)
    (db vmID sig fr : Bytes) (h : deliver da cr s (.create did doc db vmID sig fr) = .ok s') :
    seqOf s' did = 0 := by
  obtain ⟨_, _, _, _, _, _, _, _, _, rfl⟩ := create_ok h
  simp [seqOf, getDoc_set_eq]

/-- Every accepted update or deactivation advances the sequence by exactly one … -/
theorem seq_advances (da : Bytes → Option Bytes) (cr : Crypto) (s s' : State) (did : Bytes) (doc : Option Doc)
    (db vmID sig fr : Bytes) (hov : seqOf s did + 1 < 2 ^ 64) :
    (deliver da cr s (.update did doc db vmID sig fr) = .ok s' → seqOf s' did = seqOf s did + 1) ∧
    (deliver da cr s (.deactivate did vmID sig fr) = .ok s' → seqOf s' did = seqOf s did + 1) := by
  constructor
  · intro h
    obtain ⟨_, _, _, _, _, _, _, _, _, _, _, rfl⟩ := update_ok h
    simp only [seqOf, getDoc_set_eq]
    exact nextSeq_of_lt (by simpa [two64, seqOf] using hov)
  · intro h
    obtain ⟨_, _, _, _, _, _, _, rfl⟩ := deactivate_ok h
    simp only [seqOf, getDoc_set_eq]
    exact nextSeq_of_lt (by simpa [two64, seqOf] using hov)

/-- The same for every sequence a `uint64` can hold: the handlers refuse at the end of the sequence space (F23), so an
accepted update or deactivation never wraps. -/
theorem seq_advances_total (da : Bytes → Option Bytes) (cr : Crypto) (s s' : State) (did : Bytes) (doc : Option Doc)
    (db vmID sig fr : Bytes) (hty : seqOf s did < 2 ^ 64) :
    (deliver da cr s (.update did doc db vmID sig fr) = .ok s' → seqOf s' did = seqOf s did + 1) ∧
    (deliver da cr s (.deactivate did vmID sig fr) = .ok s' → seqOf s' did = seqOf s did + 1) := by
  have key : ∀ n, n < 2 ^ 64 → nextSeq n ≠ 0 → nextSeq n = n + 1 := by
    intro n hn h
    unfold nextSeq wrap64 at *
    have : n + 1 ≠ 18446744073709551616 := by
      intro he; rw [he] at h; exact h (by decide)
    omega
  constructor
  · intro h
    obtain ⟨_, _, _, _, _, _, _, _, _, _, hp, rfl⟩ := update_ok h
    simp only [seqOf, getDoc_set_eq]
    exact key _ hty hp.noWrap
  · intro h
    obtain ⟨_, _, _, _, _, _, hp, rfl⟩ := deactivate_ok h
    simp only [seqOf, getDoc_set_eq]
    exact key _ hty hp.noWrap

/-- … and nothing else ever changes it: after any message the sequence of any DID is what it was, or one
more because that very message was accepted. -/
theorem seq_changes_only_by_acceptance (da : Bytes → Option Bytes) (cr : Crypto) (s : State) (m : Msg)
    (did : Bytes) (B : Nat) (hw : WF s) (hb : ∀ did d, s.get did = some d → d.seq ≤ B) (hB : B + 1 < 2 ^ 64) :
    seqOf (step da cr s m) did = seqOf s did ∨
    (seqOf (step da cr s m) did = seqOf s did + 1 ∧ deliver da cr s m = .ok (step da cr s m)) :=
  seq_step hw hb (by simpa [two64] using hB)

/-- The sequence never decreases along any history. -/
theorem seq_monotone (da : Bytes → Option Bytes) (cr : Crypto) (s : State) (ms : List Msg) (did : Bytes) (B : Nat)
    (hw : WF s) (hb : ∀ did d, s.get did = some d → d.seq ≤ B) (hB : B + ms.length < 2 ^ 64) :
    seqOf s did ≤ seqOf (run da cr s ms) did :=
  seq_mono_run ms did hw hb (by simpa [two64] using hB)

/-- The sequence the read operation returns is the one the next proof is verified against. -/
theorem read_seq_is_next (da : Bytes → Option Bytes) (cr : Crypto) (s s' : State) (did : Bytes) (cur : DocWithSeq)
    (doc : Option Doc) (db vmID sig fr : Bytes) (hq : queryDID s did = .ok cur)
    (h : deliver da cr s (.update did doc db vmID sig fr) = .ok s') :
    ∃ stored vm, cur.doc = some stored ∧ Proven cr db cur.seq stored vmID sig vm := by
  obtain ⟨_, stored, vm, _, _, _, _, _, hst, _, hp, _⟩ := update_ok h
  have : cur = getDoc s did := by
    simp only [queryDID, bind, Outcome.bind] at hq
    split at hq
    · simp at hq
    · cases hd : (getDoc s did).deactivated with
      | ok b => simp only [hd] at hq; cases b <;> simp at hq; exact hq.symm
      | err e => simp [hd] at hq
      | panic e => simp [hd] at hq
  subst this
  exact ⟨stored, vm, hst, hp⟩

/-- A signature verifies for at most one message (whatever the keys). -/
def SigBinds (cr : Crypto) : Prop :=
  ∀ pk pk' m m' sig, cr.verify pk m sig = true → cr.verify pk' m' sig = true → m = m'

/-- **Replay of an update — reduction.**  If an update accepted at state `s` is accepted again at a later
state `s₂` (by any relayer `fr'`), then its signature also verifies over sign bytes that differ from the
ones it was made for. -/
theorem update_replay_reduction (da : Bytes → Option Bytes) (cr : Crypto) (s s1 s2 s3 : State)
    (did : Bytes) (doc : Option Doc) (db vmID sig fr fr' : Bytes) (ms : List Msg) (B : Nat)
    (hw : WF s) (hb : ∀ did d, s.get did = some d → d.seq ≤ B) (hB : B + 1 + ms.length < 2 ^ 64)
    (h1 : deliver da cr s (.update did doc db vmID sig fr) = .ok s1)
    (h2 : s2 = run da cr s1 ms)
    (h3 : deliver da cr s2 (.update did doc db vmID sig fr') = .ok s3) :
    ∃ pk pk' m m', cr.verify pk m sig = true ∧ cr.verify pk' m' sig = true ∧ m ≠ m' := by
  obtain ⟨_, st1, vm1, _, _, _, _, _, _, _, hp1, hs1⟩ := update_ok h1
  obtain ⟨_, st2, vm2, _, _, _, _, _, _, _, hp2, _⟩ := update_ok h3
  have hstep : step da cr s (.update did doc db vmID sig fr) = s1 := by simp [step, h1]
  obtain ⟨hw1, hb1⟩ := @wf_step da cr s (.update did doc db vmID sig fr) B hw hb (by simp [two64]; omega)
  rw [hstep] at hw1 hb1
  have hmono := seq_mono_run (da := da) (cr := cr) ms did hw1 hb1 (by simp [two64]; omega)
  rw [← h2] at hmono
  have hs1seq : seqOf s1 did = seqOf s did + 1 := by
    have hsb : seqOf s did ≤ B := by
      unfold seqOf getDoc
      cases hx : s.get did with
      | none => simp
      | some x => simpa using hb did x hx
    rw [hs1]; simp only [seqOf, getDoc_set_eq]
    exact nextSeq_of_lt (by simp [two64, seqOf] at hsb ⊢; omega)
  refine ⟨_, _, _, _, hp1.verified, hp2.verified, ?_⟩
  intro he
  have := (signBytes_injective _ _ _ _ he).2
  simp only [seqOf] at hmono hs1seq
  omega

/-- **Replay of an update is rejected** (under `SigBinds`), at every later point of every history and
through every relayer. -/
theorem update_replay_rejected (da : Bytes → Option Bytes) (cr : Crypto) (hsig : SigBinds cr) (s s1 : State)
    (did : Bytes) (doc : Option Doc) (db vmID sig fr fr' : Bytes) (ms : List Msg) (B : Nat)
    (hw : WF s) (hb : ∀ did d, s.get did = some d → d.seq ≤ B) (hB : B + 1 + ms.length < 2 ^ 64)
    (h1 : deliver da cr s (.update did doc db vmID sig fr) = .ok s1) :
    (deliver da cr (run da cr s1 ms) (.update did doc db vmID sig fr')).isOk = false := by
  cases h3 : deliver da cr (run da cr s1 ms) (.update did doc db vmID sig fr') with
  | ok s3 =>
    obtain ⟨pk, pk', m, m', v1, v2, hne⟩ :=
      update_replay_reduction da cr s s1 _ s3 did doc db vmID sig fr fr' ms B hw hb hB h1 rfl h3
    exact absurd (hsig pk pk' m m' sig v1 v2) hne
  | err e => rfl
  | panic e => rfl

/-- **Replay of a deactivation is rejected** — unconditionally: the DID is a tombstone afterwards, and
stays one. -/
theorem deactivate_replay_rejected (da : Bytes → Option Bytes) (cr : Crypto) (s s1 : State)
    (did vmID sig fr fr' : Bytes) (ms : List Msg) (hov : seqOf s did + 1 < 2 ^ 64)
    (h1 : deliver da cr s (.deactivate did vmID sig fr) = .ok s1) :
    (deliver da cr (run da cr s1 ms) (.deactivate did vmID sig fr')).isOk = false := by
  obtain ⟨_, _, _, _, _, _, _, hs1⟩ := deactivate_ok h1
  have hdead : Dead s1 did := by
    refine ⟨_, emptyDoc, by rw [hs1]; exact Map.get_set_eq _ _ _, rfl, emptyDoc_empty, ?_⟩
    simp only
    rw [nextSeq_of_lt (by simpa [two64, seqOf] using hov)]; omega
  have hrun := dead_run (da := da) (cr := cr) ms hdead
  cases h3 : deliver da cr (run da cr s1 ms) (.deactivate did vmID sig fr') with
  | ok s3 =>
    obtain ⟨stored, _, _, _, hst, hne, _, _⟩ := deactivate_ok h3
    obtain ⟨d, doc, hg, hdoc, hemp, _⟩ := hdead
    rw [getDoc_of_get (by rw [hrun]; exact hg), hdoc] at hst
    cases hst; simp [hemp] at hne
  | err e => rfl
  | panic e => rfl

/-- **Replay of a creation is rejected** — unconditionally: the identifier is occupied (by a document or
a tombstone) from then on. -/
theorem create_replay_rejected (da : Bytes → Option Bytes) (cr : Crypto) (s s1 : State)
    (did : Bytes) (doc : Option Doc) (db vmID sig fr fr' : Bytes) (ms : List Msg) (B : Nat)
    (hw : WF s) (hb : ∀ did d, s.get did = some d → d.seq ≤ B) (hB : B + 1 + ms.length < 2 ^ 64)
    (h1 : deliver da cr s (.create did doc db vmID sig fr) = .ok s1) :
    (deliver da cr (run da cr s1 ms) (.create did doc db vmID sig fr')).isOk = false := by
  obtain ⟨d, _, _, hvd, _, hid, _, _, _, hs1⟩ := create_ok h1
  have hstep : step da cr s (.create did doc db vmID sig fr) = s1 := by simp [step, h1]
  obtain ⟨hw1, hb1⟩ := @wf_step da cr s (.create did doc db vmID sig fr) B hw hb (by simp [two64]; omega)
  rw [hstep] at hw1 hb1
  -- the entry is never empty again: induction over the history
  have key : ∀ (ms : List Msg) (t : State) (C : Nat), WF t → (∀ did d, t.get did = some d → d.seq ≤ C) →
      C + ms.length < two64 → (getDoc t did).isEmpty = false → (getDoc (run da cr t ms) did).isEmpty = false := by
    intro ms
    induction ms with
    | nil => intro t C _ _ _ h; exact h
    | cons m ms ih =>
      intro t C hwt hbt hC hne
      simp only [run, List.foldl_cons, List.length_cons] at hC ⊢
      obtain ⟨hw', hb'⟩ := @wf_step da cr t m C hwt hbt (by omega)
      refine ih _ (C + 1) hw' hb' (by omega) ?_
      have hsb : seqOf t did ≤ C := by
        unfold seqOf getDoc
        cases hx : t.get did with
        | none => simp
        | some x => simpa using hbt did x hx
      cases effect_of_step da cr t m did with
      | unchanged h => simpa [getDoc, h] using hne
      | created d0 db0 h0 _ _ _ h => simp [h0] at hne
      | updated d0 stored db0 hst hne0 hid0 hvd0 h =>
        simp [getDoc, h, DocWithSeq.isEmpty, valid_nonempty_of_id hid0 hvd0]
      | deactivated stored hst hne0 h =>
        simp only [getDoc, h, Option.getD_some, DocWithSeq.isEmpty, emptyDoc_empty, Bool.true_and]
        rw [nextSeq_of_lt (by omega)]; simp
  have hne1 : (getDoc s1 did).isEmpty = false := by
    rw [hs1, getDoc_set_eq]; simp [DocWithSeq.isEmpty, valid_nonempty_of_id hid hvd]
  have := key ms s1 (B + 1) hw1 hb1 (by simp [two64]; omega) hne1
  cases h3 : deliver da cr (run da cr s1 ms) (.create did doc db vmID sig fr') with
  | ok s3 =>
    obtain ⟨_, _, _, _, _, _, _, hemp, _, _⟩ := create_ok h3
    rw [this] at hemp; cases hemp
  | err e => rfl
  | panic e => rfl

/-! ## Non-vacuity -/
example : signBytes [1, 2] 0 = [0x0a, 2, 1, 2] := by decide
example : signBytes [1, 2] 300 = [0x0a, 2, 1, 2, 0x10, 0xac, 0x02] := by decide
example : signBytes [] 0 = [] := by decide

end Panacea.C04
