import Panacea.Lemmas.Pnft
/-!
# C06 — PNFT authorization: only current owners act on denoms and tokens

Message level: "the actor named in the message is the current owner".  That the actor (the message's
only `GetSigners` address) has signed the transaction, or delegated through authz, is the transaction
layer (`Properties/C02`/`C15`: `Tx.deliver` accepts a message only with every `GetSigners` address
authorised).
-/
namespace Panacea.C06
open Panacea CompKey Validate Pnft

/-- A denom is updated, deleted or handed over, and tokens are minted in it, only by its *current* owner
(the owner string stored in the class), whoever created it. -/
theorem denom_ops_require_current_owner (c : AddrCodec) (now : Int) (s s' : State) :
    (∀ id n sy de u uh da updater, handle c now s (.updateDenom id n sy de u uh da updater) = .ok s' →
      ∃ d, s.classes.get id = some d ∧ updater = d.owner) ∧
    (∀ id remover, handle c now s (.deleteDenom id remover) = .ok s' →
      ∃ d, s.classes.get id = some d ∧ remover = d.owner) ∧
    (∀ id sender receiver, handle c now s (.transferDenom id sender receiver) = .ok s' →
      ∃ d, s.classes.get id = some d ∧ sender = d.owner) ∧
    (∀ dn id n de u uh da creator, handle c now s (.mintPNFT dn id n de u uh da creator) = .ok s' →
      ∃ d, s.classes.get dn = some d ∧ creator = d.owner) := by
  refine ⟨?_, ?_, ?_, ?_⟩
  · intro id n sy de u uh da updater h
    obtain ⟨d, h1, h2, _⟩ := updateDenom_ok h; exact ⟨d, h1, h2⟩
  · intro id remover h
    obtain ⟨d, h1, h2, _⟩ := deleteDenom_ok h; exact ⟨d, h1, h2⟩
  · intro id sender receiver h
    obtain ⟨d, h1, h2, _⟩ := transferDenom_ok h; exact ⟨d, h1, h2⟩
  · intro dn id n de u uh da creator h
    obtain ⟨d, _, h1, h2, _⟩ := mint_ok h; exact ⟨d, h1, h2.symm⟩

/-- A token is transferred or burned only by its current owner (the address stored in the owner table,
rendered as text). -/
theorem token_ops_require_current_owner (c : AddrCodec) (now : Int) (s s' : State) :
    (∀ dn id sender receiver, handle c now s (.transferPNFT dn id sender receiver) = .ok s' →
      (s.nfts.get (nftKey dn id)).isSome = true ∧ sender = ownerText c (getOwner s dn id)) ∧
    (∀ dn id burner, handle c now s (.burnPNFT dn id burner) = .ok s' →
      (s.nfts.get (nftKey dn id)).isSome = true ∧ burner = ownerText c (getOwner s dn id)) := by
  constructor
  · intro dn id sender receiver h
    obtain ⟨p, r, hp, hs, _⟩ := transferPNFT_ok h
    unfold getPNFT at hp
    cases hg : s.nfts.get (nftKey dn id) with
    | none => simp [hg] at hp
    | some n => simp [hg] at hp; subst hp; exact ⟨rfl, hs⟩
  · intro dn id burner h
    obtain ⟨p, hp, hs, _⟩ := burn_ok h
    unfold getPNFT at hp
    cases hg : s.nfts.get (nftKey dn id) with
    | none => simp [hg] at hp
    | some n => simp [hg] at hp; subst hp; exact ⟨rfl, hs⟩

/-- The stored owner of a denom changes only through a hand-over by the current owner (or the denom is
created / deleted): every other accepted message leaves `owner` of every class as it was. -/
theorem denom_owner_changes_only_by_transfer (c : AddrCodec) (now : Int) (s s' : State) (m : PnftMsg)
    (h : handle c now s m = .ok s') (id : Bytes) (d : Class) (hd : s.classes.get id = some d) :
    (∃ d', s'.classes.get id = some d' ∧ d'.owner = d.owner) ∨
    (∃ receiver, m = .transferDenom id d.owner receiver) ∨
    (m = .deleteDenom id d.owner) := by
  cases m with
  | createDenom id0 n sy de u uh da cr =>
    obtain ⟨hno, rfl⟩ := createDenom_ok h
    left
    by_cases he : id = id0
    · subst he; simp [hasClass, Map.has, hd] at hno
    · exact ⟨d, by simp only; rw [Map.get_set_ne _ _ _ _ he]; exact hd, rfl⟩
  | updateDenom id0 n sy de u uh da up =>
    obtain ⟨d0, hg, _, d', rfl, ho, _⟩ := updateDenom_ok h
    left
    by_cases he : id = id0
    · subst he; rw [hd] at hg; cases hg
      exact ⟨d', by simp only; exact Map.get_set_eq _ _ _, ho⟩
    · exact ⟨d, by simp only; rw [Map.get_set_ne _ _ _ _ he]; exact hd, rfl⟩
  | deleteDenom id0 rm =>
    obtain ⟨d0, hg, hr, _, rfl⟩ := deleteDenom_ok h
    by_cases he : id = id0
    · subst he; rw [hd] at hg; cases hg
      right; right; rw [hr]
    · left; exact ⟨d, by simp only; rw [Map.get_del_ne _ _ _ he]; exact hd, rfl⟩
  | transferDenom id0 sn rc =>
    obtain ⟨d0, hg, hs, rfl⟩ := transferDenom_ok h
    by_cases he : id = id0
    · subst he; rw [hd] at hg; cases hg
      right; left; exact ⟨rc, by rw [hs]⟩
    · left; exact ⟨d, by simp only; rw [Map.get_set_ne _ _ _ _ he]; exact hd, rfl⟩
  | mintPNFT dn id0 n de u uh da cr =>
    obtain ⟨_, _, _, _, _, _, _, _, hc⟩ := mint_ok h
    left; exact ⟨d, by rw [hc]; exact hd, rfl⟩
  | transferPNFT dn id0 sn rc =>
    obtain ⟨_, _, _, _, _, _, rfl⟩ := transferPNFT_ok h
    left; exact ⟨d, hd, rfl⟩
  | burnPNFT dn id0 b =>
    obtain ⟨_, _, _, _, _, hc⟩ := burn_ok h
    left; exact ⟨d, by rw [hc]; exact hd, rfl⟩

/-- A former owner is refused: after a successful hand-over to a *different* address, the previous owner's
update / delete / transfer / mint on that denom is rejected (until it is handed back). -/
theorem former_owner_rejected (c : AddrCodec) (now now' : Int) (s s' : State) (id sender receiver : Bytes)
    (hne : receiver ≠ sender) (h : handle c now s (.transferDenom id sender receiver) = .ok s') :
    (∀ n sy de u uh da, (handle c now' s' (.updateDenom id n sy de u uh da sender)).isOk = false) ∧
    (handle c now' s' (.deleteDenom id sender)).isOk = false ∧
    (∀ r, (handle c now' s' (.transferDenom id sender r)).isOk = false) ∧
    (∀ i n de u uh da, (handle c now' s' (.mintPNFT id i n de u uh da sender)).isOk = false) := by
  obtain ⟨d, hg, hs, rfl⟩ := transferDenom_ok h
  have hget : ({ s with classes := s.classes.set id { d with owner := receiver } } : State).classes.get id =
      some { d with owner := receiver } := Map.get_set_eq _ _ _
  refine ⟨?_, ?_, ?_, ?_⟩
  · intro n sy de u uh da
    cases hx : handle c now' _ (.updateDenom id n sy de u uh da sender) with
    | ok s2 => obtain ⟨d2, h1, h2, _⟩ := updateDenom_ok hx; rw [hget] at h1; cases h1; exact absurd h2.symm hne
    | err e => rfl
    | panic e => rfl
  · cases hx : handle c now' _ (.deleteDenom id sender) with
    | ok s2 => obtain ⟨d2, h1, h2, _⟩ := deleteDenom_ok hx; rw [hget] at h1; cases h1; exact absurd h2.symm hne
    | err e => rfl
    | panic e => rfl
  · intro r
    cases hx : handle c now' _ (.transferDenom id sender r) with
    | ok s2 => obtain ⟨d2, h1, h2, _⟩ := transferDenom_ok hx; rw [hget] at h1; cases h1; exact absurd h2.symm hne
    | err e => rfl
    | panic e => rfl
  · intro i n de u uh da
    cases hx : handle c now' _ (.mintPNFT id i n de u uh da sender) with
    | ok s2 => obtain ⟨d2, _, h1, h2, _⟩ := mint_ok hx; rw [hget] at h1; cases h1; exact absurd h2 hne
    | err e => rfl
    | panic e => rfl

/-- Every refused request leaves all denoms, tokens and ownerships unchanged. -/
theorem refused_is_noop (c : AddrCodec) (s : State) (op : Int × PnftMsg)
    (h : (handle c op.1 s op.2).isOk = false) : step c s op = s := by
  unfold step
  cases hd : handle c op.1 s op.2 with
  | ok s' => simp [hd, Outcome.isOk] at h
  | err e => rfl
  | panic e => rfl

end Panacea.C06
