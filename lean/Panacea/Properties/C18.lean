import Panacea.Lemmas.CompKeyString
/-!
# C18 — Composite keys: lossless, collision-free and prefix-exact

All statements are for tuples of *any* number of components of *any* size; the property's
"0–4 components of 0–255 bytes" are instances.
-/
namespace Panacea.C18
open Panacea CompKey

/-- Encoding then decoding returns the same tuple. -/
theorem decode_encode (vs : List Bytes) (bz : Bytes) (h : encode vs = some bz) : decode bz = some vs :=
  decode_encode' vs bz h

/-- The decoder accepts only canonical encodings: whatever it returns re-encodes to the input. -/
theorem encode_decode (bz : Bytes) (vs : List Bytes) (h : decode bz = some vs) : encode vs = some bz :=
  encode_decode' bz vs h

/-- Two different tuples never encode to the same bytes. -/
theorem encode_injective (a b : List Bytes) (bz : Bytes)
    (ha : encode a = some bz) (hb : encode b = some bz) : a = b := by
  have h1 := decode_encode a bz ha
  have h2 := decode_encode b bz hb
  rw [h1] at h2; exact Option.some.inj h2

/-- Prefix-exactness: one encoding is a byte-prefix of another exactly when the tuple is a
component-prefix of the other tuple. -/
theorem prefix_exact (a b : List Bytes) (p q : Bytes) (ha : encode a = some p) (hb : encode b = some q) :
    p <+: q ↔ a <+: b :=
  ⟨prefix_of_encode_prefix a b p q ha hb, encode_prefix_of_prefix ha hb⟩

/-- The form the listings use: the encoding of the first `k` components of `a` (`PartialEncode`) is a
byte-prefix of `b`'s encoding exactly when `b`'s first `k` components equal `a`'s. -/
theorem partial_prefix_exact (a b : List Bytes) (k : Nat) (p q : Bytes)
    (ha : partialEncode a k = some p) (hb : encode b = some q) :
    p <+: q ↔ b.take k = a.take k := by
  unfold partialEncode at ha
  split at ha
  · cases ha
  · rename_i hk
    rw [prefix_exact _ _ _ _ ha hb, List.prefix_iff_eq_take]
    have : (a.take k).length = k := by simp; omega
    rw [this]
    exact ⟨fun h => h.symm, fun h => h.symm⟩

/-- Components longer than 255 bytes are rejected, and nothing else is: encoding fails exactly when
some component is longer than 255 bytes (so nothing is ever truncated to fit). -/
theorem encode_none_iff_long (vs : List Bytes) : encode vs = none ↔ ∃ v ∈ vs, v.length > 255 := by
  have := encode_isSome_iff vs
  constructor
  · intro h
    false_or_by_contra
    rename_i hc
    have hall : ∀ v ∈ vs, v.length ≤ 255 := by
      intro v hv
      false_or_by_contra
      exact hc ⟨v, hv, by omega⟩
    have := this.mpr hall
    simp [h] at this
  · intro ⟨v, hv, hl⟩
    cases he : encode vs with
    | none => rfl
    | some e =>
      have := this.mp (by simp [he]) v hv
      omega

/-- A successful encoding has exactly the length of its parts: one length byte per component plus the
component, so no byte of any component is dropped. -/
theorem encode_length_exact (vs : List Bytes) (bz : Bytes) (h : encode vs = some bz) :
    bz.length = (vs.map fun v => v.length + 1).sum := encode_length h

/-! ## Typed AOL keys -/

/-- Typed decode accepts only canonical encodings of a key of that kind (nothing is truncated or
padded): whatever it returns re-encodes to the input bytes. -/
theorem decodeTyped_canonical (k : Kind) (bz : Bytes) (comps : List Bytes)
    (h : decodeTyped k bz = .ok comps) : encode comps = some bz := by
  unfold decodeTyped at h
  cases hd : decode bz with
  | none => simp [hd] at h
  | some vs =>
    simp only [hd] at h
    have henc := encode_decode bz vs hd
    cases k with
    | owner =>
      match vs, h with
      | [o], h => simp only [fromByteSlices] at h; split at h <;> simp at h; subst h; exact henc
    | topic =>
      match vs, h with
      | [o, t], h => simp only [fromByteSlices] at h; split at h <;> simp at h; subst h; exact henc
    | writer =>
      match vs, h with
      | [o, t, w], h =>
        simp only [fromByteSlices] at h
        split at h
        · simp at h
        · split at h <;> simp at h
          subst h; exact henc
    | record =>
      match vs, h with
      | [o, t, n], h =>
        simp only [fromByteSlices] at h
        split at h
        · simp at h
        · cases hb : offsetOfBytes n with
          | ok off =>
            simp only [hb] at h
            simp at h
            subst h
            unfold offsetOfBytes at hb
            split at hb
            · simp at hb
            · rename_i hlen8
              have hn : n.length = 8 := by omega
              match n, hn, hb with
              | [a, b, c, d, e, f, g, i], _, hb =>
                simp [fromBe64] at hb
                subst hb
                rw [be64_of_bytes]; exact henc
          | err c => simp [hb] at h
          | panic s => simp [hb] at h

/-- Typed decode never aborts: malformed input is an error. -/
theorem decodeTyped_total (k : Kind) (bz : Bytes) : (decodeTyped k bz).isPanic = false := by
  unfold decodeTyped
  cases decode bz with
  | none => rfl
  | some vs =>
    cases k <;> simp only
    · match vs with
      | [] | [o] | _ :: _ :: _ => simp only [fromByteSlices] <;> (try split) <;> rfl
    · match vs with
      | [] | [_] | [o, t] | _ :: _ :: _ :: _ => simp only [fromByteSlices] <;> (try split) <;> rfl
    · match vs with
      | [] | [_] | [_, _] | _ :: _ :: _ :: _ :: _ => rfl
      | [o, t, w] => simp only [fromByteSlices]; split <;> (try split) <;> rfl
    · match vs with
      | [] | [_] | [_, _] | _ :: _ :: _ :: _ :: _ => rfl
      | [o, t, n] =>
        simp only [fromByteSlices]
        split
        · rfl
        · have : (offsetOfBytes n).isPanic = false := by
            unfold offsetOfBytes
            split
            · rfl
            · rename_i hl
              have hn : n.length = 8 := by omega
              match n, hn with
              | [a, b, c, d, e, f, g, i], _ => rfl
          cases hb : offsetOfBytes n with
          | ok off => rfl
          | err c => rfl
          | panic s => simp [hb, Outcome.isPanic] at this

end Panacea.C18

namespace Panacea.C18
open Panacea CompKey

/-! ## String form (genesis keys) -/

/-- The components the message validators admit for a key of each kind: addresses are 1–255 bytes,
topic names contain no `/` (the validator's charset `[A-Za-z0-9._-]` excludes it; see C16), offsets
are `uint64`. -/
def Admitted : Kind → List Bytes → Prop
  | .owner, [o] => addrOk o = true
  | .topic, [o, t] => addrOk o = true ∧ slash ∉ t
  | .writer, [o, t, w] => addrOk o = true ∧ slash ∉ t ∧ addrOk w = true
  | .record, [o, t, n] => addrOk o = true ∧ slash ∉ t ∧ ∃ off, off < 2 ^ 64 ∧ n = be64 off
  | _, _ => False

/-- The string form used in genesis files round-trips for every admitted key, for any address codec
that satisfies the three laws (`dec ∘ enc = id` on valid addresses, `dec` yields valid addresses, the
text contains no `/`). -/
theorem string_roundtrip_admitted (c : AddrCodec) (hc : c.Lawful) (k : Kind) (comps : List Bytes)
    (h : Admitted k comps) : decodeFromString c k (encodeToString c k comps) = some comps := by
  unfold decodeFromString encodeToString
  cases k with
  | owner =>
    match comps, h with
    | [o], h =>
      simp only [strings]
      rw [splitSlash_joinSlash _ (by simp) (by intro p hp; simp at hp; subst hp; exact hc.no_slash o)]
      simp [fromStrings, hc.dec_enc o h]
  | topic =>
    match comps, h with
    | [o, t], ⟨ho, ht⟩ =>
      simp only [strings]
      rw [splitSlash_joinSlash _ (by simp) (by
        intro p hp; simp at hp; rcases hp with rfl | rfl
        · exact hc.no_slash o
        · exact ht)]
      simp [fromStrings, hc.dec_enc o ho]
  | writer =>
    match comps, h with
    | [o, t, w], ⟨ho, ht, hw⟩ =>
      simp only [strings]
      rw [splitSlash_joinSlash _ (by simp) (by
        intro p hp; simp at hp; rcases hp with rfl | rfl | rfl
        · exact hc.no_slash o
        · exact ht
        · exact hc.no_slash w)]
      simp [fromStrings, hc.dec_enc o ho, hc.dec_enc w hw]
  | record =>
    match comps, h with
    | [o, t, n], ⟨ho, ht, off, hoff, hn⟩ =>
      subst hn
      simp only [strings, fromBe64_be64 off (by simpa using hoff)]
      rw [splitSlash_joinSlash _ (by simp) (by
        intro p hp; simp at hp; rcases hp with rfl | rfl | rfl
        · exact hc.no_slash o
        · exact ht
        · exact formatUint_noslash off)]
      simp [fromStrings, hc.dec_enc o ho, parseUint64_formatUint off hoff]

/-! ## Non-vacuity: concrete instances of every hypothesis above -/

example : encode [[1, 2], [], [3]] = some [2, 1, 2, 0, 1, 3] := by decide
example : decode [2, 1, 2, 0, 1, 3] = some [[1, 2], [], [3]] := by decide
example : decode [2, 1] = none := by decide
example : partialEncode [[1, 2], [], [3]] 2 = some [2, 1, 2, 0] := by decide
/-- a component containing another component's length byte does not confuse prefixes -/
example : encode [[1], [7]] = some [1, 1, 1, 7] ∧ encode [[1, 1, 7]] = some [3, 1, 1, 7] := by decide
example : Admitted .record [[9], [0x74], be64 5] := ⟨by decide, by decide, 5, by decide, rfl⟩
example : decodeTyped .record [1, 9, 1, 0x74, 8, 0, 0, 0, 0, 0, 0, 0, 5] = .ok [[9], [0x74], be64 5] := by decide
/-- offset components that are not exactly eight bytes are errors (never a panic, never truncated) -/
example : decodeTyped .record [1, 9, 1, 0x74, 3, 0, 0, 5] = .err "offset-len" := by decide
example : decodeTyped .record [1, 9, 1, 0x74, 9, 0, 0, 0, 0, 0, 0, 0, 5, 6] = .err "offset-len" := by decide
example : decodeTyped .record [1, 9, 1, 0x74, 0] = .err "offset-len" := by decide

end Panacea.C18
