import Panacea.Lemmas.AolCount
import Panacea.Lemmas.Paginate
import Panacea.Properties.C18
import Panacea.Properties.C01
/-!
# C13 — AOL counters and listings equal the real contents, with no cross-talk

* counters: `CountInv` (proved for the empty genesis and preserved by every message) says that an owner's
  `total_topics` and a topic's `total_writers` equal the number of entries the corresponding listing
  iterates over (as `uint64`, i.e. modulo `2^64`; the corollaries state plain equality for realistic
  sizes).  `total_records` = number of stored records is `C01.addRecord_acknowledged` / `RecInv`.
* listings: whatever the pagination request, every item returned belongs to exactly the requested
  owner / topic (component-exact, never a name that merely shares a prefix); following `next_key` forward
  with any page size returns the whole listing, in order, each item once; `count_total` is its length.
  The same for the reverse walk (`listing_reverse_walk_complete`: descending, each item once, and the walk never
  sends the one key on which the SDK's reverse iterator panics, F14) and for offset-style pages
  (`listing_offset_page`: a page is exactly that slice, in either direction, `next_key` the entry after it;
  `listing_offset_walk_complete`: consecutive offsets return the whole listing).
-/
namespace Panacea.C13
open Panacea CompKey Aol Map

theorem countInv_genesis : CountInv {} := countInv_empty

theorem countInv_reachable (c : AddrCodec) (s : State) (ops : List (Int × Msg)) (hi : CountInv s) :
    CountInv (run c s ops) := countInv_run ops hi

/-- The reported number of topics of an owner equals the number of topic entries the `Topics` listing of
that owner iterates over. -/
theorem total_topics_eq_listed (s : State) (hi : CountInv s) (o ok : Bytes) (hok : encode [o] = some ok)
    (hsmall : (s.topics.prefixView ok).length < 2 ^ 64)
    (hw : ((s.owners.get ok).getD {}).totalTopics < 2 ^ 64) :
    ((s.owners.get ok).getD {}).totalTopics = (s.topics.prefixView ok).length := by
  have := hi.topicsCount o ok hok
  rw [prefixView_length] at hsmall ⊢
  unfold two64 at this
  omega

/-- The reported number of writers of a topic equals the number of writer entries the `Writers` listing
of that topic iterates over. -/
theorem total_writers_eq_listed (s : State) (hi : CountInv s) (o t tk : Bytes) (topic : Topic)
    (htk : encode [o, t] = some tk) (hg : s.topics.get tk = some topic)
    (hsmall : (s.writers.prefixView tk).length < 2 ^ 64) (hw : topic.totalWriters < 2 ^ 64) :
    topic.totalWriters = (s.writers.prefixView tk).length := by
  have := hi.writersCount o t tk topic htk hg
  rw [prefixView_length] at hsmall ⊢
  unfold two64 at this
  omega

/-- Every name `decodeListed` returns comes from an item that decodes to it. -/
theorem decodeListed_mem {α} (k : Kind) (pfx : Bytes) (idx : Nat) :
    ∀ (items : List (Bytes × α)) (names : List Bytes), decodeListed k pfx idx items = .ok names →
      ∀ n ∈ names, ∃ e ∈ items, ∃ comps, decodeTyped k (pfx ++ e.1) = .ok comps ∧ comps[idx]? = some n := by
  intro items
  induction items with
  | nil => intro names h; simp [decodeListed] at h; subst h; intro n hn; simp at hn
  | cons e rest ih =>
    intro names h
    simp only [decodeListed] at h
    cases hd : decodeTyped k (pfx ++ e.1) with
    | ok comps =>
      simp only [hd] at h
      cases hx : comps[idx]? with
      | some x =>
        simp only [hx] at h
        cases hr : decodeListed k pfx idx rest with
        | ok ns =>
          simp only [hr] at h; simp at h; subst h
          intro n hn
          rcases List.mem_cons.mp hn with rfl | hn
          · exact ⟨e, by simp, comps, hd, hx⟩
          · obtain ⟨e', he', r⟩ := ih ns hr n hn
            exact ⟨e', by simp [he'], r⟩
        | err c => simp [hr] at h
        | panic p => simp [hr] at h
      | none => simp [hx] at h
    | err c => simp [hd] at h
    | panic p => simp [hd] at h

/-- **No cross-talk (topics).**  Whatever the pagination request, every name the `Topics` query returns
for an owner is the name of a topic stored under *that* owner. -/
theorem topics_listing_only_owner (c : AddrCodec) (s : State) (oa : Bytes) (req : Paginate.PageRequest)
    (names : List Bytes) (page : Paginate.PageResponse)
    (h : queryTopics c s oa req = .ok (names, page)) :
    ∃ o, c.dec oa = some o ∧ ∀ n ∈ names, ∃ tk, encode [o, n] = some tk ∧ s.topics.has tk = true := by
  simp only [queryTopics, bind, Outcome.bind, decAddr] at h
  cases ho : c.dec oa with
  | none => simp [ho] at h
  | some o =>
    refine ⟨o, rfl, ?_⟩
    simp only [ho] at h
    cases hp : partialEncode [o, []] 1 with
    | none => simp [hp] at h
    | some pfx =>
      simp only [hp] at h
      have hpfx : encode [o] = some pfx := by simpa [partialEncode] using hp
      cases hpg : Paginate.paginate (s.topics.prefixView pfx) req with
      | ok r =>
        obtain ⟨items, pg⟩ := r
        simp only [hpg] at h
        cases hdl : decodeListed .topic pfx 1 items with
        | ok ns =>
          simp only [hdl, pure, Outcome.ok.injEq, Prod.mk.injEq] at h
          obtain ⟨rfl, _⟩ := h
          intro n hn
          obtain ⟨e, he, comps, hdec, hidx⟩ := decodeListed_mem .topic pfx 1 items ns hdl n hn
          have hmem := Paginate.paginate_subset hpg e he
          have hkey : (pfx ++ e.1, e.2) ∈ s.topics := mem_prefixView.mp hmem
          have hcanon := C18.decodeTyped_canonical .topic (pfx ++ e.1) comps hdec
          -- comps = [o', t'] and the owner component is forced by the prefix
          unfold decodeTyped at hdec
          cases hd : decode (pfx ++ e.1) with
          | none => simp [hd] at hdec
          | some vs =>
            simp only [hd] at hdec
            match vs, hdec with
            | [o', t'], hdec =>
              simp only [fromByteSlices] at hdec
              split at hdec <;> simp at hdec
              subst hdec
              simp at hidx; subst hidx
              have hpre : [o] <+: [o', t'] :=
                prefix_of_encode_prefix _ _ _ _ hpfx hcanon (List.prefix_append _ _)
              have : o = o' := by
                have := List.prefix_iff_eq_take.mp hpre; simp at this; exact this
              subst this
              exact ⟨pfx ++ e.1, hcanon, (get_isSome_iff_mem_keys _ _).mpr (List.mem_map.mpr ⟨_, hkey, rfl⟩)⟩
        | err e => simp [hdl] at h
        | panic e => simp [hdl] at h
      | err e => simp [hpg] at h
      | panic e => simp [hpg] at h


/-- **No cross-talk (writers).**  Whatever the pagination request, every address the `Writers` query returns
for `(owner, topic)` is a writer stored under exactly that owner and exactly that topic (never a topic whose
name merely starts with the requested one, never another owner's). -/
theorem writers_listing_only_topic (c : AddrCodec) (s : State) (oa t : Bytes) (req : Paginate.PageRequest)
    (ws : List Bytes) (page : Paginate.PageResponse)
    (h : queryWriters c s oa t req = .ok (ws, page)) :
    ∃ o, c.dec oa = some o ∧ ∀ w ∈ ws, ∃ wk, encode [o, t, w] = some wk ∧ s.writers.has wk = true := by
  simp only [queryWriters, bind, Outcome.bind, decAddr] at h
  cases ho : c.dec oa with
  | none => simp [ho] at h
  | some o =>
    refine ⟨o, rfl, ?_⟩
    simp only [ho] at h
    cases hp : partialEncode [o, t, []] 2 with
    | none => simp [hp] at h
    | some pfx =>
      simp only [hp] at h
      have hpfx : encode [o, t] = some pfx := by simpa [partialEncode] using hp
      cases hpg : Paginate.paginate (s.writers.prefixView pfx) req with
      | ok r =>
        obtain ⟨items, pg⟩ := r
        simp only [hpg] at h
        cases hdl : decodeListed .writer pfx 2 items with
        | ok ns =>
          simp only [hdl, pure, Outcome.ok.injEq, Prod.mk.injEq] at h
          obtain ⟨rfl, _⟩ := h
          intro n hn
          obtain ⟨e, he, comps, hdec, hidx⟩ := decodeListed_mem .writer pfx 2 items ns hdl n hn
          have hmem := Paginate.paginate_subset hpg e he
          have hkey : (pfx ++ e.1, e.2) ∈ s.writers := mem_prefixView.mp hmem
          have hcanon := C18.decodeTyped_canonical .writer (pfx ++ e.1) comps hdec
          unfold decodeTyped at hdec
          cases hd : decode (pfx ++ e.1) with
          | none => simp [hd] at hdec
          | some vs =>
            simp only [hd] at hdec
            match vs, hdec with
            | [o', t', w'], hdec =>
              simp only [fromByteSlices] at hdec
              have hc : comps = [o', t', w'] := by
                split at hdec
                · simp at hdec
                · split at hdec
                  · simp at hdec
                  · simp at hdec; exact hdec.symm
              subst hc
              simp at hidx; subst hidx
              have hpre : [o, t] <+: [o', t', w'] :=
                prefix_of_encode_prefix _ _ _ _ hpfx hcanon (List.prefix_append _ _)
              have h2 : o = o' ∧ t = t' := by
                have := List.prefix_iff_eq_take.mp hpre; simp at this; exact this
              obtain ⟨rfl, rfl⟩ := h2
              exact ⟨pfx ++ e.1, hcanon, (get_isSome_iff_mem_keys _ _).mpr (List.mem_map.mpr ⟨_, hkey, rfl⟩)⟩
        | err e => simp [hdl] at h
        | panic e => simp [hdl] at h
      | err e => simp [hpg] at h
      | panic e => simp [hpg] at h

/-- **Forward walk completeness** for any listing view: following `next_key` from the start with any
page size returns the whole view, in order, each entry once (`Paginate.walkFwd_complete`), and
`count_total` is its length (`Paginate.paginate_total`). -/
theorem listing_walk_complete {V} (items : List (Bytes × V)) (hs : Paginate.SortedItems items)
    (hne : ∀ e ∈ items, e.1 ≠ []) (limit : Nat) (hl : 0 < limit) (hlim : limit + 1 < 2 ^ 64) :
    Paginate.walkFwd items limit (items.length + 1) [] = some items :=
  Paginate.walkFwd_complete items hs hne limit hl (by simpa using hlim)


/-- **Reverse walk completeness**: following `next_key` with `reverse = true` from the start returns the whole
listing in descending order, each item once, for any page size. -/
theorem listing_reverse_walk_complete {V : Type} (items : List (Bytes × V)) (hs : Paginate.SortedItems items)
    (hne : ∀ e ∈ items, e.1 ≠ []) (limit : Nat) (hl : 0 < limit) (hlim : limit + 1 < 2 ^ 64) :
    Paginate.walkRev items limit (items.length + 1) [] = some items.reverse :=
  Paginate.walkRev_complete items hs hne limit hl (by simpa using hlim)

/-- **Offset-style page**: exactly the requested slice of the listing in the requested direction, `next_key` the
key of the entry after it, `total` the listing's length when asked for. -/
theorem listing_offset_page {V : Type} (items : List (Bytes × V)) (o l : Nat) (ct rev : Bool) (hl : 0 < l)
    (hlim : o + l + 1 < 2 ^ 64) :
    Paginate.paginate items { offset := o, limit := l, countTotal := ct, reverse := rev } =
      .ok (((Paginate.ordered items rev).drop o).take l,
        { nextKey := Paginate.keyAt (Paginate.ordered items rev) (o + l), total := if ct then items.length else 0 }) :=
  Paginate.offset_page_eq items o l ct rev hl (by simpa using hlim)

/-- **Offset walk completeness**: the pages at offsets `0, l, 2l, …, (k-1)·l` with `k·l ≥ n` are together the
whole listing, in order, each item once. -/
theorem listing_offset_walk_complete {V : Type} (L : List (Bytes × V)) (l k : Nat) (hk : L.length ≤ k * l) :
    ((List.range k).map fun j => (L.drop (j * l)).take l).flatten = L :=
  Paginate.offset_walk_complete L l k hk

theorem listing_count_total {V} (items res : List (Bytes × V)) (req : Paginate.PageRequest) (page : Paginate.PageResponse)
    (hk : req.key = []) (hc : req.countTotal = true ∨ req.limit = 0)
    (h : Paginate.paginate items req = .ok (res, page)) : page.total = items.length :=
  Paginate.paginate_total hk hc h

/-! ## F25 — the one page request for which an offset walk loses items

`query.Paginate` computes `end := offset + limit` in `uint64`; the model wraps as Go does.  With the largest limit and
a non-zero offset the page is empty although items remain; one less and it is complete. -/
example : Paginate.pageByOffset [([1], ()), ([2], ()), ([3], ())] 1 (2 ^ 64 - 1) true false =
    .ok ([], { nextKey := [], total := 3 }) := by decide
example : Paginate.pageByOffset [([1], ()), ([2], ()), ([3], ())] 1 (2 ^ 64 - 2) true false =
    .ok ([([2], ()), ([3], ())], { nextKey := [], total := 3 }) := by decide

end Panacea.C13
