import Panacea.Lemmas.Tx
/-!
# C15 — Custom-module transactions move no coins except the fee, charged to the payer

Over the transaction model `Tx.deliverTx` (stateless checks → ante → messages on a discardable branch).
Headline statements are for transactions without an explicit `AuthInfo.Fee.Payer` (`tx.payer = none`);
with one, the same theorems hold with that address as the payer (`feePayer`).
-/
namespace Panacea.C15
open Panacea CompKey Validate Tx

def bal (s : State) (a : Bytes) : Nat := ((s.accounts.get a).getD {}).balance

/-- A transaction that is rejected before or in the ante handler changes nothing at all. -/
theorem rejected_changes_nothing (e : Env) (s : State) (tx : Tx) (s' : State) (r : Result)
    (h : deliverTx e s tx = (s', r)) (hr : r = .rejectedStateless ∨ r = .rejectedAnte) : s' = s := by
  unfold deliverTx at h
  split at h
  · simp at h; exact h.1.symm
  · split at h
    · split at h
      · split at h
        · split at h
          · simp at h; rcases hr with hr | hr <;> simp [← h.2] at hr
          · simp at h; rcases hr with hr | hr <;> simp [← h.2] at hr
        · simp at h; exact h.1.symm
      · simp at h; exact h.1.symm
    · simp at h; exact h.1.symm

/-- **Atomicity.**  If any message of a transaction fails (at any position, inside or outside a `MsgExec`),
none of the transaction's messages has any effect on AOL, DID or PNFT state. -/
theorem tx_atomic (e : Env) (s : State) (tx : Tx) (s' : State) (r : Result)
    (h : deliverTx e s tx = (s', r)) (hr : r ≠ .ok) : s'.aol = s.aol ∧ s'.did = s.did ∧ s'.pnft = s.pnft := by
  unfold deliverTx at h
  split at h
  · simp at h; rw [← h.1]; exact ⟨rfl, rfl, rfl⟩
  · split at h
    · split at h
      · split at h
        · rename_i s1 hante
          obtain ⟨_, _, _, _, _, _, _, hs1⟩ := ante_ok hante
          split at h
          · simp at h; exact absurd h.2.symm hr
          · simp at h; rw [← h.1, hs1]; exact ⟨rfl, rfl, rfl⟩
        · simp at h; rw [← h.1]; exact ⟨rfl, rfl, rfl⟩
      · simp at h; rw [← h.1]; exact ⟨rfl, rfl, rfl⟩
    · simp at h; rw [← h.1]; exact ⟨rfl, rfl, rfl⟩

/-- **Only the fee moves, from the payer to the collector.**  For every transaction that passes the ante
handler (whether or not its messages then succeed): the fee collector gains exactly the fee, the fee
payer loses exactly the fee, every other account's balance is unchanged. -/
theorem only_fee_moves (e : Env) (s : State) (tx : Tx) (s' : State) (r : Result)
    (h : deliverTx e s tx = (s', r)) (hr : r = .ok ∨ r = .failedMsgs) :
    ∃ signers payer, txSigners e tx = .ok signers ∧ feePayer tx signers = some payer ∧
      s'.feeCollector = s.feeCollector + tx.fee ∧
      bal s' payer + tx.fee = bal s payer ∧
      ∀ a, a ≠ payer → bal s' a = bal s a := by
  unfold deliverTx at h
  split at h
  · simp at h; rcases hr with hr | hr <;> simp [← h.2] at hr
  · split at h
    · split at h
      · rename_i signers hsig
        split at h
        · rename_i s1 hante
          obtain ⟨payer, pacc, hfp, hget, hle, _, _, hs1⟩ := ante_ok hante
          have hb1 : ∀ a, bal s1 a = ((( s.accounts.set payer { pacc with balance := pacc.balance - tx.fee }).get a).getD {}).balance := by
            intro a; rw [hs1]; unfold bal; simp only; exact bumpSeqs_balance _ _ _
          have hfinal : s'.accounts = s1.accounts ∧ s'.feeCollector = s1.feeCollector := by
            split at h
            · rename_i s2 hrun
              simp at h
              obtain ⟨a, b, _⟩ := runMsgs_bank hrun
              rw [← h.1]; exact ⟨a, b⟩
            · simp at h; rw [← h.1]; exact ⟨rfl, rfl⟩
          refine ⟨signers, payer, hsig, hfp, ?_, ?_, ?_⟩
          · rw [hfinal.2, hs1]
          · have : bal s' payer = bal s1 payer := by unfold bal; rw [hfinal.1]
            rw [this, hb1, Map.get_set_eq]
            unfold bal; simp [hget]; omega
          · intro a ha
            have : bal s' a = bal s1 a := by unfold bal; rw [hfinal.1]
            rw [this, hb1, Map.get_set_ne _ _ _ _ ha]; rfl
        · simp at h; rcases hr with hr | hr <;> simp [← h.2] at hr
      · simp at h; rcases hr with hr | hr <;> simp [← h.2] at hr
    · simp at h; rcases hr with hr | hr <;> simp [← h.2] at hr

/-- The fee payer of a transaction without explicit payer is its first signer, i.e. the first
`GetSigners` address of its first message. -/
theorem fee_payer_is_first_signer (tx : Tx) (signers : List Bytes) (hp : tx.payer = none) :
    feePayer tx signers = signers.head? := by
  simp [feePayer, hp]

/-- For an add-record submitted with a named fee payer, `GetSigners` lists the fee payer first and the
writer second: in a single-message transaction the fee is therefore charged to the fee payer, never to the
writer. -/
theorem addRecord_fee_payer_first (e : Env) (t k v w o f : Bytes) (wa fa : Bytes) (hf : f ≠ [])
    (hw : e.codec.dec w = some wa) (hfa : e.codec.dec f = some fa) :
    txSigners e { msgs := [.plain (.aol (.addRecord t k v w o f))], sigs := [], fee := 0 } =
      .ok (dedup [fa, wa]) ∧ (dedup [fa, wa]).head? = some fa := by
  constructor
  · simp [txSigners, txSigners.go, msgSigners, innerSigners, aolSigners, hw, hfa, hf]
  · simp [dedup]

/-- Custom-module messages themselves (once the ante handler is done) never touch any balance, the fee
collector or the authz grants. -/
theorem custom_msgs_preserve_bank (e : Env) (s s' : State) (msgs : List AnyMsg) (h : runMsgs e s msgs = .ok s') :
    s'.accounts = s.accounts ∧ s'.feeCollector = s.feeCollector ∧ s'.grants = s.grants := runMsgs_bank h

end Panacea.C15
