import Panacea.Model.Validate
import Panacea.Model.Keystore
import Panacea.Model.Pnft
import Panacea.Lemmas.Aol
import Panacea.Lemmas.Did
import Panacea.Lemmas.CompKey
import Panacea.Properties.C07
/-!
# C17 — Totality: no message, query or key file makes the code panic

Every partial Go operation the models know about is an explicit `.panic` outcome (`MustEncode`, `GetSigners`
on an undecodable address, a nil document, `itr.Key()` on an exhausted iterator, slicing the derived key,
`cipher.NewCTR`), so "never panics" is a theorem about the model, not an artefact of Lean's totality.
The theorem is unbounded over sizes and values but covers only the panic sources that were modelled; an
unmodelled one is visible only to the correspondence streams, which run every entry point under
`recover()` on shape-exhaustive malformed inputs and require model and implementation to agree on
*panic / no panic* input by input.

About the code after the repairs of F2 (nil document), F3 (AOL queries with over-long topic names) and F4
(key files).  **Known finding F14** (SDK code, not repairable in this repository): `query.Paginate` with
`reverse = true` and a `key` that is the last key of the listing panics in `getIterator`; it is reachable
through `Topics`, `Writers` and `Denoms`.  `listing_panics_only_in_reverse_key_mode` is the exact boundary.
-/
namespace Panacea.C17
open Panacea CompKey Validate

theorem seq_not_panic (x y : Outcome Unit) (hx : x.isPanic = false) (hy : y.isPanic = false) :
    (x >>= fun _ => y).isPanic = false := by
  cases x <;> simp_all [bind, Outcome.bind, Outcome.isPanic]

theorem np_topic (t : Bytes) : (validateTopicName t).isPanic = false := by unfold validateTopicName; split <;> (try split) <;> rfl
theorem np_moniker (t : Bytes) : (validateMoniker t).isPanic = false := by unfold validateMoniker; split <;> (try split) <;> rfl
theorem np_desc (t : Bytes) : (validateDescription t).isPanic = false := by unfold validateDescription; split <;> rfl
theorem np_rkey (t : Bytes) : (validateRecordKey t).isPanic = false := by unfold validateRecordKey; split <;> rfl
theorem np_rval (t : Bytes) : (validateRecordValue t).isPanic = false := by unfold validateRecordValue; split <;> rfl
theorem np_addr (dec : Bytes → Option Bytes) (a : Bytes) : (validAddr dec a).isPanic = false := by unfold validAddr; split <;> rfl
theorem np_nonEmpty (b : Bytes) (w : String) : (nonEmpty b w).isPanic = false := by unfold nonEmpty; split <;> rfl
theorem np_noNul (b : Bytes) : (noNul b).isPanic = false := by unfold noNul; split <;> rfl
theorem np_pnftAddr (dec : Bytes → Option Bytes) (a : Bytes) : (pnftAddr dec a).isPanic = false := by unfold pnftAddr; split <;> rfl

/-- Stateless validation of every AOL and PNFT message returns a result or an error, for every field value. -/
theorem validateBasic_never_panics (dec : Bytes → Option Bytes) :
    (∀ m : Aol.Msg, (aolValidateBasic dec m).isPanic = false) ∧
    (∀ m : PnftMsg, (pnftValidateBasic dec m).isPanic = false) := by
  constructor
  · intro m
    cases m <;> simp only [aolValidateBasic] <;>
      repeat (first | apply seq_not_panic | apply np_topic | apply np_moniker | apply np_desc | apply np_rkey
                    | apply np_rval | apply np_addr | (split <;> first | apply np_addr | rfl))
  · intro m
    cases m <;> simp only [pnftValidateBasic] <;>
      repeat (first | apply seq_not_panic | apply np_nonEmpty | apply np_noNul | apply np_pnftAddr)

/-- … and of every DID message, including an absent document. -/
theorem did_validateBasic_never_panics (dec : Bytes → Option Bytes) (m : Did.Msg) :
    (Did.validateBasic dec m).isPanic = false := by
  cases m with
  | create did doc db vm sig fr | update did doc db vm sig fr =>
    simp only [Did.validateBasic]
    split
    · rfl
    · cases doc with
      | none => rfl
      | some d => simp only; repeat (first | rfl | split)
  | deactivate did vm sig fr =>
    simp only [Did.validateBasic]; repeat (first | rfl | split)

/-- After a successful validation, signer extraction does not panic (for all 14 messages). -/
theorem signers_after_validation_never_panic (dec : Bytes → Option Bytes) :
    (∀ m : Aol.Msg, aolValidateBasic dec m = .ok () → (aolSigners dec m).isPanic = false) ∧
    (∀ m : PnftMsg, pnftValidateBasic dec m = .ok () → (pnftSigners dec m).isPanic = false) ∧
    (∀ m : Did.Msg, Did.validateBasic dec m = .ok () → (didSigners dec m).isPanic = false) := by
  have seq : ∀ (x y : Outcome Unit), (x >>= fun _ => y) = .ok () → x = .ok () ∧ y = .ok () := by
    intro x y h; cases x <;> simp [bind, Outcome.bind] at h ⊢; exact h
  have va : ∀ a, validAddr dec a = .ok () → ∃ b, dec a = some b := by
    intro a h; unfold validAddr at h; cases hd : dec a <;> simp [hd] at h ⊢
  have pa : ∀ a, pnftAddr dec a = .ok () → ∃ b, dec a = some b := by
    intro a h; unfold pnftAddr at h; cases hd : dec a <;> simp [hd] at h ⊢
  refine ⟨?_, ?_, ?_⟩
  · intro m h
    cases m with
    | createTopic t d o =>
      simp only [aolValidateBasic] at h
      obtain ⟨b, hb⟩ := va o (seq _ _ (seq _ _ h).2).2
      simp [aolSigners, hb, Outcome.isPanic]
    | addWriter t mo d w o =>
      simp only [aolValidateBasic] at h
      obtain ⟨b, hb⟩ := va o (seq _ _ (seq _ _ (seq _ _ (seq _ _ h).2).2).2).2
      simp [aolSigners, hb, Outcome.isPanic]
    | deleteWriter t w o =>
      simp only [aolValidateBasic] at h
      obtain ⟨b, hb⟩ := va o (seq _ _ (seq _ _ h).2).2
      simp [aolSigners, hb, Outcome.isPanic]
    | addRecord t k v w o f =>
      simp only [aolValidateBasic] at h
      have h5 := (seq _ _ (seq _ _ (seq _ _ h).2).2).2
      obtain ⟨b, hb⟩ := va w (seq _ _ h5).1
      have h6 := (seq _ _ (seq _ _ h5).2).2
      by_cases hf : f = []
      · simp [aolSigners, hb, hf, Outcome.isPanic]
      · simp only [hf, ne_eq, not_false_eq_true, if_true] at h6
        obtain ⟨c, hc⟩ := va f h6
        simp [aolSigners, hb, hf, hc, Outcome.isPanic]
  · intro m h
    cases m <;> simp only [pnftValidateBasic] at h
    · obtain ⟨b, hb⟩ := pa _ (seq _ _ (seq _ _ (seq _ _ (seq _ _ (seq _ _ h).2).2).2).2).2
      simp [pnftSigners, hb, Outcome.isPanic]
    · obtain ⟨b, hb⟩ := pa _ (seq _ _ (seq _ _ h).2).2
      simp [pnftSigners, hb, Outcome.isPanic]
    · obtain ⟨b, hb⟩ := pa _ (seq _ _ (seq _ _ h).2).2
      simp [pnftSigners, hb, Outcome.isPanic]
    · obtain ⟨b, hb⟩ := pa _ (seq _ _ (seq _ _ (seq _ _ h).2).2).1
      simp [pnftSigners, hb, Outcome.isPanic]
    · obtain ⟨b, hb⟩ := pa _ (seq _ _ (seq _ _ (seq _ _ (seq _ _ (seq _ _ (seq _ _ h).2).2).2).2).2).2
      simp [pnftSigners, hb, Outcome.isPanic]
    · obtain ⟨b, hb⟩ := pa _ (seq _ _ (seq _ _ (seq _ _ (seq _ _ h).2).2).2).1
      simp [pnftSigners, hb, Outcome.isPanic]
    · obtain ⟨b, hb⟩ := pa _ (seq _ _ (seq _ _ (seq _ _ h).2).2).2
      simp [pnftSigners, hb, Outcome.isPanic]
  · intro m h
    cases m with
    | create did doc db vm sig fr =>
      simp only [Did.validateBasic] at h
      obtain ⟨_, _, _, _, _, _, hs⟩ := Did.validateBasic_doc_ok h
      cases hd : dec fr <;> simp [hd] at hs; simp [didSigners, hd, Outcome.isPanic]
    | update did doc db vm sig fr =>
      simp only [Did.validateBasic] at h
      obtain ⟨_, _, _, _, _, _, hs⟩ := Did.validateBasic_doc_ok h
      cases hd : dec fr <;> simp [hd] at hs; simp [didSigners, hd, Outcome.isPanic]
    | deactivate did vm sig fr =>
      simp only [Did.validateBasic] at h
      cases hd : dec fr with
      | none => simp [hd] at h; split at h <;> (try split at h) <;> simp at h
      | some b => simp [didSigners, hd, Outcome.isPanic]

/-- The DID pipeline (validation, then handler) never panics, in any state, for any message. -/
theorem did_deliver_never_panics (dec : Bytes → Option Bytes) (cr : Did.Crypto) (s : Did.State)
    (hw : ∀ did d, s.get did = some d → d.doc ≠ none) (m : Did.Msg) :
    (Did.deliver dec cr s m).isPanic = false := by
  unfold Did.deliver
  cases hv : Did.validateBasic dec m with
  | err e => rfl
  | panic e => have := did_validateBasic_never_panics dec m; simp [hv, Outcome.isPanic] at this
  | ok u =>
    simp only [bind, Outcome.bind]
    -- the stored entry either is absent (zero value) or carries a document
    have hcur : ∀ did, (Did.getDoc s did).isEmpty = false → ∃ d, (Did.getDoc s did).doc = some d := by
      intro did hne
      unfold Did.getDoc at hne ⊢
      cases hg : s.get did with
      | none => simp [hg, Did.DocWithSeq.isEmpty] at hne
      | some x =>
        simp only [hg, Option.getD_some]
        cases hx : x.doc with
        | none => exact absurd hx (hw did x hg)
        | some d => exact ⟨d, rfl⟩
    have hver : ∀ sd seq d vm sig, (Did.verifyOwnership cr sd seq d vm sig).isPanic = false := by
      intro sd seq d vm sig
      unfold Did.verifyOwnership
      cases Did.vmFrom d d.auths vm with
      | none => rfl
      | some v =>
        simp only
        split
        · rfl
        · split
          · rfl
          · split
            · split <;> rfl
            · rfl
    cases m with
    | create did doc db vm sig fr =>
      simp only [Did.validateBasic] at hv
      obtain ⟨d, rfl, _⟩ := Did.validateBasic_doc_ok hv
      simp only [Did.handle, bind, Outcome.bind]
      by_cases he : (Did.getDoc s did).isEmpty = true
      · simp only [he, Bool.not_true, Bool.false_eq_true, if_false]
        have := hver db 0 d vm sig
        generalize Did.verifyOwnership cr db 0 d vm sig = o at this ⊢
        cases o <;> first | (simp [Outcome.isPanic] at this; done) | (split <;> rfl) | rfl
      · simp only [he, Bool.not_false, if_true]
        obtain ⟨d0, hd0⟩ := hcur did (by simpa using he)
        simp only [Did.DocWithSeq.deactivated, hd0]
        split <;> rfl
    | update did doc db vm sig fr =>
      simp only [Did.handle, bind, Outcome.bind]
      by_cases he : (Did.getDoc s did).isEmpty = true
      · simp [he, Outcome.isPanic]
      · simp only [he, if_false]
        obtain ⟨d0, hd0⟩ := hcur did (by simpa using he)
        simp only [Did.DocWithSeq.deactivated, hd0]
        split
        · rfl
        · have := hver db (Did.getDoc s did).seq d0 vm sig
          generalize Did.verifyOwnership cr db (Did.getDoc s did).seq d0 vm sig = o at this ⊢
          cases o <;> first | (simp [Outcome.isPanic] at this; done) | (split <;> rfl) | rfl
    | deactivate did vm sig fr =>
      simp only [Did.handle, bind, Outcome.bind]
      by_cases he : (Did.getDoc s did).isEmpty = true
      · simp [he, Outcome.isPanic]
      · simp only [he, if_false]
        obtain ⟨d0, hd0⟩ := hcur did (by simpa using he)
        simp only [Did.DocWithSeq.deactivated, hd0]
        split
        · rfl
        · have := hver (Did.marshalIdOnly did) (Did.getDoc s did).seq d0 vm sig
          generalize Did.verifyOwnership cr (Did.marshalIdOnly did) (Did.getDoc s did).seq d0 vm sig = o at this ⊢
          cases o <;> first | (simp [Outcome.isPanic] at this; done) | (split <;> rfl) | rfl

/-- The PNFT message server never panics (it re-validates and has no partial operation). -/
theorem pnft_handle_never_panics (c : AddrCodec) (now : Int) (s : Pnft.State) (m : PnftMsg) :
    (Pnft.handle c now s m).isPanic = false := by
  unfold Pnft.handle
  simp only [bind, Outcome.bind, Pnft.validateBasic]
  have := (validateBasic_never_panics c.dec).2 m
  cases hv : pnftValidateBasic c.dec m with
  | err e => rfl
  | panic e => simp [hv, Outcome.isPanic] at this
  | ok u =>
    simp only [pure]
    cases m <;> simp only <;> repeat (first | rfl | split)

/-- Key-store files: `decryptKey` returns a key or an error for every file and password. -/
theorem decryptKey_never_panics (k : Keystore.KeyFile) : (Keystore.decryptKey k).isPanic = false := by
  unfold Keystore.decryptKey
  by_cases h1 : k.version ≠ 3
  · simp [h1, Outcome.isPanic]
  by_cases h2 : k.cipher ≠ Keystore.cipherAlgorithm
  · simp [h1, h2, Outcome.isPanic]
  by_cases h3 : k.kdf ≠ Keystore.kdfName
  · simp [h1, h2, h3, Outcome.isPanic]
  by_cases h4 : k.prf ≠ Keystore.prfName
  · simp [h1, h2, h3, h4, Outcome.isPanic]
  by_cases h9 : k.dklen < 32 ∨ k.dklen > Keystore.maxDKLen
  · simp only [h1, h2, h3, h4, h9, if_true, if_false]
    repeat (first | rfl | split)
  · have h10 : ¬ (k.dklen ≥ Keystore.allocLimit) := by
      unfold Keystore.maxDKLen at h9; unfold Keystore.allocLimit; omega
    by_cases h11 : k.c > Keystore.maxIter
    · simp only [h1, h2, h3, h4, h9, h11, if_true, if_false]
      repeat (first | rfl | split)
    · have h12 : ¬ (k.c ≥ Keystore.iterLimit) := by
        unfold Keystore.maxIter at h11; unfold Keystore.iterLimit; omega
      simp only [h1, h2, h3, h4, h9, h10, h11, h12, if_false]
      repeat (first | rfl | split)

/-- the unrepaired function did panic: negative or short `dklen`, IV of the wrong size (F4) -/
def f4Witness : Keystore.KeyFile :=
  { version := 3
    cipher := Keystore.cipherAlgorithm
    kdf := Keystore.kdfName
    prf := Keystore.prfName
    macHexOK := true
    ivHexOK := true
    ctHexOK := true
    saltHexOK := true
    c := 1
    dklen := 16
    ivLen := 16
    macOK := true }

example : (Keystore.decryptKeyOld f4Witness).isPanic = true := by decide
example : (Keystore.decryptKey f4Witness).isPanic = false := by decide

/-- before the repair of F22 an oversized `dklen` aborted the process (the length is allocated before the MAC is
checked, so any file and any password do) -/
example : (Keystore.decryptKeyF4 { f4Witness with dklen := 2 ^ 62 }).isPanic = true := by decide
example : (Keystore.decryptKey { f4Witness with dklen := 2 ^ 62 }).isPanic = false := by decide

/-- before the repair of F29 an oversized iteration count kept `Load` from returning (the key derivation runs before
the MAC is checked, so any file and any password do) -/
example : (Keystore.decryptKeyF22 { f4Witness with dklen := 32, c := 2 ^ 62 }).isPanic = true := by decide
example : (Keystore.decryptKey { f4Witness with dklen := 32, c := 2 ^ 62 }).isPanic = false := by decide

/-- AOL single-item queries never panic (the key is encoded with `Encode`, F3). -/
theorem aol_item_queries_never_panic (c : AddrCodec) (s : Aol.State) (o t w : Bytes) (n : Nat) :
    (Aol.queryRecord c s o t n).isPanic = false ∧ (Aol.queryTopic c s o t).isPanic = false ∧
    (Aol.queryWriter c s o t w).isPanic = false := by
  have enc : ∀ comps, (Aol.encodeQ comps).isPanic = false := by
    intro comps; unfold Aol.encodeQ; cases encode comps <;> rfl
  refine ⟨?_, ?_, ?_⟩
  · simp only [Aol.queryRecord, bind, Outcome.bind, Aol.decAddr]
    cases c.dec o with
    | none => rfl
    | some oa =>
      simp only
      have := enc [oa, t, be64 n]
      generalize Aol.encodeQ [oa, t, be64 n] = e at this ⊢
      cases e <;> first | (simp [Outcome.isPanic] at this; done) | (simp only; split <;> rfl) | rfl
  · simp only [Aol.queryTopic, bind, Outcome.bind, Aol.decAddr]
    cases c.dec o with
    | none => rfl
    | some oa =>
      simp only
      have := enc [oa, t]
      generalize Aol.encodeQ [oa, t] = e at this ⊢
      cases e <;> first | (simp [Outcome.isPanic] at this; done) | (simp only; split <;> rfl) | rfl
  · simp only [Aol.queryWriter, bind, Outcome.bind, Aol.decAddr]
    cases c.dec o with
    | none => rfl
    | some oa =>
      simp only
      cases c.dec w with
      | none => rfl
      | some wa =>
        simp only
        have := enc [oa, t, wa]
        generalize Aol.encodeQ [oa, t, wa] = e at this ⊢
        cases e <;> first | (simp [Outcome.isPanic] at this; done) | (simp only; split <;> rfl) | rfl

/-- `query.Paginate` can panic only in reverse key mode (F14): forward requests, and reverse requests
without a key, never do. -/
theorem paginate_panics_only_in_reverse_key_mode {V} (items : List (Bytes × V)) (req : Paginate.PageRequest)
    (h : (Paginate.paginate items req).isPanic = true) : req.reverse = true ∧ req.key ≠ [] := by
  unfold Paginate.paginate at h
  by_cases h1 : req.offset > 0 ∧ req.key ≠ []
  · simp [h1, Outcome.isPanic] at h
  · simp only [h1, if_false] at h
    by_cases h2 : req.key ≠ []
    · rw [if_pos h2] at h
      refine ⟨?_, h2⟩
      cases hr : req.reverse with
      | true => rfl
      | false =>
        simp only [Paginate.pageByKey, Paginate.iterFrom, hr, Bool.not_false, if_true] at h
        simp [Outcome.isPanic] at h
    · rw [if_neg h2] at h
      have hk : req.key = [] := by simpa using h2
      simp only [Paginate.pageByOffset, Paginate.iterFrom] at h
      cases hr : req.reverse <;> simp [hr, Outcome.isPanic] at h

/-- the F14 witness in the model: three entries, reverse, key = the last key -/
example : (Paginate.paginate [([1], 0), ([2], 0), ([3], 0)] { key := [3], limit := 1, reverse := true }).isPanic = true := by
  decide

end Panacea.C17

namespace Panacea.C17
open Panacea CompKey Validate

theorem mustEncode_ok (comps : List Bytes) (h : ∀ v ∈ comps, v.length ≤ 255) : ∃ b, Aol.mustEncode comps = .ok b := by
  have := (encode_isSome_iff comps).mpr h
  unfold Aol.mustEncode
  cases he : encode comps with
  | none => simp [he] at this
  | some b => exact ⟨b, rfl⟩

theorem addr_len {a : Bytes} (h : addrOk a = true) : a.length ≤ 255 := by
  simp [addrOk] at h; exact h.2

theorem topic_len {t : Bytes} (h : validateTopicName t = .ok ()) : t.length ≤ 255 := by
  unfold validateTopicName maxTopicLength at h
  by_cases h1 : t.length > 70
  · simp [h1] at h
  · omega

/-- The AOL message server never panics on a message that passed stateless validation (every key it
builds has components of at most 255 bytes: decoded addresses, a validated topic name, an 8-byte offset). -/
theorem aol_handle_never_panics_after_validation (c : AddrCodec) (hc : ∀ s a, c.dec s = some a → addrOk a = true)
    (now : Int) (st : Aol.State) (m : Aol.Msg) (hv : aolValidateBasic c.dec m = .ok ()) :
    (Aol.handle c now st m).isPanic = false := by
  have seq : ∀ (x y : Outcome Unit), (x >>= fun _ => y) = .ok () → x = .ok () ∧ y = .ok () := by
    intro x y h; cases x <;> simp [bind, Outcome.bind] at h ⊢; exact h
  cases m with
  | createTopic t d o =>
    simp only [aolValidateBasic] at hv
    have ht := topic_len (seq _ _ hv).1
    simp only [Aol.handle, bind, Outcome.bind, Aol.decAddr, Aol.topicKey, Aol.ownerKey, pure]
    cases ho : c.dec o with
    | none => rfl
    | some oa =>
      have hoa := addr_len (hc o oa ho)
      obtain ⟨tk, htk⟩ := mustEncode_ok [oa, t] (by intro v hv; simp at hv; rcases hv with rfl | rfl <;> assumption)
      obtain ⟨ok, hok⟩ := mustEncode_ok [oa] (by intro v hv; simp at hv; subst hv; assumption)
      simp only [htk, hok]
      split <;> rfl
  | addWriter t mo d w o =>
    simp only [aolValidateBasic] at hv
    have ht := topic_len (seq _ _ hv).1
    simp only [Aol.handle, bind, Outcome.bind, Aol.decAddr, Aol.topicKey, Aol.writerKey, pure]
    cases ho : c.dec o with
    | none => rfl
    | some oa =>
      cases hw : c.dec w with
      | none => rfl
      | some wa =>
        have hoa := addr_len (hc o oa ho)
        have hwa := addr_len (hc w wa hw)
        obtain ⟨tk, htk⟩ := mustEncode_ok [oa, t] (by intro v hv; simp at hv; rcases hv with rfl | rfl <;> assumption)
        obtain ⟨wk, hwk⟩ := mustEncode_ok [oa, t, wa] (by intro v hv; simp at hv; rcases hv with rfl | rfl | rfl <;> assumption)
        simp only [htk, hwk]
        split
        · rfl
        · split <;> rfl
  | deleteWriter t w o =>
    simp only [aolValidateBasic] at hv
    have ht := topic_len (seq _ _ hv).1
    simp only [Aol.handle, bind, Outcome.bind, Aol.decAddr, Aol.topicKey, Aol.writerKey, pure]
    cases ho : c.dec o with
    | none => rfl
    | some oa =>
      cases hw : c.dec w with
      | none => rfl
      | some wa =>
        have hoa := addr_len (hc o oa ho)
        have hwa := addr_len (hc w wa hw)
        obtain ⟨tk, htk⟩ := mustEncode_ok [oa, t] (by intro v hv; simp at hv; rcases hv with rfl | rfl <;> assumption)
        obtain ⟨wk, hwk⟩ := mustEncode_ok [oa, t, wa] (by intro v hv; simp at hv; rcases hv with rfl | rfl | rfl <;> assumption)
        simp only [hwk, htk]
        split <;> rfl
  | addRecord t k v w o f =>
    simp only [aolValidateBasic] at hv
    have ht := topic_len (seq _ _ hv).1
    simp only [Aol.handle, bind, Outcome.bind, Aol.decAddr, Aol.topicKey, Aol.writerKey, Aol.recordKey, pure]
    cases ho : c.dec o with
    | none => rfl
    | some oa =>
      cases hw : c.dec w with
      | none => rfl
      | some wa =>
        have hoa := addr_len (hc o oa ho)
        have hwa := addr_len (hc w wa hw)
        obtain ⟨tk, htk⟩ := mustEncode_ok [oa, t] (by intro v hv; simp at hv; rcases hv with rfl | rfl <;> assumption)
        obtain ⟨wk, hwk⟩ := mustEncode_ok [oa, t, wa] (by intro v hv; simp at hv; rcases hv with rfl | rfl | rfl <;> assumption)
        simp only [htk, hwk]
        split
        · rfl
        · split
          · rfl
          · obtain ⟨rk, hrk⟩ := mustEncode_ok [oa, t, be64 ((st.topics.get tk).getD {}).totalRecords]
              (by intro v hv; simp at hv; rcases hv with rfl | rfl | rfl <;> first | assumption | simp [be64])
            simp only [hrk]; rfl

end Panacea.C17
