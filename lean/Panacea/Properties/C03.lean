import Panacea.Lemmas.DidHist
/-!
# C03 — DID control: only a holder of a current authentication key changes a DID

`deliver` is the pipeline a DID message goes through (stateless validation, then the handler).
`Proven cr data seq stored vmID sig vm` says: `vmID` resolves, *through the `authentication` list of
`stored` only*, to the method `vm`; `vm` is one of the two secp256k1 types with a 33-byte key; and
`sig` verifies under that key over `DataWithSeq{data, seq}`.  Signature verification itself is the
parameter `cr`.

`data` is the *rendering* of the document that the code signs (its sorted JSON).  "Over the new content" in
the theorems therefore means: over that rendering.  The rendering is injective on documents whose strings
are valid UTF-8, and **not** otherwise — **known finding F18**: two documents that differ only in a byte
that is not valid UTF-8 share it, and the real chain accepts a proof made over one for the other
(`mon.c03.utf8` in the `did` stream).
-/
namespace Panacea.C03
open Panacea Did

/-- A document is replaced only with a proof by a current authentication key over the new content and
the current sequence. -/
theorem update_requires_current_auth_proof (da : Bytes → Option Bytes) (cr : Crypto) (s s' : State)
    (did : Bytes) (doc : Option Doc) (db vmID sig fr : Bytes)
    (h : deliver da cr s (.update did doc db vmID sig fr) = .ok s') :
    ∃ stored vm, (getDoc s did).doc = some stored ∧ stored.empty = false ∧
      Proven cr db (getDoc s did).seq stored vmID sig vm := by
  obtain ⟨_, stored, vm, _, _, _, _, _, hst, hne, hp, _⟩ := update_ok h
  exact ⟨stored, vm, hst, hne, hp⟩

/-- A DID is deactivated only with such a proof over the DID itself and the current sequence. -/
theorem deactivate_requires_current_auth_proof (da : Bytes → Option Bytes) (cr : Crypto) (s s' : State)
    (did vmID sig fr : Bytes) (h : deliver da cr s (.deactivate did vmID sig fr) = .ok s') :
    ∃ stored vm, (getDoc s did).doc = some stored ∧ stored.empty = false ∧
      Proven cr (marshalIdOnly did) (getDoc s did).seq stored vmID sig vm := by
  obtain ⟨stored, vm, _, _, hst, hne, hp, _⟩ := deactivate_ok h
  exact ⟨stored, vm, hst, hne, hp⟩

/-- A DID is created only with a proof by a key listed under authentication *in the submitted document*,
over that document and sequence 0. -/
theorem create_requires_self_auth_proof (da : Bytes → Option Bytes) (cr : Crypto) (s s' : State)
    (did : Bytes) (doc : Option Doc) (db vmID sig fr : Bytes)
    (h : deliver da cr s (.create did doc db vmID sig fr) = .ok s') :
    ∃ d vm, doc = some d ∧ Proven cr db 0 d vmID sig vm := by
  obtain ⟨d, vm, hd, _, _, _, _, _, hp, _⟩ := create_ok h
  exact ⟨d, vm, hd, hp⟩

/-- The resolved method really is named by the authentication list: either a dedicated method with that
id, or a reference with that id to a listed verification method.  A key that appears only under another
relationship, or only as a verification method, is never resolved. -/
theorem proof_key_is_listed_under_authentication (cr : Crypto) (data : Bytes) (seq : Nat) (stored : Doc)
    (vmID sig : Bytes) (vm : VM) (h : Proven cr data seq stored vmID sig vm) :
    (Rel.dedicated vm ∈ stored.auths ∧ vm.id = vmID) ∨
    (Rel.ref vmID ∈ stored.auths ∧ vmByID stored.vms vmID = some vm) :=
  vmFrom_some h.resolved

/-- If no authentication entry carries the given method id, every update and deactivation using that
id is rejected — whatever other relationships or verification methods list the key. -/
theorem not_under_authentication_rejected (da : Bytes → Option Bytes) (cr : Crypto) (s : State)
    (did : Bytes) (doc : Option Doc) (db vmID sig fr : Bytes) (stored : Doc)
    (hst : (getDoc s did).doc = some stored)
    (hno : ∀ r ∈ stored.auths, r ≠ Rel.ref vmID ∧ ∀ vm, r = Rel.dedicated vm → vm.id ≠ vmID) :
    (deliver da cr s (.update did doc db vmID sig fr)).isOk = false ∧
    (deliver da cr s (.deactivate did vmID sig fr)).isOk = false := by
  constructor
  · cases h : deliver da cr s (.update did doc db vmID sig fr) with
    | ok s' =>
      obtain ⟨stored', vm, hst', _, hp⟩ := update_requires_current_auth_proof da cr s s' did doc db vmID sig fr h
      rw [hst] at hst'; cases hst'
      rcases vmFrom_some hp.resolved with ⟨hm, hid⟩ | ⟨hm, _⟩
      · exact absurd hid ((hno _ hm).2 vm rfl)
      · exact absurd rfl (hno _ hm).1
    | err e => rfl
    | panic e => rfl
  · cases h : deliver da cr s (.deactivate did vmID sig fr) with
    | ok s' =>
      obtain ⟨stored', vm, hst', _, hp⟩ := deactivate_requires_current_auth_proof da cr s s' did vmID sig fr h
      rw [hst] at hst'; cases hst'
      rcases vmFrom_some hp.resolved with ⟨hm, hid⟩ | ⟨hm, _⟩
      · exact absurd hid ((hno _ hm).2 vm rfl)
      · exact absurd rfl (hno _ hm).1
    | err e => rfl
    | panic e => rfl

/-- The paying/signing account confers no rights: the outcome of a DID message does not depend on
`from_address` (as long as it is a well-formed address at all). -/
theorem from_address_irrelevant (da : Bytes → Option Bytes) (cr : Crypto) (s : State)
    (did : Bytes) (doc : Option Doc) (db vmID sig fr fr' : Bytes)
    (h1 : (da fr).isSome = true) (h2 : (da fr').isSome = true) :
    deliver da cr s (.create did doc db vmID sig fr) = deliver da cr s (.create did doc db vmID sig fr') ∧
    deliver da cr s (.update did doc db vmID sig fr) = deliver da cr s (.update did doc db vmID sig fr') ∧
    deliver da cr s (.deactivate did vmID sig fr) = deliver da cr s (.deactivate did vmID sig fr') := by
  have e1 : (da fr).isNone = false := by cases hx : da fr <;> simp [hx] at h1 ⊢
  have e2 : (da fr').isNone = false := by cases hx : da fr' <;> simp [hx] at h2 ⊢
  refine ⟨?_, ?_, ?_⟩ <;> simp only [deliver, validateBasic, handle, e1, e2]

/-- Any message that is not accepted leaves every stored document and sequence untouched. -/
theorem rejected_is_noop (da : Bytes → Option Bytes) (cr : Crypto) (s : State) (m : Msg)
    (h : (deliver da cr s m).isOk = false) : step da cr s m = s := by
  unfold step
  cases hd : deliver da cr s m with
  | ok s' => simp [hd, Outcome.isOk] at h
  | err e => rfl
  | panic e => rfl

/-- An accepted message touches the entry of its own DID only. -/
theorem other_dids_untouched (da : Bytes → Option Bytes) (cr : Crypto) (s : State) (m : Msg) (did : Bytes)
    (h : did ≠ (match m with | .create d _ _ _ _ _ => d | .update d _ _ _ _ _ => d | .deactivate d _ _ _ => d)) :
    (step da cr s m).get did = s.get did := by
  unfold step
  cases hd : deliver da cr s m with
  | ok s' =>
    cases m with
    | create d0 doc db vmID sig fr =>
      obtain ⟨_, _, _, _, _, _, _, _, _, rfl⟩ := create_ok hd
      exact Map.get_set_ne _ _ _ _ h
    | update d0 doc db vmID sig fr =>
      obtain ⟨_, _, _, _, _, _, _, _, _, _, _, rfl⟩ := update_ok hd
      exact Map.get_set_ne _ _ _ _ h
    | deactivate d0 vmID sig fr =>
      obtain ⟨_, _, _, _, _, _, _, rfl⟩ := deactivate_ok hd
      exact Map.get_set_ne _ _ _ _ h
  | err e => rfl
  | panic e => rfl

/-! ## Non-vacuity -/

/-- ideal signatures for the examples: the signature *is* the (key, message) pair -/
def idealCrypto : Crypto := { verify := fun pk m sig => sig = pk ++ m }

example : b58Decode [0x31, 0x31] = [0, 0] := by decide
example : validateVMID [0x64, 0x69, 0x64, 0x3a, 0x78, 0x23, 0x6b, 0x20, 0x31] [0x64, 0x69, 0x64, 0x3a, 0x78] = false := by decide
example : validateVMID [0x64, 0x69, 0x64, 0x3a, 0x78, 0x23, 0x6b, 0x31] [0x64, 0x69, 0x64, 0x3a, 0x78] = true := by decide

end Panacea.C03
