import Panacea.Model.Bytes
import Panacea.Model.Outcome
/-! Line-protocol helpers shared by all driver modules. -/
namespace Panacea.Driver

def showBytes (b : Bytes) : String := if b.isEmpty then "-" else b.toHex

def showList (l : List Bytes) : String :=
  if l.isEmpty then "~" else ",".intercalate (l.map showBytes)

def parseList (s : String) : Option (List Bytes) :=
  if s = "~" then some [] else (s.splitOn ",").mapM Bytes.ofHex

/-- The address table the harness supplies (`addr <text> <bytes|invalid>`): real bech32 runs on the Go
side only; the model sees a finite codec. -/
structure AddrTable where
  entries : List (Bytes × Option Bytes) := []

def AddrTable.add (t : AddrTable) (text : Bytes) (v : Option Bytes) : AddrTable :=
  if t.entries.any (fun e => e.1 == text) then t else { entries := (text, v) :: t.entries }

def AddrTable.dec (t : AddrTable) (text : Bytes) : Option Bytes :=
  match t.entries.find? (fun e => e.1 == text) with
  | some (_, v) => v
  | none => none

def AddrTable.known (t : AddrTable) (text : Bytes) : Bool := t.entries.any (fun e => e.1 == text)

/-- Canonical text of an address (the first registered text that decodes to it and is lower-case is
what the harness registers first for `String()` results). -/
def AddrTable.enc (t : AddrTable) (a : Bytes) : Bytes :=
  match t.entries.reverse.find? (fun e => e.2 == some a) with
  | some (s, _) => s
  | none => str "?unknown-address?"

end Panacea.Driver
