import Panacea.Model.Bank
import Panacea.Driver.Proto
namespace Panacea.Driver
open Panacea Bank

structure BankD where
  st : Bank.State := { bal := fun _ _ => 0, locked := fun _ _ => 0, supply := fun _ => 0, denoms := [] }
  burn : Bytes := []
  module : Bytes := []
  tracked : List (Bytes × Bytes) := []     -- (addr, denom) in print order
  supply0 : Nat := 10000000000000000000000000000000000000000           -- model supply baseline (only deltas are printed)

def kvs (toks : List String) : List (String × String) :=
  toks.filterMap fun t => match t.splitOn "=" with | [k, v] => some (k, v) | _ => none

def bankStep (d : BankD) : List String → Option (BankD × String)
  | "bank.genesis" :: rest => do
      let m := kvs rest
      let burn ← (m.lookup "burn").bind Bytes.ofHex
      let module ← (m.lookup "module").bind Bytes.ofHex
      let denoms ← (m.lookup "denoms").bind parseList
      let bals ← ((← m.lookup "bals").splitOn ",").mapM fun e =>
        match e.splitOn ":" with
        | [a, dn, n] => do pure ((← Bytes.ofHex a), (← Bytes.ofHex dn), (← n.toNat?))
        | _ => none
      let st : Bank.State := {
        bal := fun a dn => match bals.find? (fun e => e.1 == a && e.2.1 == dn) with | some e => e.2.2 | none => 0,
        locked := fun _ _ => 0, supply := fun _ => 10000000000000000000000000000000000000000, denoms := denoms }
      pure ({ st := st, burn := burn, module := module, tracked := bals.map fun e => (e.1, e.2.1) }, "-")
  | ["bank.send", a, b, dn, n] => do
      let a ← Bytes.ofHex a; let b ← Bytes.ofHex b; let dn ← Bytes.ofHex dn; let n ← n.toNat?
      match sendCoins d.st a b [(dn, n)] with
      | (s1, true) => pure ({ d with st := s1 }, "ok")
      | (_, false) => pure (d, "err")      -- the harness runs sends on a discardable branch
  | ["bank.vest", a, b, dn, n] => do
      let a ← Bytes.ofHex a; let b ← Bytes.ofHex b; let dn ← Bytes.ofHex dn; let n ← n.toNat?
      match sendCoins d.st a b [(dn, n)] with
      | (s1, true) =>
        pure ({ d with st := { s1 with locked := fun a' d' => if a' = b ∧ d' = dn then s1.locked a' d' + n else s1.locked a' d' } }, "-")
      | (_, false) => pure (d, "-")
  | ["endblock"] => some ({ d with st := burnEndBlock d.st d.burn d.module }, "ok")
  | ["bank.state"] =>
      let bals := ",".intercalate (d.tracked.map fun e => toString (d.st.bal e.1 e.2))
      let sp := ",".intercalate (d.st.denoms.map fun dn => toString (spendable d.st d.burn dn))
      let bu := ",".intercalate (d.st.denoms.map fun dn => toString (10000000000000000000000000000000000000000 - d.st.supply dn))
      some (d, "ok bals=" ++ bals ++ " burnSpendable=" ++ sp ++ " burned=" ++ bu)
  | ["mon.c07.inv"] => some (d, "pass")     -- the model has no way to lose coins: `Properties/C07`
  | _ => none

end Panacea.Driver
