import Panacea.Model.Did
import Panacea.Driver.Proto
import Panacea.Driver.Aol
namespace Panacea.Driver
open Panacea Did

/-- table of (signature, public key, message) triples the Go side produced with real keys -/
structure SigTable where
  entries : List (Bytes × Bytes × Bytes) := []

def SigTable.crypto (t : SigTable) : Crypto :=
  { verify := fun pk m sig => t.entries.any (fun e => e.1 == sig && e.2.1 == pk && e.2.2 == m) }

structure DidD where
  st : Did.State := []
  saved : Option Did.State := none   -- the state at `did.begin` (a branch that will be discarded)

def parseOptList (s : String) : Option (Option (List Bytes)) :=
  if s = "^" then some none else (parseList s).map some

def parseVM (s : String) : Option VM :=
  match s.splitOn "," with
  | [a, b, c, d] => do
    pure { id := ← Bytes.ofHex a, type := ← Bytes.ofHex b, controller := ← Bytes.ofHex c, pubKeyB58 := ← Bytes.ofHex d }
  | _ => none

def parseSepList {α} (sep : String) (f : String → Option α) (s : String) : Option (List α) :=
  if s = "~" then some [] else (s.splitOn sep).mapM f

def parseRel (s : String) : Option Rel :=
  if s.startsWith "r:" then (Bytes.ofHex (s.drop 2).toString).map Rel.ref
  else if s.startsWith "d:" then (parseVM (s.drop 2).toString).map Rel.dedicated
  else none

def parseSvc (s : String) : Option Service :=
  match s.splitOn "," with
  | [a, b, c] => do pure { id := ← Bytes.ofHex a, type := ← Bytes.ofHex b, endpoint := ← Bytes.ofHex c }
  | _ => none

def parseDoc (s : String) : Option (Option Doc) :=
  if s = "nil" then some none else
  match s.splitOn ";" with
  | [ctx, id, ctl, vms, au, as_, ka, ci, cd, sv] => do
    let d : Doc := {
      contexts := ← parseOptList ctx, id := ← Bytes.ofHex id, controller := ← parseOptList ctl,
      vms := ← parseSepList "|" parseVM vms, auths := ← parseSepList "|" parseRel au,
      asserts := ← parseSepList "|" parseRel as_, keyAgrs := ← parseSepList "|" parseRel ka,
      capInvs := ← parseSepList "|" parseRel ci, capDels := ← parseSepList "|" parseRel cd,
      services := ← parseSepList "|" parseSvc sv }
    pure (some d)
  | _ => none

def showOptList : Option (List Bytes) → String
  | none => "^"
  | some l => showList l

def showVM (v : VM) : String :=
  showBytes v.id ++ "," ++ showBytes v.type ++ "," ++ showBytes v.controller ++ "," ++ showBytes v.pubKeyB58

def showSep {α} (sep : String) (f : α → String) (l : List α) : String :=
  if l.isEmpty then "~" else sep.intercalate (l.map f)

def showRel : Rel → String
  | .ref id => "r:" ++ showBytes id
  | .dedicated vm => "d:" ++ showVM vm

def showDoc : Option Doc → String
  | none => "nil"
  | some d => ";".intercalate [showOptList d.contexts, showBytes d.id, showOptList d.controller,
      showSep "|" showVM d.vms, showSep "|" showRel d.auths, showSep "|" showRel d.asserts,
      showSep "|" showRel d.keyAgrs, showSep "|" showRel d.capInvs, showSep "|" showRel d.capDels,
      showSep "|" (fun (s : Service) => showBytes s.id ++ "," ++ showBytes s.type ++ "," ++ showBytes s.endpoint) d.services]

def didParseMsg : List String → Option Did.Msg
  | ["create", did, doc, db, vm, sig, from_] => do
      pure (.create (← Bytes.ofHex did) (← parseDoc doc) (← Bytes.ofHex db) (← Bytes.ofHex vm) (← Bytes.ofHex sig) (← Bytes.ofHex from_))
  | ["update", did, doc, db, vm, sig, from_] => do
      pure (.update (← Bytes.ofHex did) (← parseDoc doc) (← Bytes.ofHex db) (← Bytes.ofHex vm) (← Bytes.ofHex sig) (← Bytes.ofHex from_))
  | ["deactivate", did, vm, sig, from_] => do
      pure (.deactivate (← Bytes.ofHex did) (← Bytes.ofHex vm) (← Bytes.ofHex sig) (← Bytes.ofHex from_))
  | _ => none

def didStep (tbl : AddrTable) (sigs : SigTable) (d : DidD) : List String → Option (DidD × String)
  | ["reset"] => some ({}, "-")
  | ["did.begin"] => some ({ d with saved := some d.st }, "-")
  | ["did.abort"] => some ({ d with st := d.saved.getD d.st, saved := none }, "-")
  | "did.msg" :: rest => do
      let m ← didParseMsg rest
      match deliver tbl.dec sigs.crypto d.st m with
      | .ok s' => pure ({ d with st := s' }, "ok")
      | .err c => pure (d, errStr c)
      | .panic _ => pure (d, "panic")
  | ["did.q", did] => do
      let did ← Bytes.ofHex did
      pure (d, outStr (fun (x : DocWithSeq) => "ok seq=" ++ toString x.seq ++ " doc=" ++ showDoc x.doc) (queryDID d.st did))
  | ["mon.c11.ids"] =>
      some (d, match d.st.find? (fun e => match e.2.doc with
          | some doc => !doc.empty && doc.id != e.1
          | none => false) with
        | some e => "fail " ++ showBytes e.1
        | none => "pass")
  | ["did.dump"] =>
      some (d, "ok " ++ (if d.st.isEmpty then "~" else "/".intercalate (d.st.map fun e =>
        showBytes e.1 ++ "=" ++ toString e.2.seq ++ "," ++ showDoc e.2.doc)))
  | _ => none

end Panacea.Driver
