import Panacea.Model.Tx
import Panacea.Driver.Pnft
namespace Panacea.Driver
open Panacea Tx

structure TxD where
  st : Tx.State := {}
  now : Int := 0
  tracked : List Bytes := []      -- accounts to print, in genesis order
  lastFc : Nat := 0               -- fee collector before the last transaction

def splitSegs (toks : List String) : List (List String) :=
  let rec go : List String → List String → List (List String)
    | [], cur => [cur.reverse]
    | t :: ts, cur => if t = "|" then cur.reverse :: go ts [] else go ts (t :: cur)
  go toks []

def parseInner : List String → Option Inner
  | "aol" :: rest => (aolParseMsg rest).map Inner.aol
  | "pnft" :: rest => (parsePnftV rest).map Inner.pnft
  | "did" :: rest => (didParseMsg rest).map Inner.did
  | _ => none

def parseMsgs : List (List String) → Option (List AnyMsg)
  | [] => some []
  | ["exec", g, n] :: rest => do
      let g ← Bytes.ofHex g; let n ← n.toNat?
      let inner ← (rest.take n).mapM parseInner
      let more ← parseMsgs (rest.drop n)
      pure (.exec g inner :: more)
  | seg :: rest => do
      let m ← parseInner seg
      let more ← parseMsgs rest
      pure (.plain m :: more)
termination_by l => l.length
decreasing_by all_goals simp_wf <;> omega

def parseSigs (s : String) : Option (List SigInfo) :=
  if s = "~" then some [] else
  (s.splitOn ",").mapM fun e =>
    match e.splitOn ":" with
    | [a, v, q] => do
      let a ← Bytes.ofHex a; let q ← q.toNat?
      pure { signer := a, valid := v = "1", sequence := q }
    | _ => none

def kv (s : String) : Option (String × String) :=
  match s.splitOn "=" with
  | [k, v] => some (k, v)
  | _ => none

def txState (tbl : AddrTable) (d : TxD) : String :=
  let accts := ",".intercalate (d.tracked.map fun a =>
    match d.st.accounts.get a with
    | some acc => a.toHex ++ ":" ++ toString acc.balance ++ ":" ++ toString acc.sequence
    | none => a.toHex ++ ":0:none")
  let didStr := if d.st.did.isEmpty then "~" else "/".intercalate (d.st.did.map fun e =>
        showBytes e.1 ++ "=" ++ toString e.2.seq ++ "," ++ showDoc e.2.doc)
  let _ := tbl
  "ok accts=" ++ accts ++ " fc=" ++ toString (d.st.feeCollector - d.lastFc) ++ " dsupply=0 aol=" ++ aolDump d.st.aol ++
    " did=" ++ didStr ++ " pnft=" ++ pnftDump d.st.pnft

def txStep (tbl : AddrTable) (sigs : SigTable) (d : TxD) : List String → Option (TxD × String)
  | ["reset"] => some ({}, "-")
  | ["now", n] => n.toInt?.map fun t => ({ d with now := t }, "-")
  | ["tx.genesis", l] => do
      let entries ← (l.splitOn ",").mapM fun e =>
        match e.splitOn ":" with
        | [a, b] => do let a ← Bytes.ofHex a; pure (a, b.toNat?)
        | _ => none
      let accts := entries.foldl (fun (m : Map Account) e =>
        match e.2 with | some b => m.set e.1 { balance := b, sequence := 0 } | none => m) []
      pure ({ d with st := { d.st with accounts := accts }, tracked := entries.map (·.1) }, "-")
  | ["grant", a, b, tag] => do
      let a ← Bytes.ofHex a; let b ← Bytes.ofHex b
      pure ({ d with st := { d.st with grants := { granter := a, grantee := b, typeTag := tag } :: d.st.grants } }, "-")
  | ["tx.state"] => some (d, txState tbl d)
  | "tx" :: fee :: payer :: sg :: "|" :: rest => do
      let (_, fee) ← kv fee; let fee ← fee.toNat?
      let (_, payer) ← kv payer
      let payerB ← (if payer = "-" then some none else (Bytes.ofHex payer).map some)
      let (_, sg) ← kv sg
      let sl ← parseSigs sg
      let msgs ← parseMsgs (splitSegs rest)
      let env : Env := { codec := codecOf tbl, crypto := sigs.crypto, now := d.now }
      -- the explicit payer arrives as text; decode it (an undecodable payer cannot be put into a real tx)
      let payerDec := match payerB with | some p => tbl.dec p | none => none
      let tx : Tx := { msgs := msgs, sigs := sl, fee := fee, payer := payerDec }
      let (s', r) := deliverTx env d.st tx
      pure ({ d with st := s', lastFc := d.st.feeCollector }, match r with | .ok => "ok" | _ => "err")
  | _ => none

end Panacea.Driver
