import Panacea.Model.Keystore
import Panacea.Driver.Proto
namespace Panacea.Driver
open Panacea Keystore

def ksStep : List String → Option String
  | "ks.load" :: rest => do
      let m := rest.filterMap fun t => match t.splitOn "=" with | [k, v] => some (k, v) | _ => none
      let geti (k : String) : Option Int := (m.lookup k).bind String.toInt?
      let getb (k : String) : Option Bool := (m.lookup k).map (· = "1")
      let gets (k : String) : Option Bytes := (m.lookup k).bind Bytes.ofHex
      let dk ← geti "dklen"
      let kf : KeyFile := {
        version := ← geti "version", cipher := ← gets "cipher", kdf := ← gets "kdf", prf := ← gets "prf",
        macHexOK := ← getb "machex", ivHexOK := ← getb "ivhex", ctHexOK := ← getb "cthex", saltHexOK := ← getb "salthex",
        c := ← geti "c", dklen := dk, ivLen := (← geti "ivlen").toNat,
        -- the harness can only produce a matching MAC when a derived key of ≥ 32 bytes exists
        macOK := (← getb "mac") }
      pure (match decryptKey kf with | .ok _ => "ok" | .err _ => "err" | .panic _ => "panic")
  | _ => none

end Panacea.Driver
