import Panacea.Model.Validate
import Panacea.Driver.Did
namespace Panacea.Driver
open Panacea Validate

def parseAolV : List String → Option AolMsg
  | ["createTopic", t, d, o] => do pure (.createTopic (← Bytes.ofHex t) (← Bytes.ofHex d) (← Bytes.ofHex o))
  | ["addWriter", t, m, d, w, o] => do
      pure (.addWriter (← Bytes.ofHex t) (← Bytes.ofHex m) (← Bytes.ofHex d) (← Bytes.ofHex w) (← Bytes.ofHex o))
  | ["deleteWriter", t, w, o] => do pure (.deleteWriter (← Bytes.ofHex t) (← Bytes.ofHex w) (← Bytes.ofHex o))
  | ["addRecord", t, k, v, w, o, f] => do
      pure (.addRecord (← Bytes.ofHex t) (← Bytes.ofHex k) (← Bytes.ofHex v) (← Bytes.ofHex w) (← Bytes.ofHex o) (← Bytes.ofHex f))
  | _ => none

def parsePnftV : List String → Option PnftMsg
  | ["createDenom", a, b, c, d, e, f, g, h] => do
      pure (.createDenom (← Bytes.ofHex a) (← Bytes.ofHex b) (← Bytes.ofHex c) (← Bytes.ofHex d) (← Bytes.ofHex e) (← Bytes.ofHex f) (← Bytes.ofHex g) (← Bytes.ofHex h))
  | ["updateDenom", a, b, c, d, e, f, g, h] => do
      pure (.updateDenom (← Bytes.ofHex a) (← Bytes.ofHex b) (← Bytes.ofHex c) (← Bytes.ofHex d) (← Bytes.ofHex e) (← Bytes.ofHex f) (← Bytes.ofHex g) (← Bytes.ofHex h))
  | ["deleteDenom", a, b] => do pure (.deleteDenom (← Bytes.ofHex a) (← Bytes.ofHex b))
  | ["transferDenom", a, b, c] => do pure (.transferDenom (← Bytes.ofHex a) (← Bytes.ofHex b) (← Bytes.ofHex c))
  | ["mintPNFT", a, b, c, d, e, f, g, h] => do
      pure (.mintPNFT (← Bytes.ofHex a) (← Bytes.ofHex b) (← Bytes.ofHex c) (← Bytes.ofHex d) (← Bytes.ofHex e) (← Bytes.ofHex f) (← Bytes.ofHex g) (← Bytes.ofHex h))
  | ["transferPNFT", a, b, c, d] => do pure (.transferPNFT (← Bytes.ofHex a) (← Bytes.ofHex b) (← Bytes.ofHex c) (← Bytes.ofHex d))
  | ["burnPNFT", a, b, c] => do pure (.burnPNFT (← Bytes.ofHex a) (← Bytes.ofHex b) (← Bytes.ofHex c))
  | _ => none

/-- `ValidateBasic`, and `GetSigners` only after it succeeded. -/
def vbAns (v : Outcome Unit) (signers : Outcome (List Bytes)) : String :=
  match v with
  | .ok () => match signers with
    | .ok l => "ok signers=" ++ showList l
    | .err c => errStr c
    | .panic _ => "panic"
  | .err c => errStr c
  | .panic _ => "panic"

def validateStep (tbl : AddrTable) : List String → Option String
  | "vb.aol" :: rest => do
      let m ← parseAolV rest
      pure (vbAns (aolValidateBasic tbl.dec m) (aolSigners tbl.dec m))
  | "vb.pnft" :: rest => do
      let m ← parsePnftV rest
      pure (vbAns (pnftValidateBasic tbl.dec m) (pnftSigners tbl.dec m))
  | ["mon.c18.admit", t] => do
      let t ← Bytes.ofHex t
      -- admitted names round-trip by `C18.string_roundtrip_admitted` + `C16.admitted_topic_has_no_slash`
      pure (if validateTopicName t = .ok () then "pass" else "rejected")
  | "vb.did" :: rest => do
      let m ← didParseMsg rest
      pure (vbAns (Did.validateBasic tbl.dec m) (didSigners tbl.dec m))
  | _ => none

end Panacea.Driver
