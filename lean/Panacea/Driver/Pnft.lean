import Panacea.Model.Pnft
import Panacea.Driver.Validate
namespace Panacea.Driver
open Panacea Pnft Validate

structure PnftD where
  st : Pnft.State := {}
  saved : Option Pnft.State := none   -- the state at `pnft.begin` (a branch that will be discarded)
  now : Int := 0

def classTok (d : Class) : String :=
  ",".intercalate [showBytes d.id, showBytes d.name, showBytes d.symbol, showBytes d.description, showBytes d.uri,
    showBytes d.uriHash, showBytes d.owner, showBytes d.data]

def pnftTok (p : Pnft.Pnft) : String :=
  ",".intercalate [showBytes p.denomId, showBytes p.id, showBytes p.name, showBytes p.description, showBytes p.uri,
    showBytes p.uriHash, showBytes p.data, showBytes p.creator, showBytes p.owner, toString p.createdAt]

def joinToks (l : List String) : String := if l.isEmpty then "~" else "|".intercalate l

def pnftDump (s : Pnft.State) : String :=
  let parts :=
    dumpMap "01" classTok s.classes ++
    dumpMap "02" (fun (n : Nft) => ",".intercalate [showBytes n.classId, showBytes n.id, showBytes n.uri, showBytes n.uriHash,
      showBytes n.name, showBytes n.description, showBytes n.creator, toString n.createdAt, showBytes n.data]) s.nfts ++
    dumpMap "03" (fun (_ : Unit) => "01") s.ownerIdx ++
    dumpMap "04" showBytes s.owners ++
    dumpMap "05" (fun (n : Nat) => toString n) s.supply
  if parts.isEmpty then "~" else ";".intercalate parts

/-- the model's verdict for the C12 monitor: with the repaired code the listed properties are theorems
(`Properties/C12`), so the model answers by evaluating the same predicate on its own state -/
def monC12 (c : CompKey.AddrCodec) (s : Pnft.State) (denoms owners : List Bytes) : String :=
  let bad := denoms.any fun d =>
    let l := queryPNFTs c s d
    (!l.isEmpty && (queryDenom s d).isNone) || l.any (fun p => p.denomId != d || queryPNFT c s d p.id != some p)
  let bad2 := owners.any fun o => (queryDenomsByOwner s o).any (fun d => d.owner != o)
  if bad || bad2 then "fail" else "pass"

def pnftStep (tbl : AddrTable) (d : PnftD) : List String → Option (PnftD × String)
  | ["reset"] => some ({}, "-")
  | ["now", n] => n.toInt?.map fun t => ({ d with now := t }, "-")
  | ["pnft.dump"] => some (d, "ok " ++ pnftDump d.st)
  | ["mon.c12", ds, os] => do
      let ds ← parseList ds; let os ← parseList os
      pure (d, monC12 (codecOf tbl) d.st ds os)
  | ["pnft.begin"] => some ({ d with saved := some d.st }, "-")
  | ["pnft.abort"] => some ({ d with st := d.saved.getD d.st, saved := none }, "-")
  | "pnft.msg" :: rest => do
      let m ← parsePnftV rest
      match handle (codecOf tbl) d.now d.st m with
      | .ok s' => pure ({ d with st := s' }, "ok")
      | .err c => pure (d, errStr c)
      | .panic _ => pure (d, "panic")
  | ["pnft.q", "denom", id] => do
      let id ← Bytes.ofHex id
      pure (d, match queryDenom d.st id with | some c => "ok " ++ classTok c | none => "err #not-found")
  | "pnft.q" :: "denoms" :: page => do
      let p ← parsePage page
      pure (d, outStr (fun (x : List Class × Paginate.PageResponse) => "ok items=" ++ joinToks (x.1.map classTok) ++ " " ++ pageAns x.2)
        (queryDenoms d.st p))
  | ["pnft.q", "denomsByOwner", o] => do
      let o ← Bytes.ofHex o
      pure (d, "ok items=" ++ joinToks ((queryDenomsByOwner d.st o).map classTok))
  | ["pnft.q", "pnfts", dn] => do
      let dn ← Bytes.ofHex dn
      pure (d, "ok items=" ++ joinToks ((queryPNFTs (codecOf tbl) d.st dn).map pnftTok))
  | ["pnft.q", "pnftsBy", dn, o] => do
      let dn ← Bytes.ofHex dn; let o ← Bytes.ofHex o
      pure (d, outStr (fun (l : List Pnft.Pnft) => "ok items=" ++ joinToks (l.map pnftTok)) (queryPNFTsByDenomOwner (codecOf tbl) d.st dn o))
  | ["pnft.q", "pnft", dn, id] => do
      let dn ← Bytes.ofHex dn; let id ← Bytes.ofHex id
      pure (d, match queryPNFT (codecOf tbl) d.st dn id with | some p => "ok " ++ pnftTok p | none => "err #not-found")
  | _ => none

end Panacea.Driver
