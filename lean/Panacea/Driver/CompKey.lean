import Panacea.Model.CompKey
import Panacea.Driver.Proto
namespace Panacea.Driver
open Panacea CompKey

def parseKind : String → Option Kind
  | "owner" => some .owner | "topic" => some .topic | "writer" => some .writer | "record" => some .record
  | _ => none

def codecOf (t : AddrTable) : AddrCodec := { enc := t.enc, dec := t.dec }

def ansOptBytes : Option Bytes → String
  | some b => "ok " ++ showBytes b
  | none => "err"

def ansOutList : Outcome (List Bytes) → String
  | .ok l => "ok " ++ showList l
  | .err _ => "err"
  | .panic _ => "panic"

def compkeyStep (t : AddrTable) : List String → Option String
  | ["ck.enc", l] => (parseList l).map fun c => ansOptBytes (encode c)
  | ["ck.penc", k, l] => do
      let c ← parseList l; let k ← k.toNat?
      pure (ansOptBytes (partialEncode c k))
  | ["ck.dec", b] => do
      let bz ← Bytes.ofHex b
      pure (match decode bz with | some l => "ok " ++ showList l | none => "err")
  | ["ck.tdec", k, b] => do
      let k ← parseKind k; let bz ← Bytes.ofHex b
      pure (ansOutList (decodeTyped k bz))
  | ["ck.str", k, l] => do
      let k ← parseKind k; let c ← parseList l
      pure ("ok " ++ showBytes (encodeToString (codecOf t) k c))
  | ["ck.sdec", k, s] => do
      let k ← parseKind k; let s ← Bytes.ofHex s
      pure (match decodeFromString (codecOf t) k s with | some l => "ok " ++ showList l | none => "err")
  | _ => none

end Panacea.Driver
