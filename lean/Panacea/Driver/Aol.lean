import Panacea.Model.Aol
import Panacea.Driver.CompKey
namespace Panacea.Driver
open Panacea Aol CompKey

structure AolD where
  st : Aol.State := {}
  saved : Option Aol.State := none   -- the state at `aol.begin` (a branch that will be discarded)
  now : Int := 0

/-- `err #<code>`: everything after `#` is informational and ignored by the comparison. -/
def errStr (c : String) : String := "err #" ++ (c.splitOn ":").head!

def outStr {α} (f : α → String) : Outcome α → String
  | .ok a => f a
  | .err c => errStr c
  | .panic _ => "panic"

def parsePage (toks : List String) : Option Paginate.PageRequest :=
  toks.foldlM (fun (p : Paginate.PageRequest) kv =>
    match kv.splitOn "=" with
    | ["key", v] => (Bytes.ofHex v).map fun b => { p with key := b }
    | ["off", v] => v.toNat?.map fun n => { p with offset := n }
    | ["lim", v] => v.toNat?.map fun n => { p with limit := n }
    | ["total", v] => some { p with countTotal := v = "1" }
    | ["rev", v] => some { p with reverse := v = "1" }
    | _ => none) {}

def pageAns (p : Paginate.PageResponse) : String :=
  "next=" ++ showBytes p.nextKey ++ " total=" ++ toString p.total

def dumpMap {V} (pfx : String) (f : V → String) (m : Map V) : List String :=
  m.map fun e => pfx ++ e.1.toHex ++ "=" ++ f e.2

def aolDump (s : Aol.State) : String :=
  let parts :=
    dumpMap "00" (fun (o : Owner) => toString o.totalTopics) s.owners ++
    dumpMap "01" (fun (t : Topic) => showBytes t.description ++ "," ++ toString t.totalRecords ++ "," ++ toString t.totalWriters) s.topics ++
    dumpMap "02" (fun (w : Writer) => showBytes w.moniker ++ "," ++ showBytes w.description ++ "," ++ toString w.nanoTimestamp) s.writers ++
    dumpMap "03" (fun (r : Record) => showBytes r.key ++ "," ++ showBytes r.value ++ "," ++ toString r.nanoTimestamp ++ "," ++ showBytes r.writerAddress) s.records
  if parts.isEmpty then "~" else ";".intercalate parts

def aolParseMsg : List String → Option Aol.Msg
  | ["createTopic", t, d, o] => do
      pure (.createTopic (← Bytes.ofHex t) (← Bytes.ofHex d) (← Bytes.ofHex o))
  | ["addWriter", t, m, d, w, o] => do
      pure (.addWriter (← Bytes.ofHex t) (← Bytes.ofHex m) (← Bytes.ofHex d) (← Bytes.ofHex w) (← Bytes.ofHex o))
  | ["deleteWriter", t, w, o] => do
      pure (.deleteWriter (← Bytes.ofHex t) (← Bytes.ofHex w) (← Bytes.ofHex o))
  | ["addRecord", t, k, v, w, o, f] => do
      pure (.addRecord (← Bytes.ofHex t) (← Bytes.ofHex k) (← Bytes.ofHex v) (← Bytes.ofHex w) (← Bytes.ofHex o) (← Bytes.ofHex f))
  | _ => none

def respStr : Aol.Resp → String
  | .empty => "ok"
  | .addRecord o t n => "ok owner=" ++ showBytes o ++ " topic=" ++ showBytes t ++ " offset=" ++ toString n

def aolStep (tbl : AddrTable) (d : AolD) : List String → Option (AolD × String)
  | ["reset"] => some ({}, "-")
  | ["now", n] => n.toInt?.map fun t => ({ d with now := t }, "-")
  | ["aol.dump"] => some (d, "ok " ++ aolDump d.st)
  | ["aol.begin"] => some ({ d with saved := some d.st }, "-")
  | ["aol.abort"] => some ({ d with st := d.saved.getD d.st, saved := none }, "-")
  | "aol.msg" :: rest => do
      let m ← aolParseMsg rest
      match handle (codecOf tbl) d.now d.st m with
      | .ok (s', r) => pure ({ d with st := s' }, respStr r)
      | .err c => pure (d, errStr c)
      | .panic _ => pure (d, "panic")
  | ["aol.q", "record", o, t, n] => do
      let o ← Bytes.ofHex o; let t ← Bytes.ofHex t; let n ← n.toNat?
      pure (d, outStr (fun (r : Record) => "ok key=" ++ showBytes r.key ++ " value=" ++ showBytes r.value ++ " ts=" ++
        toString r.nanoTimestamp ++ " writer=" ++ showBytes r.writerAddress) (queryRecord (codecOf tbl) d.st o t n))
  | ["aol.q", "topic", o, t] => do
      let o ← Bytes.ofHex o; let t ← Bytes.ofHex t
      pure (d, outStr (fun (x : Topic) => "ok desc=" ++ showBytes x.description ++ " records=" ++ toString x.totalRecords ++
        " writers=" ++ toString x.totalWriters) (queryTopic (codecOf tbl) d.st o t))
  | ["aol.q", "writer", o, t, w] => do
      let o ← Bytes.ofHex o; let t ← Bytes.ofHex t; let w ← Bytes.ofHex w
      pure (d, outStr (fun (x : Writer) => "ok moniker=" ++ showBytes x.moniker ++ " desc=" ++ showBytes x.description ++
        " ts=" ++ toString x.nanoTimestamp) (queryWriter (codecOf tbl) d.st o t w))
  | ["mon.c01.acked", o, t, n, k, v, ts, w] => do
      let o ← Bytes.ofHex o; let t ← Bytes.ofHex t; let n ← n.toNat?
      let k ← Bytes.ofHex k; let v ← Bytes.ofHex v; let ts ← ts.toInt?; let w ← Bytes.ofHex w
      let want : Record := { key := k, value := v, nanoTimestamp := ts, writerAddress := w }
      pure (d, if queryRecord (codecOf tbl) d.st o t n = .ok want then "pass" else "fail")
  | "aol.q" :: "topics" :: o :: page => do
      let o ← Bytes.ofHex o; let p ← parsePage page
      pure (d, outStr (fun (x : List Bytes × Paginate.PageResponse) => "ok items=" ++ showList x.1 ++ " " ++ pageAns x.2)
        (queryTopics (codecOf tbl) d.st o p))
  | "aol.q" :: "writers" :: o :: t :: page => do
      let o ← Bytes.ofHex o; let t ← Bytes.ofHex t; let p ← parsePage page
      pure (d, outStr (fun (x : List Bytes × Paginate.PageResponse) => "ok items=" ++ showList x.1 ++ " " ++ pageAns x.2)
        (queryWriters (codecOf tbl) d.st o t p))
  | _ => none

end Panacea.Driver
