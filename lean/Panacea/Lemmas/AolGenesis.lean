import Panacea.Lemmas.AolRec
/-!
# What the repaired AOL genesis validation (F26) guarantees, and why that is enough for `RecInv`

`GenesisState.Validate` checks, for every record entry, that its topic is in the file and its offset is below the
topic's `total_records`, and, for every topic, that the number of record entries given for it equals
`total_records`.  `GenesisChecked` states this about the imported state; the step from "as many distinct offsets
below `n` as `n`" to "every offset below `n`" is the pigeonhole principle, proved here on lists.
-/
namespace Panacea.Aol
open Panacea CompKey

/-- a duplicate-free list of naturals below `n` has at most `n` elements -/
theorem nodup_bounded_length : ∀ (n : Nat) (l : List Nat), l.Nodup → (∀ x ∈ l, x < n) → l.length ≤ n
  | 0, l, _, hb => by
    cases l with
    | nil => exact Nat.le_refl 0
    | cons x xs => exact absurd (hb x (by simp)) (Nat.not_lt_zero x)
  | n + 1, l, hd, hb => by
    by_cases hm : n ∈ l
    · have hl := List.length_erase_of_mem hm
      have hd' : (l.erase n).Nodup := hd.erase n
      have hb' : ∀ x ∈ l.erase n, x < n := by
        intro x hx
        have hxl : x ∈ l := List.mem_of_mem_erase hx
        have hne : x ≠ n := by
          intro he; subst he
          exact (List.Nodup.not_mem_erase hd) hx
        have := hb x hxl
        omega
      have := nodup_bounded_length n (l.erase n) hd' hb'
      have hpos : 0 < l.length := List.length_pos_of_mem hm
      omega
    · have hb' : ∀ x ∈ l, x < n := by
        intro x hx
        have := hb x hx
        have hne : x ≠ n := fun he => hm (he ▸ hx)
        omega
      have := nodup_bounded_length n l hd hb'
      omega

/-- **pigeonhole**: `n` distinct naturals below `n` are all of them -/
theorem nodup_full (n : Nat) (l : List Nat) (hd : l.Nodup) (hb : ∀ x ∈ l, x < n) (hl : l.length = n) :
    ∀ k, k < n → k ∈ l := by
  intro k hk
  apply Classical.byContradiction
  intro hnot
  -- then `l` lives in `{0..n-1} \ {k}`: map the elements above `k` down by one to get `n` distinct naturals below `n-1`
  have hd' : (l.map fun x => if x < k then x else x - 1).Nodup := by
    unfold List.Nodup
    rw [List.pairwise_map]
    refine List.Pairwise.imp_of_mem ?_ hd
    intro x y hx hy hne hxy
    have hxk : x ≠ k := fun he => hnot (he ▸ hx)
    have hyk : y ≠ k := fun he => hnot (he ▸ hy)
    by_cases h1 : x < k <;> by_cases h2 : y < k <;> simp only [h1, h2, if_true, if_false] at hxy <;> omega
  have hb' : ∀ z ∈ (l.map fun x => if x < k then x else x - 1), z < n - 1 := by
    intro z hz
    obtain ⟨x, hx, rfl⟩ := List.mem_map.mp hz
    have hxn := hb x hx
    have hxk : x ≠ k := fun he => hnot (he ▸ hx)
    by_cases h1 : x < k
    · simp only [h1, if_true]; omega
    · simp only [h1, if_false]; omega
  have := nodup_bounded_length (n - 1) _ hd' hb'
  simp only [List.length_map] at this
  omega

/-- what the repaired `GenesisState.Validate` establishes of the imported state, as far as records go -/
structure GenesisChecked (s : State) : Prop where
  /-- every record entry lies under a topic of the file, below that topic's counter -/
  recBelow : ∀ o t n rk, n < two64 → encode [o, t, be64 n] = some rk → s.records.has rk = true →
    ∃ tk topic, encode [o, t] = some tk ∧ s.topics.get tk = some topic ∧ n < topic.totalRecords
  /-- for every topic the record entries given for it are as many as its counter says: their (distinct) offsets -/
  recCount : ∀ o t tk topic, encode [o, t] = some tk → s.topics.get tk = some topic →
    ∃ offs : List Nat, offs.Nodup ∧ offs.length = topic.totalRecords ∧
      ∀ n ∈ offs, n < two64 ∧ ∃ rk, encode [o, t, be64 n] = some rk ∧ s.records.has rk = true
  /-- the counters are `uint64` values -/
  bounded : ∀ tk topic, s.topics.get tk = some topic → topic.totalRecords < two64

/-- **A chain started from a validated genesis satisfies the record invariant** — the hypothesis of the C01 and C13
theorems that was, before F26, true of the empty genesis only. -/
theorem recInv_of_genesisChecked {s : State} (h : GenesisChecked s) : RecInv s := by
  refine ⟨h.recBelow, ?_, h.bounded⟩
  intro o t tk topic n rk htk hget hn hrk
  obtain ⟨offs, hd, hl, hall⟩ := h.recCount o t tk topic htk hget
  have hb : ∀ x ∈ offs, x < topic.totalRecords := by
    intro x hx
    obtain ⟨hx64, rk', hrk', hhas⟩ := hall x hx
    obtain ⟨tk', topic', htk', hget', hlt⟩ := h.recBelow o t x rk' hx64 hrk' hhas
    have : tk' = tk := by rw [htk] at htk'; exact (Option.some.inj htk').symm
    subst this
    rw [hget] at hget'
    cases hget'
    exact hlt
  have hmem := nodup_full topic.totalRecords offs hd hb hl n hn
  obtain ⟨_, rk', hrk', hhas⟩ := hall n hmem
  rw [hrk] at hrk'
  cases hrk'
  exact hhas

/-- the premises are satisfiable beyond the empty state: one topic with two records -/
example : ∃ l : List Nat, l.Nodup ∧ l.length = 2 ∧ ∀ x ∈ l, x < 2 := ⟨[1, 0], by decide, rfl, by decide⟩

end Panacea.Aol
