import Panacea.Model.Aol
import Panacea.Lemmas.KV
import Panacea.Lemmas.CompKeyString
/-! Inversion lemmas for the AOL message server and the frame facts the property files use. -/
namespace Panacea.Aol
open Panacea CompKey

/-- The stored topic (the zero value when absent, as `GetTopic` returns). -/
def topicAt (s : State) (tk : Bytes) : Topic := (s.topics.get tk).getD {}

theorem createTopic_ok {c : AddrCodec} {now : Int} {s s' : State} {tn d oa : Bytes} {r : Resp}
    (h : handle c now s (.createTopic tn d oa) = .ok (s', r)) :
    ∃ o tk ok, c.dec oa = some o ∧ encode [o, tn] = some tk ∧ s.topics.has tk = false ∧ encode [o] = some ok ∧
      s' = { s with
        owners := s.owners.set ok { totalTopics := wrap64 (((s.owners.get ok).getD {}).totalTopics + 1) },
        topics := s.topics.set tk { description := d } } ∧ r = .empty := by
  simp only [handle, bind, Outcome.bind, decAddr, topicKey, ownerKey, mustEncode, pure] at h
  cases ho : c.dec oa with
  | none => simp [ho] at h
  | some o =>
    cases htk : encode [o, tn] with
    | none => simp [ho, htk] at h
    | some tk =>
      simp only [ho, htk] at h
      split at h
      · simp at h
      · rename_i hhas
        cases hok : encode [o] with
        | none => simp [hok] at h
        | some ok =>
          simp only [hok] at h
          simp at h
          exact ⟨o, tk, ok, rfl, htk, by simpa using hhas, hok, h.1.symm, h.2.symm⟩

theorem addWriter_ok {c : AddrCodec} {now : Int} {s s' : State} {tn mo d wa oa : Bytes} {r : Resp}
    (h : handle c now s (.addWriter tn mo d wa oa) = .ok (s', r)) :
    ∃ o w tk wk, c.dec oa = some o ∧ c.dec wa = some w ∧ encode [o, tn] = some tk ∧ s.topics.has tk = true ∧
      encode [o, tn, w] = some wk ∧ s.writers.has wk = false ∧
      s' = { s with
        topics := s.topics.set tk { topicAt s tk with totalWriters := wrap64 ((topicAt s tk).totalWriters + 1) },
        writers := s.writers.set wk { moniker := mo, description := d, nanoTimestamp := now } } ∧ r = .empty := by
  simp only [handle, bind, Outcome.bind, decAddr, topicKey, writerKey, mustEncode, pure] at h
  cases ho : c.dec oa with
  | none => simp [ho] at h
  | some o =>
    cases hw : c.dec wa with
    | none => simp [ho, hw] at h
    | some w =>
      cases htk : encode [o, tn] with
      | none => simp [ho, hw, htk] at h
      | some tk =>
        simp only [ho, hw, htk] at h
        split at h
        · simp at h
        · rename_i hhas
          cases hwk : encode [o, tn, w] with
          | none => simp [hwk] at h
          | some wk =>
            simp only [hwk] at h
            split at h
            · simp at h
            · rename_i hhasw
              simp at h
              exact ⟨o, w, tk, wk, rfl, rfl, htk, by simpa using hhas, hwk, by simpa using hhasw, h.1.symm, h.2.symm⟩

theorem deleteWriter_ok {c : AddrCodec} {now : Int} {s s' : State} {tn wa oa : Bytes} {r : Resp}
    (h : handle c now s (.deleteWriter tn wa oa) = .ok (s', r)) :
    ∃ o w tk wk, c.dec oa = some o ∧ c.dec wa = some w ∧ encode [o, tn] = some tk ∧
      encode [o, tn, w] = some wk ∧ s.writers.has wk = true ∧
      s' = { s with
        topics := s.topics.set tk { topicAt s tk with totalWriters := decU64 (topicAt s tk).totalWriters },
        writers := s.writers.del wk } ∧ r = .empty := by
  simp only [handle, bind, Outcome.bind, decAddr, topicKey, writerKey, mustEncode, pure] at h
  cases ho : c.dec oa with
  | none => simp [ho] at h
  | some o =>
    cases hw : c.dec wa with
    | none => simp [ho, hw] at h
    | some w =>
      cases hwk : encode [o, tn, w] with
      | none => simp [ho, hw, hwk] at h
      | some wk =>
        simp only [ho, hw, hwk] at h
        split at h
        · simp at h
        · rename_i hhasw
          cases htk : encode [o, tn] with
          | none => simp [htk] at h
          | some tk =>
            simp only [htk] at h
            simp at h
            exact ⟨o, w, tk, wk, rfl, rfl, htk, hwk, by simpa using hhasw, h.1.symm, h.2.symm⟩

theorem addRecord_ok {c : AddrCodec} {now : Int} {s s' : State} {tn key value wa oa fp : Bytes} {r : Resp}
    (h : handle c now s (.addRecord tn key value wa oa fp) = .ok (s', r)) :
    ∃ o w tk wk rk, c.dec oa = some o ∧ c.dec wa = some w ∧ encode [o, tn] = some tk ∧
      s.topics.has tk = true ∧ encode [o, tn, w] = some wk ∧ s.writers.has wk = true ∧
      encode [o, tn, be64 (topicAt s tk).totalRecords] = some rk ∧
      s' = { s with
        topics := s.topics.set tk { topicAt s tk with totalRecords := wrap64 ((topicAt s tk).totalRecords + 1) },
        records := s.records.set rk { key := key, value := value, nanoTimestamp := now, writerAddress := wa } } ∧
      r = .addRecord oa tn (topicAt s tk).totalRecords := by
  simp only [handle, bind, Outcome.bind, decAddr, topicKey, writerKey, recordKey, mustEncode, pure] at h
  cases ho : c.dec oa with
  | none => simp [ho] at h
  | some o =>
    cases hw : c.dec wa with
    | none => simp [ho, hw] at h
    | some w =>
      cases htk : encode [o, tn] with
      | none => simp [ho, hw, htk] at h
      | some tk =>
        simp only [ho, hw, htk] at h
        split at h
        · simp at h
        · rename_i hhas
          cases hwk : encode [o, tn, w] with
          | none => simp [hwk] at h
          | some wk =>
            simp only [hwk] at h
            split at h
            · simp at h
            · rename_i hhasw
              cases hrk : encode [o, tn, be64 ((s.topics.get tk).getD {}).totalRecords] with
              | none => simp [hrk] at h
              | some rk =>
                simp only [hrk] at h
                simp at h
                exact ⟨o, w, tk, wk, rk, rfl, rfl, htk, by simpa using hhas, hwk, by simpa using hhasw, hrk, h.1.symm, h.2.symm⟩

/-- Only `AddRecord` writes the record table. -/
theorem records_unchanged_of_not_addRecord {c : AddrCodec} {now : Int} {s s' : State} {m : Msg} {r : Resp}
    (h : handle c now s m = .ok (s', r)) (hm : ∀ a b c' d e f, m ≠ .addRecord a b c' d e f) :
    s'.records = s.records := by
  cases m with
  | createTopic tn d oa => obtain ⟨_, _, _, _, _, _, _, rfl, _⟩ := createTopic_ok h; rfl
  | addWriter tn mo d wa oa => obtain ⟨_, _, _, _, _, _, _, _, _, _, rfl, _⟩ := addWriter_ok h; rfl
  | deleteWriter tn wa oa => obtain ⟨_, _, _, _, _, _, _, _, _, rfl, _⟩ := deleteWriter_ok h; rfl
  | addRecord a b c' d e f => exact absurd rfl (hm a b c' d e f)

end Panacea.Aol
