import Panacea.Lemmas.PrefixView
/-!
# A raw KV store seen through a prefix

How `get / set / del` on the whole store (keys `p ++ k`) appear in `prefixView p` (keys `k`): the bridge between
the translated keeper code, which works on the module's single raw store, and the hand-written models, which
keep one typed table per prefix.
-/
namespace Panacea.Map
variable {V W : Type}

theorem lt_append_left : ∀ (p a b : Bytes), Bytes.lt (p ++ a) (p ++ b) = Bytes.lt a b
  | [], _, _ => rfl
  | x :: p, a, b => by
    simp only [List.cons_append, Bytes.lt]
    have : ¬ (x < x) := by simp
    simp [this, lt_append_left p a b]

theorem isPrefixOf_append (p k : Bytes) : p.isPrefixOf (p ++ k) = true :=
  (isPrefixOf_iff' _ _).mpr (List.prefix_append _ _)

theorem get_prefixView (m : Map V) (p k : Bytes) : Map.get (m.prefixView p) k = m.get (p ++ k) := by
  induction m with
  | nil => rfl
  | cons e m ih =>
    obtain ⟨k0, v0⟩ := e
    unfold prefixView at ih ⊢
    simp only [List.filter_cons]
    by_cases hp : p.isPrefixOf k0 = true
    · simp only [hp, if_true, List.map_cons, get]
      obtain ⟨r, rfl⟩ := (isPrefixOf_iff' _ _).mp hp
      simp only [List.drop_left]
      by_cases hk : r = k
      · subst hk; simp
      · have : ¬ (p ++ r = p ++ k) := by simpa using hk
        simp only [hk, this, if_false]; exact ih
    · simp only [hp, Bool.false_eq_true, if_false, get]
      have : ¬ (k0 = p ++ k) := by
        intro h; subst h; exact hp (isPrefixOf_append p k)
      simp only [this, if_false]; exact ih

/-- apply `f` to every value -/
def mapVals (f : V → W) (l : Map V) : Map W := l.map fun e => (e.1, f e.2)

theorem get_mapVals (l : Map V) (f : V → W) (k : Bytes) :
    Map.get (mapVals f l) k = (Map.get l k).map f := by
  unfold mapVals
  induction l with
  | nil => rfl
  | cons e l ih =>
    obtain ⟨k0, v0⟩ := e
    simp only [List.map_cons, get]
    split <;> simp [ih]

/-- a key outside the prefix does not show in the view -/
theorem prefixView_set_other (m : Map V) (p k : Bytes) (v : V) (h : p.isPrefixOf k = false) :
    (m.set k v).prefixView p = m.prefixView p := by
  induction m with
  | nil => simp [set, prefixView, h]
  | cons e m ih =>
    obtain ⟨k0, v0⟩ := e
    simp only [set]
    split
    · rename_i he; subst he
      simp [prefixView, h]
    · split
      · simp [prefixView, h]
      · unfold prefixView at ih ⊢
        simp only [List.filter_cons]
        split <;> simp [ih]

theorem prefixView_del_other (m : Map V) (p k : Bytes) (h : p.isPrefixOf k = false) :
    (m.del k).prefixView p = m.prefixView p := by
  induction m with
  | nil => rfl
  | cons e m ih =>
    obtain ⟨k0, v0⟩ := e
    simp only [del]
    split
    · rename_i he; subst he
      unfold prefixView at ih ⊢
      simp only [List.filter_cons, h, Bool.false_eq_true, if_false]; exact ih
    · unfold prefixView at ih ⊢
      simp only [List.filter_cons]
      split <;> simp [ih]

/-- in a sorted store all keys after the head are larger than the head -/
theorem head_lt_of_sorted {k0 : Bytes} {v0 : V} {m : Map V} (hs : Sorted ((k0, v0) :: m)) :
    ∀ e ∈ m, Bytes.lt k0 e.1 = true := by
  intro e he
  unfold Sorted keys at hs
  simp only [List.map_cons, List.pairwise_cons] at hs
  exact hs.1 e.1 (List.mem_map.mpr ⟨e, he, rfl⟩)

theorem sorted_tail {e : Bytes × V} {m : Map V} (hs : Sorted (e :: m)) : Sorted m := by
  unfold Sorted keys at hs ⊢
  simp only [List.map_cons, List.pairwise_cons] at hs
  exact hs.2

/-- setting a key that is smaller than every key of the view puts it in front -/
theorem set_front (l : Map V) (k : Bytes) (v : V) (h : ∀ e ∈ l, Bytes.lt k e.1 = true) :
    Map.set l k v = (k, v) :: l := by
  cases l with
  | nil => rfl
  | cons e l =>
    obtain ⟨k0, v0⟩ := e
    have hlt := h (k0, v0) (by simp)
    have hne : ¬ (k0 = k) := fun he => Bytes.lt_ne _ _ hlt he.symm
    simp [set, hne, hlt]

theorem prefixView_set_same (m : Map V) (hs : m.Sorted) (p k : Bytes) (v : V) :
    (m.set (p ++ k) v).prefixView p = Map.set (m.prefixView p) k v := by
  induction m with
  | nil => simp [set, prefixView, isPrefixOf_append]
  | cons e m ih =>
    obtain ⟨k0, v0⟩ := e
    have hs' := sorted_tail hs
    simp only [set]
    by_cases he : k0 = p ++ k
    · subst he
      simp [prefixView, isPrefixOf_append, set]
    · rw [if_neg he]
      by_cases hlt : Bytes.lt (p ++ k) k0 = true
      · rw [if_pos hlt]
        -- inserted in front: every key of the view is larger than k
        have hall : ∀ e ∈ Map.prefixView ((k0, v0) :: m) p, Bytes.lt k e.1 = true := by
          intro e hmem
          obtain ⟨k1, v1⟩ := e
          have hm := mem_prefixView.mp hmem
          have hge : Bytes.lt (p ++ k) (p ++ k1) = true := by
            rcases List.mem_cons.mp hm with h1 | h1
            · cases h1; exact hlt
            · exact Bytes.lt_trans _ _ _ hlt (head_lt_of_sorted hs _ h1)
          rwa [lt_append_left] at hge
        rw [set_front _ _ _ hall]
        simp [prefixView, isPrefixOf_append]
      · rw [if_neg hlt]
        have hgt : Bytes.lt k0 (p ++ k) = true := by
          rcases Bytes.lt_trichotomy k0 (p ++ k) with h | h | h
          · exact h
          · exact absurd h he
          · exact absurd h hlt
        by_cases hp : p.isPrefixOf k0 = true
        · obtain ⟨r, rfl⟩ := (isPrefixOf_iff' _ _).mp hp
          rw [lt_append_left] at hgt
          have hne : ¬ (r = k) := fun h => he (by rw [h])
          have hnlt : ¬ (Bytes.lt k r = true) := by
            intro h; have := Bytes.lt_asymm _ _ h; rw [hgt] at this; cases this
          have hv : Map.prefixView ((p ++ r, v0) :: m) p = (r, v0) :: Map.prefixView m p := by
            simp [prefixView, isPrefixOf_append]
          have hv2 : Map.prefixView ((p ++ r, v0) :: Map.set m (p ++ k) v) p = (r, v0) :: Map.prefixView (Map.set m (p ++ k) v) p := by
            simp [prefixView, isPrefixOf_append]
          rw [hv, hv2, ih hs']
          simp [set, hne, hnlt]
        · have hp' : p.isPrefixOf k0 = false := by cases h : p.isPrefixOf k0 <;> simp_all
          have hv : Map.prefixView ((k0, v0) :: m) p = Map.prefixView m p := by
            simp [prefixView, hp']
          have hv2 : Map.prefixView ((k0, v0) :: Map.set m (p ++ k) v) p = Map.prefixView (Map.set m (p ++ k) v) p := by
            simp [prefixView, hp']
          rw [hv, hv2, ih hs']

theorem prefixView_del_same (m : Map V) (p k : Bytes) :
    (m.del (p ++ k)).prefixView p = Map.del (m.prefixView p) k := by
  induction m with
  | nil => rfl
  | cons e m ih =>
    obtain ⟨k0, v0⟩ := e
    simp only [del]
    by_cases he : k0 = p ++ k
    · subst he
      simp [prefixView, isPrefixOf_append, del] at ih ⊢
      exact ih
    · rw [if_neg he]
      by_cases hp : p.isPrefixOf k0 = true
      · obtain ⟨r, rfl⟩ := (isPrefixOf_iff' _ _).mp hp
        have hne : ¬ (r = k) := fun h => he (by rw [h])
        have hv : Map.prefixView ((p ++ r, v0) :: m) p = (r, v0) :: Map.prefixView m p := by
          simp [prefixView, isPrefixOf_append]
        have hv2 : Map.prefixView ((p ++ r, v0) :: Map.del m (p ++ k)) p = (r, v0) :: Map.prefixView (Map.del m (p ++ k)) p := by
          simp [prefixView, isPrefixOf_append]
        rw [hv, hv2, ih]
        simp [del, hne]
      · have hp' : p.isPrefixOf k0 = false := by cases h : p.isPrefixOf k0 <;> simp_all
        have hv : Map.prefixView ((k0, v0) :: m) p = Map.prefixView m p := by simp [prefixView, hp']
        have hv2 : Map.prefixView ((k0, v0) :: Map.del m (p ++ k)) p = Map.prefixView (Map.del m (p ++ k)) p := by simp [prefixView, hp']
        rw [hv, hv2, ih]

theorem set_mapVals (l : Map V) (f : V → W) (k : Bytes) (v : V) :
    mapVals f (Map.set l k v) = Map.set (mapVals f l) k (f v) := by
  unfold mapVals
  induction l with
  | nil => rfl
  | cons e l ih =>
    obtain ⟨k0, v0⟩ := e
    simp only [set, List.map_cons]
    split
    · simp
    · split <;> simp [ih]

theorem del_mapVals (l : Map V) (f : V → W) (k : Bytes) :
    mapVals f (Map.del l k) = Map.del (mapVals f l) k := by
  unfold mapVals
  induction l with
  | nil => rfl
  | cons e l ih =>
    obtain ⟨k0, v0⟩ := e
    simp only [del, List.map_cons]
    split <;> simp [ih]

end Panacea.Map
