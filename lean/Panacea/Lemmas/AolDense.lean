import Panacea.Lemmas.AolRec
/-! Dense numbering of record offsets along histories. -/
namespace Panacea.Aol
open Panacea CompKey

/-- Is this message an `AddRecord` for topic `(o, t)`? -/
def targets (c : AddrCodec) (o t : Bytes) : Msg → Bool
  | .addRecord tn _ _ _ oa _ => decide (c.dec oa = some o) && decide (tn = t)
  | _ => false

/-- The offsets acknowledged to `AddRecord`s for topic `(o, t)` along a history, in order. -/
def acks (c : AddrCodec) (o t : Bytes) : State → List (Int × Msg) → List Nat
  | _, [] => []
  | s, op :: ops =>
    let rest := acks c o t (step c s op) ops
    match handle c op.1 s op.2 with
    | .ok (_, .addRecord _ _ n) => if targets c o t op.2 then n :: rest else rest
    | _ => rest

theorem totalRecords_set_other {s : State} {o t : Bytes} {tk' : Bytes} {new : Topic} {ow wr rc}
    (h : ∀ tk, encode [o, t] = some tk → tk = tk' → new.totalRecords = ((s.topics.get tk').map (·.totalRecords)).getD 0) :
    totalRecords { s with topics := s.topics.set tk' new, owners := ow, writers := wr, records := rc } o t = totalRecords s o t := by
  unfold totalRecords
  cases he : encode [o, t] with
  | none => rfl
  | some tk =>
    simp only
    by_cases hk : tk = tk'
    · subst hk
      rw [Map.get_set_eq]; simp [h tk he rfl]
    · rw [Map.get_set_ne _ _ _ _ hk]

/-- Effect of one successful message on `total_records` of `(o, t)`. -/
theorem totalRecords_handle {c : AddrCodec} {now : Int} {s s' : State} {m : Msg} {r : Resp} {B : Nat}
    (hb : Below s B) (hB : B + 1 < two64) (o t : Bytes)
    (h : handle c now s m = .ok (s', r)) :
    (targets c o t m = true ∧ (∃ oa, r = .addRecord oa t (totalRecords s o t)) ∧
      totalRecords s' o t = totalRecords s o t + 1) ∨
    (targets c o t m = false ∧ totalRecords s' o t = totalRecords s o t) := by
  cases m with
  | createTopic tn d oa =>
    right
    obtain ⟨o', tk, ok, _, htk, hhas, _, rfl, _⟩ := createTopic_ok h
    refine ⟨rfl, ?_⟩
    apply totalRecords_set_other
    intro tk0 _ he; subst he
    have hnone : s.topics.get tk0 = none := by
      unfold Map.has at hhas; cases hg : s.topics.get tk0 <;> simp [hg] at hhas ⊢
    simp [hnone]
  | addWriter tn mo d wa oa =>
    right
    obtain ⟨o', w, tk, wk, _, _, htk, _, _, _, rfl, _⟩ := addWriter_ok h
    refine ⟨rfl, ?_⟩
    apply totalRecords_set_other
    intro tk0 _ he; subst he
    simp only [topicAt]; cases s.topics.get tk0 <;> rfl
  | deleteWriter tn wa oa =>
    right
    obtain ⟨o', w, tk, wk, _, _, htk, _, _, rfl, _⟩ := deleteWriter_ok h
    refine ⟨rfl, ?_⟩
    apply totalRecords_set_other
    intro tk0 _ he; subst he
    simp only [topicAt]; cases s.topics.get tk0 <;> rfl
  | addRecord tn key value wa oa fp =>
    obtain ⟨o', w, tk, wk, rk, hdo, _, htk, hhas, _, _, hrk, rfl, hr⟩ := addRecord_ok h
    obtain ⟨topic, hget⟩ := (has_eq_true_iff _ _).mp hhas
    have hT : topicAt s tk = topic := topicAt_of_get hget
    have hTB : topic.totalRecords ≤ B := hb tk topic hget
    have hw : wrap64 (topic.totalRecords + 1) = topic.totalRecords + 1 := wrap64_of_lt (by omega)
    by_cases ht : targets c o t (.addRecord tn key value wa oa fp) = true
    · left
      simp only [targets, Bool.and_eq_true, decide_eq_true_eq] at ht
      obtain ⟨h1, h2⟩ := ht
      rw [hdo] at h1; cases h1; subst h2
      have htot : totalRecords s o tn = topic.totalRecords := by simp [totalRecords, htk, hget]
      refine ⟨by simp [targets, hdo], ⟨oa, ?_⟩, ?_⟩
      · rw [hr, hT, htot]
      · rw [htot]
        simp only [totalRecords, htk, Map.get_set_eq, hT, hw]; rfl
    · right
      have ht' : targets c o t (.addRecord tn key value wa oa fp) = false := by
        cases hx : targets c o t (.addRecord tn key value wa oa fp) <;> simp_all
      refine ⟨ht', ?_⟩
      unfold totalRecords
      cases he : encode [o, t] with
      | none => rfl
      | some tk0 =>
        simp only
        by_cases hk : tk0 = tk
        · subst hk
          obtain ⟨h1, h2⟩ := encode2_inj he htk
          subst h1 h2
          simp [targets, hdo] at ht'
        · rw [Map.get_set_ne _ _ _ _ hk]

theorem acks_dense {c : AddrCodec} (o t : Bytes) (ops : List (Int × Msg)) : ∀ {s : State} {B : Nat},
    Below s B → B + ops.length < two64 →
    acks c o t s ops = List.range' (totalRecords s o t) (acks c o t s ops).length := by
  induction ops with
  | nil => intro s B _ _; simp [acks]
  | cons op ops ih =>
    intro s B hb hB
    have hB1 : B + 1 < two64 := by simp at hB; omega
    simp only [acks]
    cases h : handle c op.1 s op.2 with
    | ok p =>
      obtain ⟨s', r⟩ := p
      have hstep : step c s op = s' := by simp [step, h]
      have hb' : Below s' (B + 1) := by
        -- counters grow by at most one per message
        intro k tp hg
        cases hm : op.2 with
        | createTopic tn d oa =>
          rw [hm] at h
          obtain ⟨o', tk, ok, _, htk, hhas, _, rfl, _⟩ := createTopic_ok h
          have hnone : s.topics.get tk = none := by
            unfold Map.has at hhas; cases hg : s.topics.get tk <;> simp [hg] at hhas ⊢
          have hk := @set_topic_keep s tk { description := d } (by simp [topicAt, hnone])
          exact Nat.le_succ_of_le (below_of_topics_update hb hk.2 k tp hg)
        | addWriter tn mo d wa oa =>
          rw [hm] at h
          obtain ⟨o', w, tk, wk, _, _, htk, _, _, _, rfl, _⟩ := addWriter_ok h
          have hk := @set_topic_keep s tk { topicAt s tk with totalWriters := wrap64 ((topicAt s tk).totalWriters + 1) } rfl
          exact Nat.le_succ_of_le (below_of_topics_update hb hk.2 k tp hg)
        | deleteWriter tn wa oa =>
          rw [hm] at h
          obtain ⟨o', w, tk, wk, _, _, htk, _, _, rfl, _⟩ := deleteWriter_ok h
          have hk := @set_topic_keep s tk { topicAt s tk with totalWriters := decU64 (topicAt s tk).totalWriters } rfl
          exact Nat.le_succ_of_le (below_of_topics_update hb hk.2 k tp hg)
        | addRecord tn key value wa oa fp =>
          rw [hm] at h
          obtain ⟨o', w, tk, wk, rk, _, _, htk, hhas, _, _, hrk, rfl, _⟩ := addRecord_ok h
          obtain ⟨topic, hget⟩ := (has_eq_true_iff _ _).mp hhas
          have hT : topicAt s tk = topic := topicAt_of_get hget
          have hTB : topic.totalRecords ≤ B := hb tk topic hget
          by_cases hk : k = tk
          · subst hk; rw [Map.get_set_eq] at hg; cases hg
            simp only [hT]
            have := wrap64_lt (topic.totalRecords + 1)
            rw [wrap64_of_lt (by omega : topic.totalRecords + 1 < two64)]; omega
          · rw [Map.get_set_ne _ _ _ _ hk] at hg; have := hb k tp hg; omega
      have ih' := @ih s' (B + 1) hb' (by simp at hB; omega)
      rw [hstep]
      rcases totalRecords_handle hb hB1 o t h with ⟨htg, ⟨oa', hr⟩, htot⟩ | ⟨htg, htot⟩
      · subst hr
        simp only [htg, if_true, List.length_cons]
        rw [List.range'_succ, ← htot]
        congr 1
      · cases r with
        | empty => simp only; rw [← htot]; exact ih'
        | addRecord a b n => simp only [htg]; rw [← htot]; exact ih'
    | err e =>
      have hstep : step c s op = s := by simp [step, h]
      simp only [hstep]
      exact @ih s (B + 1) (fun k t hg => Nat.le_succ_of_le (hb k t hg)) (by simp at hB; omega)
    | panic e =>
      have hstep : step c s op = s := by simp [step, h]
      simp only [hstep]
      exact @ih s (B + 1) (fun k t hg => Nat.le_succ_of_le (hb k t hg)) (by simp at hB; omega)

end Panacea.Aol
