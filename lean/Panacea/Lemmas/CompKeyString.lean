import Panacea.Lemmas.CompKey
/-! String form of composite keys: split/join, decimal offsets, big-endian offsets. -/
namespace Panacea
open CompKey

theorem u8_ofNat_toNat (n : Nat) (h : n < 256) : (UInt8.ofNat n).toNat = n := by
  simp [UInt8.toNat_ofNat']; omega

theorem fromBe64_be64 (n : Nat) (h : n < 18446744073709551616) : fromBe64 (be64 n) = some n := by
  simp only [be64, fromBe64]
  rw [u8_ofNat_toNat _ (Nat.mod_lt _ (by decide)), u8_ofNat_toNat _ (Nat.mod_lt _ (by decide)),
      u8_ofNat_toNat _ (Nat.mod_lt _ (by decide)), u8_ofNat_toNat _ (Nat.mod_lt _ (by decide)),
      u8_ofNat_toNat _ (Nat.mod_lt _ (by decide)), u8_ofNat_toNat _ (Nat.mod_lt _ (by decide)),
      u8_ofNat_toNat _ (Nat.mod_lt _ (by decide)), u8_ofNat_toNat _ (Nat.mod_lt _ (by decide))]
  congr 1
  omega

theorem be64_of_bytes (a b c d e f g i : UInt8) :
    be64 (a.toNat * 72057594037927936 + b.toNat * 281474976710656 + c.toNat * 1099511627776 +
      d.toNat * 4294967296 + e.toNat * 16777216 + f.toNat * 65536 + g.toNat * 256 + i.toNat)
      = [a, b, c, d, e, f, g, i] := by
  have ha := a.toNat_lt; have hb := b.toNat_lt; have hc := c.toNat_lt; have hd' := d.toNat_lt
  have he := e.toNat_lt; have hf' := f.toNat_lt; have hg := g.toNat_lt; have hi := i.toNat_lt
  simp only [be64]
  have e1 : (a.toNat * 72057594037927936 + b.toNat * 281474976710656 + c.toNat * 1099511627776 +
    d.toNat * 4294967296 + e.toNat * 16777216 + f.toNat * 65536 + g.toNat * 256 + i.toNat) / 72057594037927936 % 256 = a.toNat := by omega
  have e2 : (a.toNat * 72057594037927936 + b.toNat * 281474976710656 + c.toNat * 1099511627776 +
    d.toNat * 4294967296 + e.toNat * 16777216 + f.toNat * 65536 + g.toNat * 256 + i.toNat) / 281474976710656 % 256 = b.toNat := by omega
  have e3 : (a.toNat * 72057594037927936 + b.toNat * 281474976710656 + c.toNat * 1099511627776 +
    d.toNat * 4294967296 + e.toNat * 16777216 + f.toNat * 65536 + g.toNat * 256 + i.toNat) / 1099511627776 % 256 = c.toNat := by omega
  have e4 : (a.toNat * 72057594037927936 + b.toNat * 281474976710656 + c.toNat * 1099511627776 +
    d.toNat * 4294967296 + e.toNat * 16777216 + f.toNat * 65536 + g.toNat * 256 + i.toNat) / 4294967296 % 256 = d.toNat := by omega
  have e5 : (a.toNat * 72057594037927936 + b.toNat * 281474976710656 + c.toNat * 1099511627776 +
    d.toNat * 4294967296 + e.toNat * 16777216 + f.toNat * 65536 + g.toNat * 256 + i.toNat) / 16777216 % 256 = e.toNat := by omega
  have e6 : (a.toNat * 72057594037927936 + b.toNat * 281474976710656 + c.toNat * 1099511627776 +
    d.toNat * 4294967296 + e.toNat * 16777216 + f.toNat * 65536 + g.toNat * 256 + i.toNat) / 65536 % 256 = f.toNat := by omega
  have e7 : (a.toNat * 72057594037927936 + b.toNat * 281474976710656 + c.toNat * 1099511627776 +
    d.toNat * 4294967296 + e.toNat * 16777216 + f.toNat * 65536 + g.toNat * 256 + i.toNat) / 256 % 256 = g.toNat := by omega
  have e8 : (a.toNat * 72057594037927936 + b.toNat * 281474976710656 + c.toNat * 1099511627776 +
    d.toNat * 4294967296 + e.toNat * 16777216 + f.toNat * 65536 + g.toNat * 256 + i.toNat) % 256 = i.toNat := by omega
  rw [e1, e2, e3, e4, e5, e6, e7, e8]
  simp

theorem be64_length (n : Nat) : (be64 n).length = 8 := rfl

theorem be64_injective (a b : Nat) (ha : a < 18446744073709551616) (hb : b < 18446744073709551616)
    (h : be64 a = be64 b) : a = b := by
  have h1 := fromBe64_be64 a ha
  have h2 := fromBe64_be64 b hb
  rw [h] at h1; rw [h1] at h2; exact Option.some.inj h2

namespace CompKey

/-! ### split ∘ join -/

theorem splitSlashAux_noslash (p acc : Bytes) (rest : Bytes) (hp : slash ∉ p) :
    splitSlashAux acc (p ++ slash :: rest) = (acc.reverse ++ p) :: splitSlashAux [] rest := by
  induction p generalizing acc with
  | nil => simp [splitSlashAux]
  | cons c cs ih =>
    have hc : c ≠ slash := by intro h; apply hp; simp [h]
    have hcs : slash ∉ cs := by intro h; apply hp; simp [h]
    simp [splitSlashAux, hc, ih _ hcs]

theorem splitSlashAux_noslash_end (p acc : Bytes) (hp : slash ∉ p) :
    splitSlashAux acc p = [acc.reverse ++ p] := by
  induction p generalizing acc with
  | nil => simp [splitSlashAux]
  | cons c cs ih =>
    have hc : c ≠ slash := by intro h; apply hp; simp [h]
    have hcs : slash ∉ cs := by intro h; apply hp; simp [h]
    simp [splitSlashAux, hc, ih _ hcs]

theorem splitSlash_joinSlash (ps : List Bytes) (hne : ps ≠ []) (h : ∀ p ∈ ps, slash ∉ p) :
    splitSlash (joinSlash ps) = ps := by
  induction ps with
  | nil => exact absurd rfl hne
  | cons p ps ih =>
    cases ps with
    | nil =>
      simp only [joinSlash, splitSlash]
      rw [splitSlashAux_noslash_end p [] (h p (by simp))]; simp
    | cons q qs =>
      simp only [joinSlash, splitSlash]
      rw [splitSlashAux_noslash p [] _ (h p (by simp))]
      have := ih (by simp) (fun x hx => h x (by simp [hx]))
      simp only [splitSlash] at this
      simp [this]

/-! ### parse ∘ format for decimal offsets -/

theorem parseUintAux_append (a b : Bytes) (acc : Nat) :
    parseUintAux (a ++ b) acc = (parseUintAux a acc).bind (fun x => parseUintAux b x) := by
  induction a generalizing acc with
  | nil => simp [parseUintAux]
  | cons c cs ih =>
    simp only [List.cons_append, parseUintAux]
    split
    · exact ih _
    · rfl

theorem digit_toNat (d : Nat) (h : d < 10) : (UInt8.ofNat (48 + d)).toNat = 48 + d := by
  simp [UInt8.toNat_ofNat']; omega

theorem arith1 (s d P m : Nat) : (s * 10 + d) * P + m = s * (P * 10) + (d * P + m) := by
  rw [Nat.add_mul, Nat.mul_assoc, Nat.mul_comm 10 P]; omega

/-- Generalised invariant: the digits produced for `n` parse back to `n`, in front of any already
rendered suffix. -/
theorem parse_decDigitsAux : ∀ (fuel n : Nat) (acc : Bytes) (m : Nat), n < fuel →
    (∀ start, parseUintAux acc start = some (start * 10 ^ acc.length + m)) →
    ∀ start, parseUintAux (decDigitsAux fuel n acc) start =
      some (start * 10 ^ (decDigitsAux fuel n acc).length + (n * 10 ^ acc.length + m)) := by
  intro fuel
  induction fuel with
  | zero => intro n acc m h; omega
  | succ fuel ih =>
    intro n acc m hn hacc start
    simp only [decDigitsAux]
    have hd : n % 10 < 10 := Nat.mod_lt _ (by decide)
    have hacc' : ∀ start, parseUintAux (UInt8.ofNat (48 + n % 10) :: acc) start =
        some (start * 10 ^ (UInt8.ofNat (48 + n % 10) :: acc).length + (n % 10 * 10 ^ acc.length + m)) := by
      intro s
      simp only [parseUintAux, digit_toNat _ hd]
      have : 48 ≤ 48 + n % 10 ∧ 48 + n % 10 ≤ 57 := by omega
      simp only [this, and_self, if_true, hacc]
      have h48 : 48 + n % 10 - 48 = n % 10 := by omega
      simp only [h48, List.length_cons, Nat.pow_succ]
      rw [arith1]
    split
    · rename_i h0
      rw [hacc' start]
      have : n = n % 10 := by omega
      congr 2
      rw [← this]
    · rename_i h0
      have hlt : n / 10 < fuel := by omega
      have := ih (n / 10) _ (n % 10 * 10 ^ acc.length + m) hlt hacc' start
      rw [this]
      congr 2
      simp only [List.length_cons, Nat.pow_succ]
      have h10 : n = n / 10 * 10 + n % 10 := by omega
      rw [← arith1, ← h10]

theorem decDigitsAux_ne_nil (fuel n : Nat) (acc : Bytes) (h : 0 < fuel) : decDigitsAux fuel n acc ≠ [] := by
  cases fuel with
  | zero => omega
  | succ f =>
    simp only [decDigitsAux]
    split
    · simp
    · cases f with
      | zero => rename_i h0; simp [decDigitsAux]
      | succ f' =>
        intro hnil
        have : ∀ (k : Nat) (x : Nat) (a : Bytes), a ≠ [] → decDigitsAux k x a ≠ [] := by
          intro k
          induction k with
          | zero => intro x a ha; simpa [decDigitsAux] using ha
          | succ k ih =>
            intro x a ha
            simp only [decDigitsAux]
            split
            · simp
            · exact ih _ _ (by simp)
        exact this _ _ _ (by simp) hnil

theorem parseUint64_formatUint (n : Nat) (h : n < 2 ^ 64) : parseUint64 (formatUint n) = some n := by
  unfold parseUint64 formatUint
  have hne := decDigitsAux_ne_nil (n + 1) n [] (by omega)
  simp only [hne, if_false]
  have := parse_decDigitsAux (n + 1) n [] 0 (by omega) (by intro s; simp [parseUintAux]) 0
  simp at this
  rw [this]
  simp [h]

/-- The decimal rendering contains only digits, in particular no `/`. -/
theorem decDigitsAux_noslash (fuel n : Nat) (acc : Bytes) (h : slash ∉ acc) : slash ∉ decDigitsAux fuel n acc := by
  induction fuel generalizing n acc with
  | zero => simpa [decDigitsAux] using h
  | succ fuel ih =>
    simp only [decDigitsAux]
    have hd : n % 10 < 10 := Nat.mod_lt _ (by decide)
    have hnew : slash ∉ UInt8.ofNat (48 + n % 10) :: acc := by
      intro hm
      rcases List.mem_cons.mp hm with h1 | h1
      · have := congrArg UInt8.toNat h1
        rw [digit_toNat _ hd] at this
        simp [slash] at this
        omega
      · exact h h1
    split
    · exact hnew
    · exact ih _ _ hnew

theorem formatUint_noslash (n : Nat) : slash ∉ formatUint n :=
  decDigitsAux_noslash _ _ _ (by simp)

end CompKey
end Panacea
