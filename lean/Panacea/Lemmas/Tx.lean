import Panacea.Model.Tx
import Panacea.Lemmas.KV
/-! Facts about the transaction pipeline model. -/
namespace Panacea.Tx
open Panacea CompKey Validate

/-- custom-module handlers never touch accounts, the fee collector or grants -/
theorem runInner_bank {e : Env} {s s' : State} {m : Inner} (h : runInner e s m = .ok s') :
    s'.accounts = s.accounts ∧ s'.feeCollector = s.feeCollector ∧ s'.grants = s.grants := by
  cases m with
  | aol m =>
    simp only [runInner] at h
    cases hh : Aol.handle e.codec e.now s.aol m with
    | ok p => simp [hh] at h; subst h; exact ⟨rfl, rfl, rfl⟩
    | err c => simp [hh] at h
    | panic p => simp [hh] at h
  | did m =>
    simp only [runInner] at h
    cases hh : Did.handle e.crypto s.did m with
    | ok p => simp [hh] at h; subst h; exact ⟨rfl, rfl, rfl⟩
    | err c => simp [hh] at h
    | panic p => simp [hh] at h
  | pnft m =>
    simp only [runInner] at h
    cases hh : Pnft.handle e.codec e.now s.pnft m with
    | ok p => simp [hh] at h; subst h; exact ⟨rfl, rfl, rfl⟩
    | err c => simp [hh] at h
    | panic p => simp [hh] at h

theorem dispatch_bank {e : Env} {g : Bytes} : ∀ {msgs : List Inner} {s s' : State}, dispatch e g s msgs = .ok s' →
    s'.accounts = s.accounts ∧ s'.feeCollector = s.feeCollector ∧ s'.grants = s.grants := by
  intro msgs
  induction msgs with
  | nil => intro s s' h; simp [dispatch] at h; subst h; exact ⟨rfl, rfl, rfl⟩
  | cons m rest ih =>
    intro s s' h
    simp only [dispatch] at h
    cases hs : innerSigners e m with
    | ok l =>
      simp only [hs] at h
      match l, h with
      | [granter], h =>
        simp only at h
        split at h
        · simp at h
        · cases hr : runInner e s m with
          | ok s1 =>
            simp only [hr] at h
            obtain ⟨a, b, c⟩ := runInner_bank hr
            obtain ⟨a', b', c'⟩ := ih h
            exact ⟨a'.trans a, b'.trans b, c'.trans c⟩
          | err c => simp [hr] at h
          | panic p => simp [hr] at h
      | [], h => simp at h
      | _ :: _ :: _, h => simp at h
    | err c => simp [hs] at h
    | panic p => simp [hs] at h

theorem runMsg_bank {e : Env} {s s' : State} {m : AnyMsg} (h : runMsg e s m = .ok s') :
    s'.accounts = s.accounts ∧ s'.feeCollector = s.feeCollector ∧ s'.grants = s.grants := by
  cases m with
  | plain m => exact runInner_bank h
  | exec g msgs =>
    simp only [runMsg] at h
    cases hd : e.codec.dec g with
    | none => simp [hd] at h
    | some gg => simp only [hd] at h; exact dispatch_bank h

theorem runMsgs_bank {e : Env} : ∀ {msgs : List AnyMsg} {s s' : State}, runMsgs e s msgs = .ok s' →
    s'.accounts = s.accounts ∧ s'.feeCollector = s.feeCollector ∧ s'.grants = s.grants := by
  intro msgs
  induction msgs with
  | nil => intro s s' h; simp [runMsgs] at h; subst h; exact ⟨rfl, rfl, rfl⟩
  | cons m rest ih =>
    intro s s' h
    simp only [runMsgs] at h
    cases hr : runMsg e s m with
    | ok s1 =>
      simp only [hr] at h
      obtain ⟨a, b, c⟩ := runMsg_bank hr
      obtain ⟨a', b', c'⟩ := ih h
      exact ⟨a'.trans a, b'.trans b, c'.trans c⟩
    | err c => simp [hr] at h
    | panic p => simp [hr] at h

/-- What a successful ante did. -/
theorem ante_ok {s s1 : State} {tx : Tx} {signers : List Bytes} (h : ante s tx signers = .ok s1) :
    ∃ payer pacc, feePayer tx signers = some payer ∧ s.accounts.get payer = some pacc ∧ tx.fee ≤ pacc.balance ∧
      tx.sigs.length = signers.length ∧
      (∀ p ∈ signers.zip tx.sigs, p.2.signer = p.1 ∧ p.2.valid = true ∧
        ∃ acc, (s.accounts.set payer { pacc with balance := pacc.balance - tx.fee }).get p.1 = some acc ∧ p.2.sequence = acc.sequence) ∧
      s1 = { s with accounts := bumpSeqs (s.accounts.set payer { pacc with balance := pacc.balance - tx.fee }) signers,
                    feeCollector := s.feeCollector + tx.fee } := by
  unfold ante at h
  cases hp : feePayer tx signers with
  | none => simp [hp] at h
  | some payer =>
    simp only [hp] at h
    cases hg : s.accounts.get payer with
    | none => simp [hg] at h
    | some pacc =>
      simp only [hg] at h
      split at h
      · simp at h
      · rename_i hbal
        split at h
        · simp at h
        · rename_i hlen
          split at h
          · simp at h
          · rename_i hsig
            simp at h
            refine ⟨payer, pacc, rfl, hg, by omega, by simpa using hlen, ?_, h.symm⟩
            intro p hp
            have hs2 := hsig
            simp at hs2
            have := hs2 p.1 p.2 hp
            cases hacc : (s.accounts.set payer { pacc with balance := pacc.balance - tx.fee }).get p.1 with
            | none => simp [hacc] at this
            | some acc =>
              simp [hacc] at this
              exact ⟨this.1.1, this.1.2, acc, rfl, this.2⟩

/-- sequence bumps never change a balance -/
theorem bumpSeqs_balance (signers : List Bytes) : ∀ (m : Map Account) (a : Bytes),
    (((bumpSeqs m signers).get a).getD {}).balance = ((m.get a).getD {}).balance := by
  induction signers with
  | nil => intro m a; rfl
  | cons x rest ih =>
    intro m a
    simp only [bumpSeqs]
    rw [ih]
    by_cases hx : a = x
    · subst hx; rw [Map.get_set_eq]; rfl
    · rw [Map.get_set_ne _ _ _ _ hx]

end Panacea.Tx
