import Panacea.Model.Did
/-! Protobuf varints form a prefix code; the DID sign bytes are injective in (data, sequence). -/
namespace Panacea.Did
open Panacea

theorem u8_toNat_ofNat_lt (n : Nat) (h : n < 256) : (UInt8.ofNat n).toNat = n := by
  simp [UInt8.toNat_ofNat']; omega

theorem varintAux_prefix_free : ∀ (fuel a b : Nat) (x y : Bytes), a < fuel → b < fuel →
    varintAux fuel a ++ x = varintAux fuel b ++ y → a = b ∧ x = y := by
  intro fuel
  induction fuel with
  | zero => intro a b x y ha; omega
  | succ fuel ih =>
    intro a b x y ha hb h
    simp only [varintAux] at h
    by_cases ha1 : a < 128
    · by_cases hb1 : b < 128
      · simp only [ha1, hb1, if_true, List.cons_append, List.nil_append, List.cons.injEq] at h
        have := congrArg UInt8.toNat h.1
        rw [u8_toNat_ofNat_lt _ (by omega), u8_toNat_ofNat_lt _ (by omega)] at this
        exact ⟨this, h.2⟩
      · simp only [ha1, hb1, if_true, if_false, List.cons_append, List.nil_append, List.cons.injEq] at h
        have := congrArg UInt8.toNat h.1
        rw [u8_toNat_ofNat_lt _ (by omega), u8_toNat_ofNat_lt _ (by omega)] at this
        omega
    · by_cases hb1 : b < 128
      · simp only [ha1, hb1, if_true, if_false, List.cons_append, List.nil_append, List.cons.injEq] at h
        have := congrArg UInt8.toNat h.1
        rw [u8_toNat_ofNat_lt _ (by omega), u8_toNat_ofNat_lt _ (by omega)] at this
        omega
      · simp only [ha1, hb1, if_false, List.cons_append, List.cons.injEq] at h
        have h1 := congrArg UInt8.toNat h.1
        rw [u8_toNat_ofNat_lt _ (by omega), u8_toNat_ofNat_lt _ (by omega)] at h1
        obtain ⟨h2, h3⟩ := ih (a / 128) (b / 128) x y (by omega) (by omega) h.2
        exact ⟨by omega, h3⟩

theorem varintAux_fuel : ∀ (fuel fuel' n : Nat), n < fuel → n < fuel' → varintAux fuel n = varintAux fuel' n := by
  intro fuel
  induction fuel with
  | zero => intro f n h; omega
  | succ fuel ih =>
    intro fuel' n h h'
    cases fuel' with
    | zero => omega
    | succ fuel' =>
      simp only [varintAux]
      split
      · rfl
      · rw [ih fuel' (n / 128) (by omega) (by omega)]

theorem varint_prefix_free (a b : Nat) (x y : Bytes) (h : varint a ++ x = varint b ++ y) : a = b ∧ x = y := by
  unfold varint at h
  rw [varintAux_fuel (a + 1) (a + b + 1) a (by omega) (by omega),
      varintAux_fuel (b + 1) (a + b + 1) b (by omega) (by omega)] at h
  exact varintAux_prefix_free _ a b x y (by omega) (by omega) h

theorem varint_injective (a b : Nat) (h : varint a = varint b) : a = b :=
  (varint_prefix_free a b [] [] (by simpa using h)).1

/-- The bytes a DID key holder signs determine both the signed content and the sequence number. -/
theorem signBytes_injective (d d' : Bytes) (s s' : Nat) (h : signBytes d s = signBytes d' s') : d = d' ∧ s = s' := by
  unfold signBytes at h
  by_cases hd : d = []
  · by_cases hd' : d' = []
    · subst hd hd'
      refine ⟨rfl, ?_⟩
      by_cases hs : s = 0
      · by_cases hs' : s' = 0
        · omega
        · simp [hs, hs'] at h
      · by_cases hs' : s' = 0
        · simp [hs, hs'] at h
        · simp [hs, hs'] at h; exact varint_injective _ _ h
    · subst hd
      exfalso
      by_cases hs : s = 0
      · simp [hs, hd'] at h
      · simp [hs, hd'] at h
  · by_cases hd' : d' = []
    · subst hd'
      exfalso
      by_cases hs' : s' = 0
      · simp [hs', hd] at h
      · simp [hs', hd] at h
    · simp only [hd, hd', if_false, List.cons_append, List.cons.injEq, true_and, List.append_assoc] at h
      obtain ⟨hl, hrest⟩ := varint_prefix_free _ _ _ _ h
      have := List.append_inj hrest hl
      refine ⟨this.1, ?_⟩
      have ht := this.2
      by_cases hs : s = 0
      · by_cases hs' : s' = 0
        · omega
        · simp [hs, hs'] at ht
      · by_cases hs' : s' = 0
        · simp [hs, hs'] at ht
        · simp [hs, hs'] at ht; exact varint_injective _ _ ht

end Panacea.Did
