import Panacea.Lemmas.Aol
/-! The record/counter invariant of x/aol and its preservation (used by C01 and C13). -/
namespace Panacea.Aol
open Panacea CompKey

def two64 : Nat := 18446744073709551616

/-- Records and `total_records` agree: for every topic the stored offsets are exactly
`[0, total_records)`, records exist only under existing topics, counters are `uint64` values. -/
structure RecInv (s : State) : Prop where
  sound : ∀ o t n rk, n < two64 → encode [o, t, be64 n] = some rk → s.records.has rk = true →
    ∃ tk topic, encode [o, t] = some tk ∧ s.topics.get tk = some topic ∧ n < topic.totalRecords
  complete : ∀ o t tk topic n rk, encode [o, t] = some tk → s.topics.get tk = some topic →
    n < topic.totalRecords → encode [o, t, be64 n] = some rk → s.records.has rk = true
  bounded : ∀ tk topic, s.topics.get tk = some topic → topic.totalRecords < two64

/-- Every `total_records` counter is at most `B`. -/
def Below (s : State) (B : Nat) : Prop := ∀ tk topic, s.topics.get tk = some topic → topic.totalRecords ≤ B

theorem encode2_inj {o t o' t' : Bytes} {k : Bytes} (h : encode [o, t] = some k) (h' : encode [o', t'] = some k) :
    o = o' ∧ t = t' := by
  have h1 := decode_encode' _ _ h
  have h2 := decode_encode' _ _ h'
  rw [h1] at h2; simp at h2; exact h2

theorem encode3_inj {o t x o' t' x' : Bytes} {k : Bytes} (h : encode [o, t, x] = some k)
    (h' : encode [o', t', x'] = some k) : o = o' ∧ t = t' ∧ x = x' := by
  have h1 := decode_encode' _ _ h
  have h2 := decode_encode' _ _ h'
  rw [h1] at h2; simp at h2; exact h2

theorem recordKey_inj {o t o' t' : Bytes} {n n' : Nat} {k : Bytes} (hn : n < two64) (hn' : n' < two64)
    (h : encode [o, t, be64 n] = some k) (h' : encode [o', t', be64 n'] = some k) : o = o' ∧ t = t' ∧ n = n' := by
  obtain ⟨a, b, c⟩ := encode3_inj h h'
  exact ⟨a, b, be64_injective n n' hn hn' c⟩

theorem wrap64_lt (n : Nat) : wrap64 n < two64 := Nat.mod_lt _ (by decide)
theorem wrap64_of_lt {n : Nat} (h : n < two64) : wrap64 n = n := Nat.mod_eq_of_lt h

theorem has_eq_true_iff {V} (m : Map V) (k : Bytes) : m.has k = true ↔ ∃ v, m.get k = some v := by
  unfold Map.has; cases m.get k <;> simp

theorem topicAt_of_get {s : State} {tk : Bytes} {topic : Topic} (h : s.topics.get tk = some topic) :
    topicAt s tk = topic := by simp [topicAt, h]

theorem recInv_empty : RecInv {} := by
  refine ⟨?_, ?_, ?_⟩
  · intro o t n rk _ _ h; simp [Map.has, Map.get] at h
  · intro o t tk topic n rk _ h; simp [Map.get] at h
  · intro tk topic h; simp [Map.get] at h

/-- A topic table update that keeps every `total_records` and does not remove topics preserves the
invariant when records are untouched. -/
theorem recInv_of_topics_update {s : State} {topics' : Map Topic} {owners' : Map Owner} {writers' : Map Writer}
    (hi : RecInv s)
    (hkeep : ∀ tk topic, s.topics.get tk = some topic → ∃ topic', topics'.get tk = some topic' ∧ topic'.totalRecords = topic.totalRecords)
    (hnew : ∀ tk topic', topics'.get tk = some topic' →
      (∃ topic, s.topics.get tk = some topic ∧ topic'.totalRecords = topic.totalRecords) ∨
      (s.topics.get tk = none ∧ topic'.totalRecords = 0)) :
    RecInv { s with topics := topics', owners := owners', writers := writers' } := by
  refine ⟨?_, ?_, ?_⟩
  · intro o t n rk hn hrk hhas
    obtain ⟨tk, topic, htk, hget, hlt⟩ := hi.sound o t n rk hn hrk hhas
    obtain ⟨topic', hg', he⟩ := hkeep tk topic hget
    exact ⟨tk, topic', htk, hg', by omega⟩
  · intro o t tk topic' n rk htk hget hlt hrk
    rcases hnew tk topic' hget with ⟨topic, hg, he⟩ | ⟨_, h0⟩
    · exact hi.complete o t tk topic n rk htk hg (by omega) hrk
    · omega
  · intro tk topic' hget
    rcases hnew tk topic' hget with ⟨topic, hg, he⟩ | ⟨_, h0⟩
    · have := hi.bounded tk topic hg; omega
    · rw [h0]; decide

theorem below_of_topics_update {s : State} {topics' : Map Topic} {B : Nat} (hb : Below s B)
    (hnew : ∀ tk topic', topics'.get tk = some topic' →
      (∃ topic, s.topics.get tk = some topic ∧ topic'.totalRecords = topic.totalRecords) ∨
      (s.topics.get tk = none ∧ topic'.totalRecords = 0)) :
    ∀ tk topic', topics'.get tk = some topic' → topic'.totalRecords ≤ B := by
  intro tk topic' hget
  rcases hnew tk topic' hget with ⟨topic, hg, he⟩ | ⟨_, h0⟩
  · have := hb tk topic hg; omega
  · omega

/-- Setting one topic entry to a value with the same `total_records` (or a fresh one with 0). -/
theorem set_topic_keep {s : State} {tk : Bytes} {new : Topic}
    (h : new.totalRecords = (topicAt s tk).totalRecords) :
    (∀ k topic, s.topics.get k = some topic → ∃ topic', (s.topics.set tk new).get k = some topic' ∧ topic'.totalRecords = topic.totalRecords) ∧
    (∀ k topic', (s.topics.set tk new).get k = some topic' →
      (∃ topic, s.topics.get k = some topic ∧ topic'.totalRecords = topic.totalRecords) ∨
      (s.topics.get k = none ∧ topic'.totalRecords = 0)) := by
  constructor
  · intro k topic hg
    by_cases hk : k = tk
    · subst hk
      exact ⟨new, Map.get_set_eq _ _ _, by rw [h, topicAt_of_get hg]⟩
    · exact ⟨topic, by rw [Map.get_set_ne _ _ _ _ hk]; exact hg, rfl⟩
  · intro k topic' hg
    by_cases hk : k = tk
    · subst hk
      rw [Map.get_set_eq] at hg; cases hg
      cases hs : s.topics.get k with
      | none => right; exact ⟨rfl, by rw [h]; simp [topicAt, hs]⟩
      | some topic => left; exact ⟨topic, rfl, by rw [h, topicAt_of_get hs]⟩
    · rw [Map.get_set_ne _ _ _ _ hk] at hg
      left; exact ⟨topic', hg, rfl⟩

/-- One message preserves the invariant, as long as no counter is about to overflow. -/
theorem recInv_handle {c : AddrCodec} {now : Int} {s s' : State} {m : Msg} {r : Resp} {B : Nat}
    (hi : RecInv s) (hb : Below s B) (hB : B + 1 < two64)
    (h : handle c now s m = .ok (s', r)) : RecInv s' ∧ Below s' (B + 1) := by
  cases m with
  | createTopic tn d oa =>
    obtain ⟨o, tk, ok, _, htk, hhas, _, rfl, _⟩ := createTopic_ok h
    have hnone : s.topics.get tk = none := by
      unfold Map.has at hhas; cases hg : s.topics.get tk <;> simp [hg] at hhas ⊢
    have hk := @set_topic_keep s tk { description := d } (by simp [topicAt, hnone])
    exact ⟨recInv_of_topics_update hi hk.1 hk.2,
      fun k t hg => Nat.le_succ_of_le (below_of_topics_update hb hk.2 k t hg)⟩
  | addWriter tn mo d wa oa =>
    obtain ⟨o, w, tk, wk, _, _, htk, _, _, _, rfl, _⟩ := addWriter_ok h
    have hk := @set_topic_keep s tk { topicAt s tk with totalWriters := wrap64 ((topicAt s tk).totalWriters + 1) } rfl
    exact ⟨recInv_of_topics_update hi hk.1 hk.2,
      fun k t hg => Nat.le_succ_of_le (below_of_topics_update hb hk.2 k t hg)⟩
  | deleteWriter tn wa oa =>
    obtain ⟨o, w, tk, wk, _, _, htk, _, _, rfl, _⟩ := deleteWriter_ok h
    have hk := @set_topic_keep s tk { topicAt s tk with totalWriters := decU64 (topicAt s tk).totalWriters } rfl
    exact ⟨recInv_of_topics_update hi hk.1 hk.2,
      fun k t hg => Nat.le_succ_of_le (below_of_topics_update hb hk.2 k t hg)⟩
  | addRecord tn key value wa oa fp =>
    obtain ⟨o, w, tk, wk, rk, _, _, htk, hhas, _, _, hrk, rfl, _⟩ := addRecord_ok h
    obtain ⟨topic, hget⟩ := (has_eq_true_iff _ _).mp hhas
    have hT : topicAt s tk = topic := topicAt_of_get hget
    rw [hT] at hrk ⊢
    have hTB : topic.totalRecords ≤ B := hb tk topic hget
    have hw : wrap64 (topic.totalRecords + 1) = topic.totalRecords + 1 := wrap64_of_lt (by omega)
    rw [hw]
    refine ⟨⟨?_, ?_, ?_⟩, ?_⟩
    · -- sound
      intro o' t' n rk' hn hrk' hhas'
      simp only [Map.has_set] at hhas'
      by_cases he : rk' = rk
      · subst he
        obtain ⟨h1, h2, h3⟩ := recordKey_inj hn (by omega) hrk' hrk
        subst h1 h2 h3
        exact ⟨tk, _, htk, Map.get_set_eq _ _ _, by simp⟩
      · simp [he] at hhas'
        obtain ⟨tk', topic', htk', hg', hlt⟩ := hi.sound o' t' n rk' hn hrk' hhas'
        by_cases hk : tk' = tk
        · subst hk
          rw [hget] at hg'; cases hg'
          exact ⟨tk', _, htk', Map.get_set_eq _ _ _, by simp; omega⟩
        · exact ⟨tk', topic', htk', by rw [Map.get_set_ne _ _ _ _ hk]; exact hg', hlt⟩
    · -- complete
      intro o' t' tk' topic' n rk' htk' hg' hlt hrk'
      simp only [Map.has_set]
      by_cases hk : tk' = tk
      · subst hk
        rw [Map.get_set_eq] at hg'; cases hg'
        simp at hlt
        obtain ⟨h1, h2⟩ := encode2_inj htk' htk
        subst h1 h2
        by_cases hn : n = topic.totalRecords
        · subst hn; rw [hrk] at hrk'; cases hrk'; simp
        · have := hi.complete o' t' tk' topic n rk' htk' hget (by omega) hrk'
          simp [this]
      · rw [Map.get_set_ne _ _ _ _ hk] at hg'
        have := hi.complete o' t' tk' topic' n rk' htk' hg' hlt hrk'
        simp [this]
    · -- bounded
      intro k t hg
      by_cases hk : k = tk
      · subst hk; rw [Map.get_set_eq] at hg; cases hg; simp; omega
      · rw [Map.get_set_ne _ _ _ _ hk] at hg; exact hi.bounded k t hg
    · intro k t hg
      by_cases hk : k = tk
      · subst hk; rw [Map.get_set_eq] at hg; cases hg; simp; omega
      · rw [Map.get_set_ne _ _ _ _ hk] at hg; have := hb k t hg; omega

theorem recInv_step {c : AddrCodec} {s : State} {op : Int × Msg} {B : Nat}
    (hi : RecInv s) (hb : Below s B) (hB : B + 1 < two64) :
    RecInv (step c s op) ∧ Below (step c s op) (B + 1) := by
  unfold step
  cases h : handle c op.1 s op.2 with
  | ok p => obtain ⟨s', r⟩ := p; exact recInv_handle hi hb hB h
  | err e => exact ⟨hi, fun k t hg => Nat.le_succ_of_le (hb k t hg)⟩
  | panic e => exact ⟨hi, fun k t hg => Nat.le_succ_of_le (hb k t hg)⟩

/-- A stored record is never changed or removed by a message. -/
theorem record_frame_handle {c : AddrCodec} {now : Int} {s s' : State} {m : Msg} {r : Resp} {B : Nat}
    (hi : RecInv s) (hb : Below s B) (hB : B + 1 < two64)
    (h : handle c now s m = .ok (s', r)) (k : Bytes) (rec : Record) (hk : s.records.get k = some rec) :
    s'.records.get k = some rec := by
  cases m with
  | addRecord tn key value wa oa fp =>
    obtain ⟨o, w, tk, wk, rk, _, _, htk, hhas, _, _, hrk, rfl, _⟩ := addRecord_ok h
    obtain ⟨topic, hget⟩ := (has_eq_true_iff _ _).mp hhas
    have hT : topicAt s tk = topic := topicAt_of_get hget
    rw [hT] at hrk
    have hne : k ≠ rk := by
      intro he; subst he
      have hb' := hi.bounded tk topic hget
      obtain ⟨tk', topic', htk', hg', hlt⟩ := hi.sound o tn topic.totalRecords k hb' hrk
        ((has_eq_true_iff _ _).mpr ⟨rec, hk⟩)
      rw [htk] at htk'; cases htk'
      rw [hget] at hg'; cases hg'
      omega
    simp only
    rw [Map.get_set_ne _ _ _ _ hne]; exact hk
  | createTopic tn d oa =>
    rw [records_unchanged_of_not_addRecord h (by intros; simp)]; exact hk
  | addWriter tn mo d wa oa =>
    rw [records_unchanged_of_not_addRecord h (by intros; simp)]; exact hk
  | deleteWriter tn wa oa =>
    rw [records_unchanged_of_not_addRecord h (by intros; simp)]; exact hk

theorem record_frame_step {c : AddrCodec} {s : State} {op : Int × Msg} {B : Nat}
    (hi : RecInv s) (hb : Below s B) (hB : B + 1 < two64)
    (k : Bytes) (rec : Record) (hk : s.records.get k = some rec) :
    (step c s op).records.get k = some rec := by
  unfold step
  cases h : handle c op.1 s op.2 with
  | ok p => obtain ⟨s', r⟩ := p; exact record_frame_handle hi hb hB h k rec hk
  | err e => exact hk
  | panic e => exact hk

theorem record_frame_run {c : AddrCodec} (ops : List (Int × Msg)) : ∀ {s : State} {B : Nat},
    RecInv s → Below s B → B + ops.length < two64 →
    ∀ (k : Bytes) (rec : Record), s.records.get k = some rec → (run c s ops).records.get k = some rec := by
  induction ops with
  | nil => intro s B _ _ _ k rec hk; exact hk
  | cons op ops ih =>
    intro s B hi hb hB k rec hk
    simp only [run, List.foldl_cons]
    have hB1 : B + 1 < two64 := by simp at hB; omega
    obtain ⟨hi', hb'⟩ := @recInv_step c s op B hi hb hB1
    exact ih hi' hb' (by simp at hB; omega) k rec (record_frame_step hi hb hB1 k rec hk)

theorem recInv_run {c : AddrCodec} (ops : List (Int × Msg)) : ∀ {s : State} {B : Nat},
    RecInv s → Below s B → B + ops.length < two64 →
    RecInv (run c s ops) ∧ Below (run c s ops) (B + ops.length) := by
  induction ops with
  | nil => intro s B hi hb _; exact ⟨hi, hb⟩
  | cons op ops ih =>
    intro s B hi hb hB
    simp only [run, List.foldl_cons]
    have hB1 : B + 1 < two64 := by simp at hB; omega
    obtain ⟨hi', hb'⟩ := @recInv_step c s op B hi hb hB1
    have := ih hi' hb' (by simp at hB; omega)
    simp only [List.length_cons]
    rw [show B + (ops.length + 1) = B + 1 + ops.length by omega]
    exact this

end Panacea.Aol
