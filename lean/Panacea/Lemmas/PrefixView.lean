import Panacea.Lemmas.KV
/-! `prefixView` (the iteration source of a `prefix.Store`): membership, and how `set`/`del` change it. -/
namespace Panacea.Map
variable {V : Type}

theorem isPrefixOf_iff' (p l : Bytes) : p.isPrefixOf l = true ↔ p <+: l := List.isPrefixOf_iff_prefix

theorem mem_prefixView {m : Map V} {p k' : Bytes} {v : V} :
    (k', v) ∈ m.prefixView p ↔ (p ++ k', v) ∈ m := by
  unfold prefixView
  simp only [List.mem_map, List.mem_filter]
  constructor
  · rintro ⟨⟨k, w⟩, ⟨hm, hp⟩, he⟩
    simp only [Prod.mk.injEq] at he
    obtain ⟨rfl, rfl⟩ := he
    obtain ⟨r, rfl⟩ := (isPrefixOf_iff' _ _).mp hp
    simpa using hm
  · intro h
    exact ⟨(p ++ k', v), ⟨h, (isPrefixOf_iff' _ _).mpr (List.prefix_append _ _)⟩, by simp⟩

theorem mem_of_get {m : Map V} {k : Bytes} {v : V} (h : m.get k = some v) : (k, v) ∈ m := by
  induction m with
  | nil => simp [get] at h
  | cons e m ih =>
    obtain ⟨k0, v0⟩ := e
    simp only [get] at h
    split at h
    · rename_i he; subst he; simp at h; subst h; simp
    · exact List.mem_cons_of_mem _ (ih h)

theorem get_of_mem_sorted {m : Map V} (hs : m.Sorted) {k : Bytes} {v : V} (h : (k, v) ∈ m) : m.get k = some v := by
  induction m with
  | nil => simp at h
  | cons e m ih =>
    obtain ⟨k0, v0⟩ := e
    unfold Sorted keys at hs ih
    simp only [List.map_cons, List.pairwise_cons] at hs
    simp only [get]
    rcases List.mem_cons.mp h with he | hm
    · cases he; simp
    · have hlt := hs.1 k (List.mem_map.mpr ⟨(k, v), hm, rfl⟩)
      have : k0 ≠ k := Bytes.lt_ne _ _ hlt
      simp [this, ih hs.2 hm]

/-- number of keys with prefix `p` -/
def countP (p : Bytes) (ks : List Bytes) : Nat := (ks.filter (fun k => p.isPrefixOf k)).length

theorem prefixView_length (m : Map V) (p : Bytes) : (m.prefixView p).length = countP p m.keys := by
  unfold prefixView countP keys
  simp only [List.length_map]
  induction m with
  | nil => rfl
  | cons e m ih => simp only [List.filter_cons, List.map_cons]; split <;> simp [ih]

theorem countP_append (p : Bytes) (a b : List Bytes) : countP p (a ++ b) = countP p a + countP p b := by
  simp [countP, List.filter_append]

theorem countP_cons (p k : Bytes) (b : List Bytes) :
    countP p (k :: b) = (if p.isPrefixOf k then 1 else 0) + countP p b := by
  simp only [countP, List.filter_cons]; split <;> simp <;> omega

/-- shape of the key list after inserting a fresh key -/
theorem keys_set_fresh (m : Map V) (k : Bytes) (v : V) (hf : m.get k = none) :
    ∃ l1 l2, m.keys = l1 ++ l2 ∧ (m.set k v).keys = l1 ++ k :: l2 := by
  induction m with
  | nil => exact ⟨[], [], rfl, rfl⟩
  | cons e m ih =>
    obtain ⟨k0, v0⟩ := e
    simp only [get] at hf
    split at hf
    · simp at hf
    · rename_i hne
      simp only [set, hne, if_false]
      split
      · exact ⟨[], k0 :: keys m, rfl, rfl⟩
      · obtain ⟨l1, l2, h1, h2⟩ := ih hf
        exact ⟨k0 :: l1, l2, by simp [keys] at h1 ⊢; exact h1, by simp [keys] at h2 ⊢; exact h2⟩

/-- replacing the value of an existing key of a sorted map keeps the key list -/
theorem keys_set_existing (m : Map V) (k : Bytes) (v : V) (hs : m.Sorted) (hf : (m.get k).isSome = true) :
    (m.set k v).keys = m.keys := by
  induction m with
  | nil => simp [get] at hf
  | cons e m ih =>
    obtain ⟨k0, v0⟩ := e
    unfold Sorted keys at hs ih
    simp only [List.map_cons, List.pairwise_cons] at hs
    simp only [get] at hf
    by_cases he : k0 = k
    · subst he; simp [set, keys]
    · simp only [he, if_false] at hf
      have hmem : k ∈ keys m := (get_isSome_iff_mem_keys m k).mp hf
      have hlt : Bytes.lt k0 k = true := hs.1 k hmem
      have hnlt : Bytes.lt k k0 = false := Bytes.lt_asymm _ _ hlt
      simp only [set, he, if_false, hnlt, Bool.false_eq_true]
      simp only [keys, List.map_cons] at ih ⊢
      rw [ih hs.2 hf]

/-- shape of the key list after deleting a present key of a sorted map -/
theorem keys_del_present (m : Map V) (k : Bytes) (hs : m.Sorted) (hf : (m.get k).isSome = true) :
    ∃ l1 l2, m.keys = l1 ++ k :: l2 ∧ (m.del k).keys = l1 ++ l2 := by
  induction m with
  | nil => simp [get] at hf
  | cons e m ih =>
    obtain ⟨k0, v0⟩ := e
    unfold Sorted keys at hs ih
    simp only [List.map_cons, List.pairwise_cons] at hs
    simp only [get] at hf
    by_cases he : k0 = k
    · subst he
      refine ⟨[], keys m, rfl, ?_⟩
      -- the rest of a sorted map does not contain k0 again
      have hnone : ∀ (m' : Map V), (∀ a ∈ keys m', Bytes.lt k0 a = true) → del m' k0 = m' := by
        intro m'
        induction m' with
        | nil => intro _; rfl
        | cons e' m' ih' =>
          obtain ⟨k1, v1⟩ := e'
          intro hall
          have : k1 ≠ k0 := (Bytes.lt_ne _ _ (hall k1 (by simp [keys]))).symm
          simp only [del, this, if_false]
          rw [ih' (fun a ha => hall a (by simp [keys] at ha ⊢; exact Or.inr ha))]
      simp only [del, if_true]
      rw [hnone m hs.1]; rfl
    · simp only [he, if_false] at hf
      obtain ⟨l1, l2, h1, h2⟩ := ih hs.2 hf
      refine ⟨k0 :: l1, l2, ?_, ?_⟩
      · simp only [keys, List.map_cons] at h1 ⊢; simp [h1]
      · simp only [del, he, if_false, keys, List.map_cons] at h2 ⊢; simp [h2]

theorem count_set_fresh (m : Map V) (k : Bytes) (v : V) (p : Bytes) (hf : m.get k = none) :
    countP p (m.set k v).keys = countP p m.keys + (if p.isPrefixOf k then 1 else 0) := by
  obtain ⟨l1, l2, h1, h2⟩ := keys_set_fresh m k v hf
  rw [h1, h2, countP_append, countP_append, countP_cons]; omega

theorem count_set_existing (m : Map V) (k : Bytes) (v : V) (p : Bytes) (hs : m.Sorted)
    (hf : (m.get k).isSome = true) : countP p (m.set k v).keys = countP p m.keys := by
  rw [keys_set_existing m k v hs hf]

theorem count_del_present (m : Map V) (k : Bytes) (p : Bytes) (hs : m.Sorted) (hf : (m.get k).isSome = true) :
    countP p (m.del k).keys + (if p.isPrefixOf k then 1 else 0) = countP p m.keys := by
  obtain ⟨l1, l2, h1, h2⟩ := keys_del_present m k hs hf
  rw [h1, h2, countP_append, countP_append, countP_cons]; omega

end Panacea.Map
