import Panacea.Lemmas.Aol
import Panacea.Properties.C08
/-!
# Every reachable AOL state has admitted keys

The hypothesis of the genesis round-trip theorems (`C08.KeysAdmitted`: every store key is the canonical encoding of a
tuple the validators admit, and decodes as a key of its table) is an invariant of the message server, for histories
whose topic names contain no `/` — which stateless validation guarantees (`C16.admitted_topic_has_no_slash`).
-/
namespace Panacea.Aol
open Panacea CompKey

def Msg.topic : Msg → Bytes
  | .createTopic t _ _ => t
  | .addWriter t _ _ _ _ => t
  | .deleteWriter t _ _ => t
  | .addRecord t _ _ _ _ _ => t

/-- the four tables have admitted keys -/
structure KeysInv (s : State) : Prop where
  owners : C08.KeysAdmitted .owner s.owners
  topics : C08.KeysAdmitted .topic s.topics
  writers : C08.KeysAdmitted .writer s.writers
  records : C08.KeysAdmitted .record s.records

theorem byte_mod (n d q : Nat) (hq : 256 ∣ q) : n % (d * q) / d % 256 = n / d % 256 := by
  rw [Nat.mod_mul_right_div_self, Nat.mod_mod_of_dvd _ hq]

theorem be64_mod (n : Nat) : be64 n = be64 (n % 18446744073709551616) := by
  have h7 := byte_mod n 72057594037927936 256 (by decide)
  have h6 := byte_mod n 281474976710656 65536 (by decide)
  have h5 := byte_mod n 1099511627776 16777216 (by decide)
  have h4 := byte_mod n 4294967296 4294967296 (by decide)
  have h3 := byte_mod n 16777216 1099511627776 (by decide)
  have h2 := byte_mod n 65536 281474976710656 (by decide)
  have h1 := byte_mod n 256 72057594037927936 (by decide)
  have h0 : n % 18446744073709551616 % 256 = n % 256 := Nat.mod_mod_of_dvd _ (by decide)
  simp only [Nat.reduceMul] at h7 h6 h5 h4 h3 h2 h1
  unfold be64
  rw [h7, h6, h5, h4, h3, h2, h1, h0]

theorem keysAdmitted_set {V} (k : Kind) (m : Map V) (key : Bytes) (v : V) (h : C08.KeysAdmitted k m)
    (hk : ∃ comps, encode comps = some key ∧ C18.Admitted k comps ∧ decodeTyped k key = .ok comps) :
    C08.KeysAdmitted k (m.set key v) := by
  intro k' hk'
  rcases (Map.mem_keys_set m key k' v).mp hk' with rfl | hm
  · exact hk
  · exact h k' hm

theorem keysAdmitted_del {V} (k : Kind) (m : Map V) (key : Bytes) (h : C08.KeysAdmitted k m) :
    C08.KeysAdmitted k (m.del key) := by
  intro k' hk'
  apply h k'
  have := (Map.del_sublist m key).map (·.1)
  exact this.subset hk'

theorem owner_key_ok (c : AddrCodec) (hc : c.Lawful) (oa o ok : Bytes) (hd : c.dec oa = some o) (he : encode [o] = some ok) :
    ∃ comps, encode comps = some ok ∧ C18.Admitted .owner comps ∧ decodeTyped .owner ok = .ok comps := by
  have hao := hc.dec_ok oa o hd
  refine ⟨[o], he, hao, ?_⟩
  simp [decodeTyped, C18.decode_encode _ _ he, fromByteSlices, hao]

theorem topic_key_ok (c : AddrCodec) (hc : c.Lawful) (oa o tn tk : Bytes) (hd : c.dec oa = some o) (ht : slash ∉ tn)
    (he : encode [o, tn] = some tk) :
    ∃ comps, encode comps = some tk ∧ C18.Admitted .topic comps ∧ decodeTyped .topic tk = .ok comps := by
  have hao := hc.dec_ok oa o hd
  refine ⟨[o, tn], he, ⟨hao, ht⟩, ?_⟩
  simp [decodeTyped, C18.decode_encode _ _ he, fromByteSlices, hao]

theorem writer_key_ok (c : AddrCodec) (hc : c.Lawful) (oa o wa w tn wk : Bytes) (hd : c.dec oa = some o) (hw : c.dec wa = some w)
    (ht : slash ∉ tn) (he : encode [o, tn, w] = some wk) :
    ∃ comps, encode comps = some wk ∧ C18.Admitted .writer comps ∧ decodeTyped .writer wk = .ok comps := by
  have hao := hc.dec_ok oa o hd
  have haw := hc.dec_ok wa w hw
  refine ⟨[o, tn, w], he, ⟨hao, ht, haw⟩, ?_⟩
  simp [decodeTyped, C18.decode_encode _ _ he, fromByteSlices, hao, haw]

theorem record_key_ok (c : AddrCodec) (hc : c.Lawful) (oa o tn rk : Bytes) (n : Nat) (hd : c.dec oa = some o) (ht : slash ∉ tn)
    (he : encode [o, tn, be64 n] = some rk) :
    ∃ comps, encode comps = some rk ∧ C18.Admitted .record comps ∧ decodeTyped .record rk = .ok comps := by
  have hao := hc.dec_ok oa o hd
  have hlt : n % 18446744073709551616 < 18446744073709551616 := Nat.mod_lt _ (by decide)
  refine ⟨[o, tn, be64 n], he, ⟨hao, ht, n % 18446744073709551616, by omega, be64_mod n⟩, ?_⟩
  have hf : fromBe64 (be64 n) = some (n % 18446744073709551616) := by
    rw [be64_mod n]; exact Panacea.fromBe64_be64 _ hlt
  simp [decodeTyped, C18.decode_encode _ _ he, fromByteSlices, hao, offsetOfBytes, Panacea.be64_length, hf]
  exact (be64_mod n).symm

/-- **the invariant step**: a handled message whose topic name has no `/` keeps all keys admitted -/
theorem keysInv_step (c : AddrCodec) (hc : c.Lawful) (s : State) (op : Int × Msg) (ht : slash ∉ op.2.topic)
    (inv : KeysInv s) : KeysInv (step c s op) := by
  obtain ⟨now, m⟩ := op
  unfold step
  cases h : handle c now s m with
  | err x => simpa [h] using inv
  | panic x => simpa [h] using inv
  | ok p =>
    obtain ⟨s', r⟩ := p
    simp only [h]
    cases m with
    | createTopic tn d oa =>
      obtain ⟨o, tk, ok, hd, htk, _, hok, rfl, _⟩ := createTopic_ok h
      exact ⟨keysAdmitted_set _ _ _ _ inv.owners (owner_key_ok c hc oa o ok hd hok),
        keysAdmitted_set _ _ _ _ inv.topics (topic_key_ok c hc oa o tn tk hd ht htk), inv.writers, inv.records⟩
    | addWriter tn mo d wa oa =>
      obtain ⟨o, w, tk, wk, hd, hw, htk, _, hwk, _, rfl, _⟩ := addWriter_ok h
      exact ⟨inv.owners, keysAdmitted_set _ _ _ _ inv.topics (topic_key_ok c hc oa o tn tk hd ht htk),
        keysAdmitted_set _ _ _ _ inv.writers (writer_key_ok c hc oa o wa w tn wk hd hw ht hwk), inv.records⟩
    | deleteWriter tn wa oa =>
      obtain ⟨o, w, tk, wk, hd, hw, htk, hwk, _, rfl, _⟩ := deleteWriter_ok h
      exact ⟨inv.owners, keysAdmitted_set _ _ _ _ inv.topics (topic_key_ok c hc oa o tn tk hd ht htk),
        keysAdmitted_del _ _ _ inv.writers, inv.records⟩
    | addRecord tn key value wa oa fp =>
      obtain ⟨o, w, tk, wk, rk, hd, hw, htk, _, hwk, _, hrk, rfl, _⟩ := addRecord_ok h
      exact ⟨inv.owners, keysAdmitted_set _ _ _ _ inv.topics (topic_key_ok c hc oa o tn tk hd ht htk),
        inv.writers, keysAdmitted_set _ _ _ _ inv.records (record_key_ok c hc oa o tn rk _ hd ht hrk)⟩

theorem keysInv_empty : KeysInv {} := by
  refine ⟨?_, ?_, ?_, ?_⟩ <;> (intro k hk; simp [Map.keys] at hk)

/-- **every state reachable by messages with `/`-free topic names** (what stateless validation admits) has admitted keys -/
theorem keysInv_run (c : AddrCodec) (hc : c.Lawful) (ops : List (Int × Msg)) (ht : ∀ op ∈ ops, slash ∉ op.2.topic) :
    ∀ s, KeysInv s → KeysInv (run c s ops) := by
  induction ops with
  | nil => intro s h; exact h
  | cons op ops ih =>
    intro s h
    unfold run
    simp only [List.foldl_cons]
    exact ih (fun o ho => ht o (List.mem_cons_of_mem _ ho)) _ (keysInv_step c hc s op (ht op (by simp)) h)

end Panacea.Aol
