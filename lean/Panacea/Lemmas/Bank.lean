import Panacea.Model.Bank
/-! The burn end-blocker on the bank model: pointwise characterisation of debit, credit and burn. -/
namespace Panacea.Bank
open Panacea

def coinsOf (s : State) (a : Bytes) (ds : List Bytes) : List (Bytes × Nat) :=
  (ds.map fun d => (d, spendable s a d)).filter (·.2 ≠ 0)

theorem coinsOf_cons (s : State) (a d : Bytes) (ds : List Bytes) :
    coinsOf s a (d :: ds) = if spendable s a d ≠ 0 then (d, spendable s a d) :: coinsOf s a ds else coinsOf s a ds := by
  simp only [coinsOf, List.map_cons, List.filter_cons]
  split <;> simp_all

theorem coinsOf_congr (s s1 : State) (a : Bytes) (ds : List Bytes)
    (h : ∀ d ∈ ds, s1.bal a d = s.bal a d ∧ s1.locked a d = s.locked a d) : coinsOf s1 a ds = coinsOf s a ds := by
  unfold coinsOf
  congr 1
  apply List.map_congr_left
  intro d hd
  obtain ⟨h1, h2⟩ := h d hd
  simp [spendable, h1, h2]

/-- Frame + effect of a sequence of debits. -/
structure Debited (s s' : State) (a : Bytes) (ds : List Bytes) : Prop where
  onDs : ∀ d ∈ ds, s'.bal a d = s.bal a d - spendable s a d
  frame : ∀ a' d', (a' ≠ a ∨ d' ∉ ds) → s'.bal a' d' = s.bal a' d'
  locked : s'.locked = s.locked
  supply : s'.supply = s.supply
  denoms : s'.denoms = s.denoms

theorem subUnlocked_spendable (a : Bytes) : ∀ (ds : List Bytes) (s : State), ds.Nodup →
    (∀ d ∈ ds, s.locked a d ≤ s.bal a d) →
    ∃ s', subUnlocked s a (coinsOf s a ds) = (s', true) ∧ Debited s s' a ds := by
  intro ds
  induction ds with
  | nil => intro s _ _; exact ⟨s, rfl, ⟨fun d hd => absurd hd (List.not_mem_nil), fun _ _ _ => rfl, rfl, rfl, rfl⟩⟩
  | cons d rest ih =>
    intro s hnd hle
    have hd : d ∉ rest := (List.nodup_cons.mp hnd).1
    have hnd' := (List.nodup_cons.mp hnd).2
    rw [coinsOf_cons]
    by_cases hz : spendable s a d ≠ 0
    · rw [if_pos hz]
      simp only [subUnlocked]
      have h1 : ¬ s.bal a d < s.locked a d := by have := hle d (by simp); omega
      have h2 : ¬ spendable s a d < spendable s a d := Nat.lt_irrefl _
      simp only [h1, h2, if_false]
      let s1 := setBal s a d (s.bal a d - spendable s a d)
      have hs1 : ∀ d' ∈ rest, s1.bal a d' = s.bal a d' ∧ s1.locked a d' = s.locked a d' := by
        intro d' hd'
        have : d' ≠ d := by intro he; subst he; exact hd hd'
        simp [s1, setBal, this]
      rw [← coinsOf_congr s s1 a rest hs1]
      obtain ⟨s', hsub, hdeb⟩ := ih s1 hnd' (by
        intro d' hd'
        obtain ⟨e1, e2⟩ := hs1 d' hd'
        rw [e1, e2]; exact hle d' (by simp [hd']))
      refine ⟨s', hsub, ⟨?_, ?_, ?_, ?_, ?_⟩⟩
      · intro d' hd'
        rcases List.mem_cons.mp hd' with rfl | hd'
        · rw [hdeb.frame a d' (Or.inr hd)]; simp [s1, setBal]
        · rw [hdeb.onDs d' hd']
          obtain ⟨e1, e2⟩ := hs1 d' hd'
          simp [spendable, e1, e2]
      · intro a' d' hc
        have hc' : a' ≠ a ∨ d' ∉ rest := by
          rcases hc with hc | hc
          · exact Or.inl hc
          · exact Or.inr (fun hm => hc (List.mem_cons_of_mem _ hm))
        rw [hdeb.frame a' d' hc']
        simp only [s1, setBal]
        split
        · rename_i hh
          rcases hc with hc | hc
          · exact absurd hh.1 hc
          · exact absurd (by rw [hh.2]; simp) hc
        · rfl
      · rw [hdeb.locked]; rfl
      · rw [hdeb.supply]; rfl
      · rw [hdeb.denoms]; rfl
    · rw [if_neg hz]
      obtain ⟨s', hsub, hdeb⟩ := ih s hnd' (fun d' hd' => hle d' (by simp [hd']))
      refine ⟨s', hsub, ⟨?_, ?_, hdeb.locked, hdeb.supply, hdeb.denoms⟩⟩
      · intro d' hd'
        rcases List.mem_cons.mp hd' with rfl | hd'
        · rw [hdeb.frame a d' (Or.inr hd)]
          have : spendable s a d' = 0 := by simpa using hz
          omega
        · exact hdeb.onDs d' hd'
      · intro a' d' hc
        apply hdeb.frame
        rcases hc with hc | hc
        · exact Or.inl hc
        · exact Or.inr (fun hm => hc (List.mem_cons_of_mem _ hm))

/-- crediting a list of coins with distinct denoms -/
theorem addCoins_spec (b : Bytes) : ∀ (coins : List (Bytes × Nat)) (s : State), (coins.map (·.1)).Nodup →
    (∀ c ∈ coins, (addCoins s b coins).bal b c.1 = s.bal b c.1 + c.2) ∧
    (∀ a' d', (a' ≠ b ∨ d' ∉ coins.map (·.1)) → (addCoins s b coins).bal a' d' = s.bal a' d') ∧
    (addCoins s b coins).locked = s.locked ∧ (addCoins s b coins).supply = s.supply ∧
    (addCoins s b coins).denoms = s.denoms := by
  intro coins
  induction coins with
  | nil => intro s _; simp [addCoins]
  | cons c rest ih =>
    intro s hnd
    obtain ⟨d, n⟩ := c
    simp only [List.map_cons, List.nodup_cons] at hnd
    simp only [addCoins]
    obtain ⟨h1, h2, h3, h4, h5⟩ := ih (setBal s b d (s.bal b d + n)) hnd.2
    refine ⟨?_, ?_, by rw [h3]; rfl, by rw [h4]; rfl, by rw [h5]; rfl⟩
    · intro c hc
      rcases List.mem_cons.mp hc with rfl | hc
      · rw [h2 b d (Or.inr hnd.1)]; simp [setBal]
      · rw [h1 c hc]
        have : c.1 ≠ d := by intro he; exact hnd.1 (by rw [← he]; exact List.mem_map.mpr ⟨c, hc, rfl⟩)
        simp [setBal, this]
    · intro a' d' hc
      have hc' : a' ≠ b ∨ d' ∉ rest.map (·.1) := by
        rcases hc with hc | hc
        · exact Or.inl hc
        · exact Or.inr (fun hm => hc (by simp at hm ⊢; exact Or.inr hm))
      rw [h2 a' d' hc']
      simp only [setBal]
      split
      · rename_i hh
        rcases hc with hc | hc
        · exact absurd hh.1 hc
        · exact absurd (by simp [hh.2]) hc
      · rfl

/-- burning a list of coins with distinct denoms from the module account -/
theorem burnCoins_spec (b : Bytes) : ∀ (coins : List (Bytes × Nat)) (s : State), (coins.map (·.1)).Nodup →
    (∀ c ∈ coins, (burnCoins s b coins).bal b c.1 = s.bal b c.1 - c.2 ∧ (burnCoins s b coins).supply c.1 = s.supply c.1 - c.2) ∧
    (∀ a' d', (a' ≠ b ∨ d' ∉ coins.map (·.1)) → (burnCoins s b coins).bal a' d' = s.bal a' d') ∧
    (∀ d', d' ∉ coins.map (·.1) → (burnCoins s b coins).supply d' = s.supply d') ∧
    (burnCoins s b coins).locked = s.locked ∧ (burnCoins s b coins).denoms = s.denoms := by
  intro coins
  induction coins with
  | nil => intro s _; simp [burnCoins]
  | cons c rest ih =>
    intro s hnd
    obtain ⟨d, n⟩ := c
    simp only [List.map_cons, List.nodup_cons] at hnd
    simp only [burnCoins]
    obtain ⟨h1, h2, h3, h4, h5⟩ := ih _ hnd.2
    refine ⟨?_, ?_, ?_, by rw [h4]; rfl, by rw [h5]; rfl⟩
    · intro c hc
      rcases List.mem_cons.mp hc with rfl | hc
      · rw [h2 b d (Or.inr hnd.1), h3 d hnd.1]; simp [setBal]
      · obtain ⟨e1, e2⟩ := h1 c hc
        have : c.1 ≠ d := by intro he; exact hnd.1 (by rw [← he]; exact List.mem_map.mpr ⟨c, hc, rfl⟩)
        rw [e1, e2]; simp [setBal, this]
    · intro a' d' hc
      have hc' : a' ≠ b ∨ d' ∉ rest.map (·.1) := by
        rcases hc with hc | hc
        · exact Or.inl hc
        · exact Or.inr (fun hm => hc (by simp at hm ⊢; exact Or.inr hm))
      rw [h2 a' d' hc']
      simp only [setBal]
      split
      · rename_i hh
        rcases hc with hc | hc
        · exact absurd hh.1 hc
        · exact absurd (by simp [hh.2]) hc
      · rfl
    · intro d' hd'
      have : d' ∉ rest.map (·.1) := fun hm => hd' (by simp at hm ⊢; exact Or.inr hm)
      rw [h3 d' this]
      have : d' ≠ d := by intro he; exact hd' (by simp [he])
      simp [this]
      rfl

end Panacea.Bank
