import Panacea.Lemmas.KV
import Panacea.Lemmas.PrefixView
/-!
# Sorted maps are determined by their lookups

Two sorted association lists that answer every `get` alike are equal — so a state built by `set`s does not depend
on the order in which distinct keys were set (the import of a genesis map visited in Go's random order).
-/
namespace Panacea.Map
variable {V : Type}

theorem get_none_of_lt_all (m : Map V) (k : Bytes) (h : ∀ k' ∈ m.keys, Bytes.lt k k' = true) : m.get k = none := by
  induction m with
  | nil => rfl
  | cons e m ih =>
    have he : Bytes.lt k e.1 = true := h e.1 (by simp [keys])
    have hne : e.1 ≠ k := fun hh => Bytes.lt_ne _ _ he hh.symm
    simp only [get, hne, if_false]
    exact ih (fun k' hk' => h k' (by simp [keys] at hk' ⊢; exact Or.inr hk'))

theorem ext_sorted : ∀ (m1 m2 : Map V), m1.Sorted → m2.Sorted → (∀ k, m1.get k = m2.get k) → m1 = m2
  | [], [], _, _, _ => rfl
  | [], e :: m2, _, _, h => by
    have := h e.1; simp [get] at this
  | e :: m1, [], _, _, h => by
    have := h e.1; simp [get] at this
  | e1 :: m1, e2 :: m2, hs1, hs2, h => by
    have hs1' : ∀ k' ∈ keys m1, Bytes.lt e1.1 k' = true := by
      unfold Sorted keys at hs1; simp only [List.map_cons, List.pairwise_cons] at hs1; exact hs1.1
    have hs2' : ∀ k' ∈ keys m2, Bytes.lt e2.1 k' = true := by
      unfold Sorted keys at hs2; simp only [List.map_cons, List.pairwise_cons] at hs2; exact hs2.1
    have t1 : Sorted m1 := by unfold Sorted keys at hs1 ⊢; simp only [List.map_cons, List.pairwise_cons] at hs1; exact hs1.2
    have t2 : Sorted m2 := by unfold Sorted keys at hs2 ⊢; simp only [List.map_cons, List.pairwise_cons] at hs2; exact hs2.2
    have hk : e1.1 = e2.1 := by
      rcases Bytes.lt_trichotomy e1.1 e2.1 with hlt | heq | hgt
      · -- e1.1 is below every key of the second map
        have hn : get (e2 :: m2) e1.1 = none :=
          get_none_of_lt_all _ _ (by
            intro k' hk'
            simp only [keys, List.map_cons, List.mem_cons] at hk'
            rcases hk' with rfl | hk'
            · exact hlt
            · exact Bytes.lt_trans _ _ _ hlt (hs2' k' hk'))
        have := h e1.1; rw [hn] at this; simp [get] at this
      · exact heq
      · have hn : get (e1 :: m1) e2.1 = none :=
          get_none_of_lt_all _ _ (by
            intro k' hk'
            simp only [keys, List.map_cons, List.mem_cons] at hk'
            rcases hk' with rfl | hk'
            · exact hgt
            · exact Bytes.lt_trans _ _ _ hgt (hs1' k' hk'))
        have := h e2.1; rw [hn] at this; simp [get] at this
    have hv : e1.2 = e2.2 := by
      have := h e1.1
      simp only [get, if_true, hk] at this
      simpa using this
    have he : e1 = e2 := Prod.ext hk hv
    subst he
    congr 1
    apply ext_sorted m1 m2 t1 t2
    intro k
    by_cases hke : e1.1 = k
    · subst hke
      rw [get_none_of_lt_all m1 _ hs1', get_none_of_lt_all m2 _ hs2']
    · have := h k
      simpa [get, hke] using this

theorem get_foldl_set_not_mem (l : List (Bytes × V)) (k : Bytes) (h : k ∉ l.map (·.1)) :
    ∀ acc : Map V, (l.foldl (fun m e => m.set e.1 e.2) acc).get k = acc.get k := by
  induction l with
  | nil => intro acc; rfl
  | cons e l ih =>
    intro acc
    simp only [List.map_cons, List.mem_cons, not_or] at h
    simp only [List.foldl_cons]
    rw [ih h.2, get_set_ne _ _ _ _ h.1]

theorem get_foldl_set_mem (l : List (Bytes × V)) (hd : (l.map (·.1)).Nodup) (k : Bytes) (v : V) (hm : (k, v) ∈ l) :
    ∀ acc : Map V, (l.foldl (fun m e => m.set e.1 e.2) acc).get k = some v := by
  induction l with
  | nil => simp at hm
  | cons e l ih =>
    intro acc
    simp only [List.map_cons, List.nodup_cons] at hd
    simp only [List.foldl_cons]
    rcases List.mem_cons.mp hm with rfl | hm
    · rw [get_foldl_set_not_mem l _ hd.1, get_set_eq]
    · exact ih hd.2 hm _

theorem sorted_foldl_set (l : List (Bytes × V)) : ∀ acc : Map V, acc.Sorted →
    (l.foldl (fun m e => m.set e.1 e.2) acc).Sorted := by
  induction l with
  | nil => intro acc h; exact h
  | cons e l ih => intro acc h; exact ih _ (sorted_set _ _ _ h)

/-- **setting distinct keys in any order builds the same map** -/
theorem foldl_set_perm (l l' : List (Bytes × V)) (hp : l'.Perm l) (hd : (l.map (·.1)).Nodup) :
    l'.foldl (fun (m : Map V) e => m.set e.1 e.2) ([] : Map V) = l.foldl (fun (m : Map V) e => m.set e.1 e.2) ([] : Map V) := by
  have hs0 : Sorted ([] : Map V) := by simp [Sorted, keys]
  have hd' : (l'.map (·.1)).Nodup := (hp.map (·.1)).nodup_iff.mpr hd
  apply ext_sorted _ _ (sorted_foldl_set l' [] hs0) (sorted_foldl_set l [] hs0)
  intro k
  by_cases hk : k ∈ l.map (·.1)
  · obtain ⟨e, he, rfl⟩ := List.mem_map.mp hk
    rw [get_foldl_set_mem l hd e.1 e.2 he, get_foldl_set_mem l' hd' e.1 e.2 (hp.mem_iff.mpr he)]
  · have hk' : k ∉ l'.map (·.1) := fun h => hk ((hp.map (·.1)).mem_iff.mp h)
    rw [get_foldl_set_not_mem l k hk, get_foldl_set_not_mem l' k hk']

end Panacea.Map
