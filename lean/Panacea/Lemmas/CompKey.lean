import Panacea.Model.CompKey
/-! Helper lemmas about the composite-key model (property theorems live in `Properties/C18`). -/
namespace Panacea.CompKey

theorem u8_len (v : Bytes) (h : ¬ v.length > 255) : (UInt8.ofNat v.length).toNat = v.length := by
  simp [UInt8.toNat_ofNat']; omega

theorem encode_cons_some {v : Bytes} {vs : List Bytes} {bz : Bytes} (h : encode (v :: vs) = some bz) :
    ¬ v.length > 255 ∧ ∃ r, encode vs = some r ∧ bz = UInt8.ofNat v.length :: (v ++ r) := by
  simp only [encode] at h
  split at h
  · cases h
  · rename_i hlen
    cases hr : encode vs with
    | none => simp [hr] at h
    | some r => simp [hr] at h; exact ⟨hlen, r, rfl, h.symm⟩

theorem encode_length {vs : List Bytes} {bz : Bytes} (h : encode vs = some bz) :
    bz.length = (vs.map fun v => v.length + 1).sum := by
  induction vs generalizing bz with
  | nil => simp [encode] at h; subst h; rfl
  | cons v vs ih =>
    obtain ⟨_, r, hr, rfl⟩ := encode_cons_some h
    simp [ih hr]; omega

theorem decodeAux_encode (vs : List Bytes) (bz : Bytes) (h : encode vs = some bz) :
    ∀ fuel, fuel > bz.length → decodeAux fuel bz = some vs := by
  induction vs generalizing bz with
  | nil => intro fuel _; simp [encode] at h; subst h; cases fuel <;> simp [decodeAux]
  | cons v vs ih =>
    intro fuel hf
    obtain ⟨hlen, r, hr, rfl⟩ := encode_cons_some h
    cases fuel with
    | zero => exact absurd hf (Nat.not_lt_zero _)
    | succ fuel =>
      simp only [decodeAux, u8_len v hlen]
      have : ¬ v.length > (v ++ r).length := by simp
      simp only [this, if_false]
      have hd : List.drop v.length (v ++ r) = r := by simp
      have ht : List.take v.length (v ++ r) = v := by simp
      rw [hd, ht, ih r hr fuel (by simp at hf; omega)]

theorem decode_encode' (vs : List Bytes) (bz : Bytes) (h : encode vs = some bz) : decode bz = some vs :=
  decodeAux_encode vs bz h _ (by omega)

theorem encode_decodeAux : ∀ (fuel : Nat) (bz : Bytes) (vs : List Bytes),
    decodeAux fuel bz = some vs → encode vs = some bz := by
  intro fuel
  induction fuel with
  | zero =>
    intro bz vs h
    cases bz with
    | nil => simp [decodeAux] at h; subst h; rfl
    | cons n rest => simp [decodeAux] at h
  | succ fuel ih =>
    intro bz vs h
    cases bz with
    | nil => simp [decodeAux] at h; subst h; rfl
    | cons n rest =>
      simp only [decodeAux] at h
      split at h
      · cases h
      · rename_i hn
        cases hd : decodeAux fuel (rest.drop n.toNat) with
        | none => simp [hd] at h
        | some ws =>
          simp [hd] at h; subst h
          have hlen : (rest.take n.toNat).length = n.toNat := by simp; omega
          have hn255 : n.toNat < 256 := n.toNat_lt
          simp only [encode, hlen]
          have : ¬ n.toNat > 255 := by omega
          simp only [this, if_false, ih _ _ hd]
          have : UInt8.ofNat n.toNat = n := by simp
          simp [this]

theorem encode_decode' (bz : Bytes) (vs : List Bytes) (h : decode bz = some vs) : encode vs = some bz :=
  encode_decodeAux _ bz vs h

theorem encode_append {a b : List Bytes} {ea eb : Bytes} (ha : encode a = some ea) (hb : encode b = some eb) :
    encode (a ++ b) = some (ea ++ eb) := by
  induction a generalizing ea with
  | nil => simp [encode] at ha; subst ha; simpa using hb
  | cons v vs ih =>
    obtain ⟨hlen, r, hr, rfl⟩ := encode_cons_some ha
    simp [encode, hlen, ih hr]

theorem encode_append_some {a b : List Bytes} {e : Bytes} (h : encode (a ++ b) = some e) :
    ∃ ea eb, encode a = some ea ∧ encode b = some eb ∧ e = ea ++ eb := by
  induction a generalizing e with
  | nil => exact ⟨[], e, rfl, by simpa using h, rfl⟩
  | cons v vs ih =>
    obtain ⟨hlen, r, hr, rfl⟩ := encode_cons_some (by simpa using h)
    obtain ⟨ea, eb, h1, h2, rfl⟩ := ih hr
    refine ⟨UInt8.ofNat v.length :: (v ++ ea), eb, ?_, h2, by simp⟩
    simp [encode, hlen, h1]

theorem encode_take {vs : List Bytes} {e : Bytes} (h : encode vs = some e) (k : Nat) :
    ∃ p, encode (vs.take k) = some p ∧ p <+: e := by
  have := List.take_append_drop k vs
  rw [← this] at h
  obtain ⟨ea, eb, h1, _, rfl⟩ := encode_append_some h
  exact ⟨ea, h1, List.prefix_append _ _⟩

/-- Two byte strings of the same length that are prefixes of appended lists. -/
theorem append_prefix_same_len {x y r1 r2 : Bytes} (hl : x.length = y.length)
    (h : x ++ r1 <+: y ++ r2) : x = y ∧ r1 <+: r2 := by
  obtain ⟨t, ht⟩ := h
  have h1 : x ++ (r1 ++ t) = y ++ r2 := by simpa using ht
  have := List.append_inj h1 hl
  exact ⟨this.1, ⟨t, this.2⟩⟩

theorem prefix_of_encode_prefix : ∀ (xs ys : List Bytes) (p q : Bytes),
    encode xs = some p → encode ys = some q → p <+: q → xs <+: ys := by
  intro xs
  induction xs with
  | nil => intro ys p q _ _ _; exact List.nil_prefix
  | cons x xs ih =>
    intro ys p q hp hq hpre
    obtain ⟨hlx, r1, hr1, rfl⟩ := encode_cons_some hp
    cases ys with
    | nil =>
      simp [encode] at hq; subst hq
      simp at hpre
    | cons y ys =>
      obtain ⟨hly, r2, hr2, rfl⟩ := encode_cons_some hq
      have hcons : UInt8.ofNat x.length = UInt8.ofNat y.length ∧ (x ++ r1 <+: y ++ r2) := by
        obtain ⟨t, ht⟩ := hpre
        simp at ht
        exact ⟨ht.1, ⟨t, by simpa using ht.2⟩⟩
      have hl : x.length = y.length := by
        have := congrArg UInt8.toNat hcons.1
        rw [u8_len x hlx, u8_len y hly] at this; exact this
      obtain ⟨hxy, hrr⟩ := append_prefix_same_len hl hcons.2
      subst hxy
      have := ih ys r1 r2 hr1 hr2 hrr
      exact List.cons_prefix_cons.mpr ⟨rfl, this⟩

theorem encode_prefix_of_prefix {xs ys : List Bytes} {p q : Bytes}
    (hp : encode xs = some p) (hq : encode ys = some q) (h : xs <+: ys) : p <+: q := by
  obtain ⟨t, rfl⟩ := h
  obtain ⟨ea, eb, h1, _, rfl⟩ := encode_append_some hq
  rw [hp] at h1; cases h1
  exact List.prefix_append _ _

theorem encode_isSome_iff (vs : List Bytes) : (encode vs).isSome = true ↔ ∀ v ∈ vs, v.length ≤ 255 := by
  induction vs with
  | nil => simp [encode]
  | cons v vs ih =>
    simp only [encode]
    split
    · rename_i h; simp; omega
    · rename_i h
      cases hr : encode vs with
      | none =>
        simp [hr] at ih ⊢
        obtain ⟨w, hw, hw2⟩ := ih
        intro _; exact ⟨w, hw, hw2⟩
      | some r =>
        simp [hr] at ih ⊢
        exact ⟨by omega, ih⟩

end Panacea.CompKey
