import Panacea.Lemmas.AolRec
import Panacea.Lemmas.PrefixView
/-! The counter invariant of x/aol: `total_topics` and `total_writers` equal the number of entries listed. -/
namespace Panacea.Aol
open Panacea CompKey Map

/-- Keys are well-formed encodings and the counters match the listings (modulo `2^64`, the width of the
Go counters; the actual numbers of entries are far below that). -/
structure CountInv (s : State) : Prop where
  sortedT : s.topics.Sorted
  sortedW : s.writers.Sorted
  topicKeys : ∀ k ∈ s.topics.keys, ∃ o t, encode [o, t] = some k
  writerKeys : ∀ k ∈ s.writers.keys, ∃ o t w, encode [o, t, w] = some k
  writerHasTopic : ∀ o t w wk, encode [o, t, w] = some wk → s.writers.has wk = true →
    ∃ tk, encode [o, t] = some tk ∧ s.topics.has tk = true
  topicsCount : ∀ o ok, encode [o] = some ok →
    ((s.owners.get ok).getD {}).totalTopics % two64 = countP ok s.topics.keys % two64
  writersCount : ∀ o t tk topic, encode [o, t] = some tk → s.topics.get tk = some topic →
    topic.totalWriters % two64 = countP tk s.writers.keys % two64

theorem sorted_nil {V} : Map.Sorted ([] : Map V) := by simp [Map.Sorted, Map.keys]

theorem countInv_empty : CountInv {} := by
  refine ⟨sorted_nil, sorted_nil, ?_, ?_, ?_, ?_, ?_⟩
  · intro k hk; simp [keys] at hk
  · intro k hk; simp [keys] at hk
  · intro o t w wk _ h; simp [Map.has, Map.get] at h
  · intro o ok _; simp [Map.get, countP, keys]
  · intro o t tk topic _ h; simp [Map.get] at h

/-- `encode [o]` is a byte-prefix of a topic key exactly for the topics of owner `o`. -/
theorem ownerPrefix_topicKey {o o' t' : Bytes} {ok tk : Bytes} (h1 : encode [o] = some ok) (h2 : encode [o', t'] = some tk) :
    ok.isPrefixOf tk = true ↔ o = o' := by
  rw [isPrefixOf_iff', (show (ok <+: tk ↔ [o] <+: [o', t']) from
    ⟨prefix_of_encode_prefix _ _ _ _ h1 h2, encode_prefix_of_prefix h1 h2⟩)]
  constructor
  · intro h
    have := List.prefix_iff_eq_take.mp h
    simp at this; exact this
  · intro h; subst h; exact ⟨[t'], rfl⟩

/-- `encode [o, t]` is a byte-prefix of a writer key exactly for the writers of topic `(o, t)`. -/
theorem topicPrefix_writerKey {o t o' t' w' : Bytes} {tk wk : Bytes} (h1 : encode [o, t] = some tk)
    (h2 : encode [o', t', w'] = some wk) : tk.isPrefixOf wk = true ↔ (o = o' ∧ t = t') := by
  rw [isPrefixOf_iff', (show (tk <+: wk ↔ [o, t] <+: [o', t', w']) from
    ⟨prefix_of_encode_prefix _ _ _ _ h1 h2, encode_prefix_of_prefix h1 h2⟩)]
  constructor
  · intro h
    have := List.prefix_iff_eq_take.mp h
    simp at this; exact this
  · intro ⟨ha, hb⟩; subst ha hb; exact ⟨[w'], rfl⟩

theorem mod_succ (a : Nat) : wrap64 (a + 1) % two64 = (a % two64 + 1) % two64 := by
  unfold wrap64 two64; omega

theorem none_of_has_false {V} {m : Map V} {k : Bytes} (h : m.has k = false) : m.get k = none := by
  unfold Map.has at h; cases hg : m.get k <;> simp [hg] at h ⊢

theorem isSome_of_has {V} {m : Map V} {k : Bytes} (h : m.has k = true) : (m.get k).isSome = true := h

/-- One accepted message preserves the counter invariant. -/
theorem countInv_handle {c : AddrCodec} {now : Int} {s s' : State} {m : Msg} {r : Resp}
    (hi : CountInv s) (h : handle c now s m = .ok (s', r)) : CountInv s' := by
  cases m with
  | createTopic tn d oa =>
    obtain ⟨o, tk, ok, _, htk, hhas, hok, rfl, _⟩ := createTopic_ok h
    have hnone := none_of_has_false hhas
    refine ⟨sorted_set _ _ _ hi.sortedT, hi.sortedW, ?_, hi.writerKeys, ?_, ?_, ?_⟩
    · intro k hk
      rcases (mem_keys_set _ _ _ _).mp hk with rfl | hk
      · exact ⟨o, tn, htk⟩
      · exact hi.topicKeys k hk
    · intro o' t' w' wk hwk hw
      obtain ⟨tk', h1, h2⟩ := hi.writerHasTopic o' t' w' wk hwk hw
      exact ⟨tk', h1, by rw [has_set]; simp [h2]⟩
    · intro o' ok' hok'
      simp only
      rw [count_set_fresh _ _ _ _ hnone]
      by_cases he : ok' = ok
      · subst he
        have hoo : o' = o := by
          have := decode_encode' _ _ hok; have h2 := decode_encode' _ _ hok'
          rw [this] at h2; simp at h2; exact h2.symm
        subst hoo
        rw [get_set_eq]
        have hp : ok'.isPrefixOf tk = true := (ownerPrefix_topicKey hok htk).mpr rfl
        simp only [Option.getD_some, hp, if_true]
        rw [mod_succ, hi.topicsCount o' ok' hok]
        unfold two64; omega
      · rw [get_set_ne _ _ _ _ he]
        have hp : ok'.isPrefixOf tk = false := by
          cases hx : ok'.isPrefixOf tk with
          | false => rfl
          | true =>
            have := (ownerPrefix_topicKey hok' htk).mp hx
            subst this; rw [hok] at hok'; cases hok'; exact absurd rfl he
        simp only [hp, Bool.false_eq_true, if_false, Nat.add_zero]
        exact hi.topicsCount o' ok' hok'
    · intro o' t' tk' topic htk' hg
      by_cases he : tk' = tk
      · subst he
        rw [get_set_eq] at hg; cases hg
        simp only
        -- a fresh topic has no writers: any writer key under it would imply the topic existed
        have : countP tk' s.writers.keys = 0 := by
          unfold countP
          rw [List.length_eq_zero_iff, List.filter_eq_nil_iff]
          intro k hk hp
          obtain ⟨o2, t2, w2, hk2⟩ := hi.writerKeys k hk
          obtain ⟨h1, h2⟩ := (topicPrefix_writerKey htk' hk2).mp hp
          subst h1 h2
          obtain ⟨tk2, e1, e2⟩ := hi.writerHasTopic o' t' w2 k hk2 ((get_isSome_iff_mem_keys _ _).mpr hk)
          rw [htk'] at e1; cases e1
          obtain ⟨e3, e4⟩ := encode2_inj htk' htk
          simp [hhas] at e2
        rw [this]
      · rw [get_set_ne _ _ _ _ he] at hg
        exact hi.writersCount o' t' tk' topic htk' hg
  | addWriter tn mo d wa oa =>
    obtain ⟨o, w, tk, wk, _, _, htk, hhas, hwk, hhasw, rfl, _⟩ := addWriter_ok h
    have hnone := none_of_has_false hhasw
    obtain ⟨topic0, hget0⟩ := (has_eq_true_iff _ _).mp hhas
    refine ⟨sorted_set _ _ _ hi.sortedT, sorted_set _ _ _ hi.sortedW, ?_, ?_, ?_, ?_, ?_⟩
    · intro k hk
      rcases (mem_keys_set _ _ _ _).mp hk with rfl | hk
      · exact ⟨o, tn, htk⟩
      · exact hi.topicKeys k hk
    · intro k hk
      rcases (mem_keys_set _ _ _ _).mp hk with rfl | hk
      · exact ⟨o, tn, w, hwk⟩
      · exact hi.writerKeys k hk
    · intro o' t' w' wk' hwk' hw
      rw [has_set] at hw
      by_cases he : wk' = wk
      · subst he
        obtain ⟨e1, e2, _⟩ := encode3_inj hwk' hwk
        subst e1 e2
        exact ⟨tk, htk, by rw [has_set]; simp⟩
      · simp [he] at hw
        obtain ⟨tk', h1, h2⟩ := hi.writerHasTopic o' t' w' wk' hwk' hw
        exact ⟨tk', h1, by rw [has_set]; simp [h2]⟩
    · intro o' ok' hok'
      simp only
      rw [count_set_existing _ _ _ _ hi.sortedT (isSome_of_has hhas)]
      exact hi.topicsCount o' ok' hok'
    · intro o' t' tk' topic htk' hg
      simp only at hg ⊢
      rw [count_set_fresh _ _ _ _ hnone]
      by_cases he : tk' = tk
      · subst he
        rw [get_set_eq] at hg; cases hg
        obtain ⟨e1, e2⟩ := encode2_inj htk' htk
        subst e1 e2
        have hp : tk'.isPrefixOf wk = true := (topicPrefix_writerKey htk hwk).mpr ⟨rfl, rfl⟩
        simp only [hp, if_true, topicAt, hget0, Option.getD_some]
        rw [mod_succ, hi.writersCount o' t' tk' topic0 htk hget0]
        unfold two64; omega
      · rw [get_set_ne _ _ _ _ he] at hg
        have hp : tk'.isPrefixOf wk = false := by
          cases hx : tk'.isPrefixOf wk with
          | false => rfl
          | true =>
            obtain ⟨e1, e2⟩ := (topicPrefix_writerKey htk' hwk).mp hx
            subst e1 e2; rw [htk] at htk'; cases htk'; exact absurd rfl he
        simp only [hp, Bool.false_eq_true, if_false, Nat.add_zero]
        exact hi.writersCount o' t' tk' topic htk' hg
  | deleteWriter tn wa oa =>
    obtain ⟨o, w, tk, wk, _, _, htk, hwk, hhasw, rfl, _⟩ := deleteWriter_ok h
    obtain ⟨tk0, htk0, hhas⟩ := hi.writerHasTopic o tn w wk hwk hhasw
    rw [htk] at htk0; cases htk0
    obtain ⟨topic0, hget0⟩ := (has_eq_true_iff _ _).mp hhas
    have hcnt := fun p => count_del_present s.writers wk p hi.sortedW (isSome_of_has hhasw)
    refine ⟨sorted_set _ _ _ hi.sortedT, sorted_del _ _ hi.sortedW, ?_, ?_, ?_, ?_, ?_⟩
    · intro k hk
      rcases (mem_keys_set _ _ _ _).mp hk with rfl | hk
      · exact ⟨o, tn, htk⟩
      · exact hi.topicKeys k hk
    · intro k hk
      have : k ∈ s.writers.keys := by
        have := (del_sublist s.writers wk).map (·.1)
        exact this.subset hk
      exact hi.writerKeys k this
    · intro o' t' w' wk' hwk' hw
      rw [has_del] at hw
      simp only [Bool.and_eq_true, decide_eq_true_eq] at hw
      obtain ⟨tk', h1, h2⟩ := hi.writerHasTopic o' t' w' wk' hwk' hw.2
      exact ⟨tk', h1, by rw [has_set]; simp [h2]⟩
    · intro o' ok' hok'
      simp only
      rw [count_set_existing _ _ _ _ hi.sortedT (isSome_of_has hhas)]
      exact hi.topicsCount o' ok' hok'
    · intro o' t' tk' topic htk' hg
      simp only at hg ⊢
      by_cases he : tk' = tk
      · subst he
        rw [get_set_eq] at hg; cases hg
        obtain ⟨e1, e2⟩ := encode2_inj htk' htk
        subst e1 e2
        have hp : tk'.isPrefixOf wk = true := (topicPrefix_writerKey htk hwk).mpr ⟨rfl, rfl⟩
        have h1 := hcnt tk'
        simp only [hp, if_true] at h1
        have h2 := hi.writersCount o' t' tk' topic0 htk hget0
        simp only [topicAt, hget0, Option.getD_some, decU64]
        unfold two64 at *; omega
      · rw [get_set_ne _ _ _ _ he] at hg
        have hp : tk'.isPrefixOf wk = false := by
          cases hx : tk'.isPrefixOf wk with
          | false => rfl
          | true =>
            obtain ⟨e1, e2⟩ := (topicPrefix_writerKey htk' hwk).mp hx
            subst e1 e2; rw [htk] at htk'; cases htk'; exact absurd rfl he
        have h1 := hcnt tk'
        simp only [hp, Bool.false_eq_true, if_false, Nat.add_zero] at h1
        rw [h1]
        exact hi.writersCount o' t' tk' topic htk' hg
  | addRecord tn key value wa oa fp =>
    obtain ⟨o, w, tk, wk, rk, _, _, htk, hhas, _, _, _, rfl, _⟩ := addRecord_ok h
    obtain ⟨topic0, hget0⟩ := (has_eq_true_iff _ _).mp hhas
    refine ⟨sorted_set _ _ _ hi.sortedT, hi.sortedW, ?_, hi.writerKeys, ?_, ?_, ?_⟩
    · intro k hk
      rcases (mem_keys_set _ _ _ _).mp hk with rfl | hk
      · exact ⟨o, tn, htk⟩
      · exact hi.topicKeys k hk
    · intro o' t' w' wk' hwk' hw
      obtain ⟨tk', h1, h2⟩ := hi.writerHasTopic o' t' w' wk' hwk' hw
      exact ⟨tk', h1, by rw [has_set]; simp [h2]⟩
    · intro o' ok' hok'
      simp only
      rw [count_set_existing _ _ _ _ hi.sortedT (isSome_of_has hhas)]
      exact hi.topicsCount o' ok' hok'
    · intro o' t' tk' topic htk' hg
      simp only at hg ⊢
      by_cases he : tk' = tk
      · subst he
        rw [get_set_eq] at hg; cases hg
        simp only [topicAt, hget0, Option.getD_some]
        exact hi.writersCount o' t' tk' topic0 htk' hget0
      · rw [get_set_ne _ _ _ _ he] at hg
        exact hi.writersCount o' t' tk' topic htk' hg

theorem countInv_run {c : AddrCodec} (ops : List (Int × Msg)) : ∀ {s : State}, CountInv s → CountInv (run c s ops) := by
  induction ops with
  | nil => intro s h; exact h
  | cons op ops ih =>
    intro s hi
    simp only [run, List.foldl_cons]
    apply ih
    unfold step
    cases h : handle c op.1 s op.2 with
    | ok p => obtain ⟨s', r⟩ := p; exact countInv_handle hi h
    | err e => exact hi
    | panic e => exact hi

end Panacea.Aol
