import Panacea.Model.KV
/-! Algebra of the ordered map: get/set/del, the byte order, sortedness. -/
namespace Panacea

namespace Bytes

theorem lt_irrefl : ∀ a : Bytes, Bytes.lt a a = false
  | [] => rfl
  | x :: xs => by simp [Bytes.lt, lt_irrefl xs]

theorem lt_trans : ∀ a b c : Bytes, Bytes.lt a b = true → Bytes.lt b c = true → Bytes.lt a c = true
  | [], [], _, h, _ => by simp [Bytes.lt] at h
  | [], _ :: _, [], _, h => by simp [Bytes.lt] at h
  | [], _ :: _, _ :: _, _, _ => rfl
  | _ :: _, [], _, h, _ => by simp [Bytes.lt] at h
  | _ :: _, _ :: _, [], _, h => by simp [Bytes.lt] at h
  | x :: xs, y :: ys, z :: zs, h1, h2 => by
    simp only [Bytes.lt] at h1 h2 ⊢
    have hx := x.toNat_lt
    by_cases hxy : x < y
    · by_cases hyz : y < z
      · have : x < z := UInt8.lt_trans hxy hyz
        simp [this]
      · simp only [hyz, if_false] at h2
        by_cases hzy : z < y
        · simp [hzy] at h2
        · have : y = z := by
            have h1' : ¬ y.toNat < z.toNat := by simpa [UInt8.lt_iff_toNat_lt] using hyz
            have h2' : ¬ z.toNat < y.toNat := by simpa [UInt8.lt_iff_toNat_lt] using hzy
            exact UInt8.toNat_inj.mp (by omega)
          subst this; simp [hxy]
    · simp only [hxy, if_false] at h1
      by_cases hyx : y < x
      · simp [hyx] at h1
      · simp only [hyx, if_false] at h1
        have : x = y := by
          have h1' : ¬ x.toNat < y.toNat := by simpa [UInt8.lt_iff_toNat_lt] using hxy
          have h2' : ¬ y.toNat < x.toNat := by simpa [UInt8.lt_iff_toNat_lt] using hyx
          exact UInt8.toNat_inj.mp (by omega)
        subst this
        by_cases hxz : x < z
        · simp [hxz]
        · simp only [hxz, if_false] at h2 ⊢
          by_cases hzx : z < x
          · simp [hzx] at h2
          · simp only [hzx, if_false] at h2 ⊢
            exact lt_trans xs ys zs h1 h2

theorem lt_asymm (a b : Bytes) (h : Bytes.lt a b = true) : Bytes.lt b a = false := by
  cases hba : Bytes.lt b a with
  | false => rfl
  | true => have := lt_trans a b a h hba; simp [lt_irrefl] at this

theorem lt_trichotomy : ∀ a b : Bytes, Bytes.lt a b = true ∨ a = b ∨ Bytes.lt b a = true
  | [], [] => Or.inr (Or.inl rfl)
  | [], _ :: _ => Or.inl rfl
  | _ :: _, [] => Or.inr (Or.inr rfl)
  | x :: xs, y :: ys => by
    simp only [Bytes.lt]
    by_cases hxy : x < y
    · simp [hxy]
    · by_cases hyx : y < x
      · simp [hxy, hyx]
      · have : x = y := by
          have h1' : ¬ x.toNat < y.toNat := by simpa [UInt8.lt_iff_toNat_lt] using hxy
          have h2' : ¬ y.toNat < x.toNat := by simpa [UInt8.lt_iff_toNat_lt] using hyx
          exact UInt8.toNat_inj.mp (by omega)
        subst this
        simp only [hxy, if_false]
        rcases lt_trichotomy xs ys with h | h | h
        · exact Or.inl h
        · exact Or.inr (Or.inl (by rw [h]))
        · exact Or.inr (Or.inr h)

theorem lt_ne (a b : Bytes) (h : Bytes.lt a b = true) : a ≠ b := by
  intro e; subst e; simp [lt_irrefl] at h

end Bytes

namespace Map
variable {V : Type}


theorem get_set_eq (m : Map V) (k : Bytes) (v : V) : (m.set k v).get k = some v := by
  induction m with
  | nil => simp [set, get]
  | cons e m ih =>
    obtain ⟨k', v'⟩ := e
    simp only [set]
    split
    · simp [get]
    · split
      · simp [get]
      · rename_i h1 _; simp [get, h1, ih]

theorem get_set_ne (m : Map V) (k k' : Bytes) (v : V) (h : k' ≠ k) : (m.set k v).get k' = m.get k' := by
  induction m with
  | nil => simp [set, get, Ne.symm h]
  | cons e m ih =>
    obtain ⟨k0, v0⟩ := e
    simp only [set]
    split
    · rename_i h0; subst h0; simp [get, Ne.symm h]
    · split
      · simp [get, Ne.symm h]
      · simp only [get, ih]

theorem get_del_eq (m : Map V) (k : Bytes) : (m.del k).get k = none := by
  induction m with
  | nil => rfl
  | cons e m ih =>
    obtain ⟨k0, v0⟩ := e
    simp only [del]
    by_cases h : k0 = k
    · simp [h, ih]
    · simp [h, get, ih]

theorem get_del_ne (m : Map V) (k k' : Bytes) (h : k' ≠ k) : (m.del k).get k' = m.get k' := by
  induction m with
  | nil => rfl
  | cons e m ih =>
    obtain ⟨k0, v0⟩ := e
    simp only [del]
    by_cases h0 : k0 = k
    · subst h0; simp [get, Ne.symm h, ih]
    · simp only [h0, if_false, get, ih]

theorem del_sublist (m : Map V) (k : Bytes) : (m.del k).Sublist m := by
  induction m with
  | nil => exact List.Sublist.slnil
  | cons e m ih =>
    obtain ⟨k0, v0⟩ := e
    simp only [del]
    split
    · exact List.Sublist.cons _ ih
    · exact List.Sublist.cons_cons _ ih

theorem has_set (m : Map V) (k k' : Bytes) (v : V) : (m.set k v).has k' = (decide (k' = k) || m.has k') := by
  unfold has
  by_cases h : k' = k
  · subst h; simp [get_set_eq]
  · simp [get_set_ne m k k' v h, h]

theorem has_del (m : Map V) (k k' : Bytes) : (m.del k).has k' = (decide (k' ≠ k) && m.has k') := by
  unfold has
  by_cases h : k' = k
  · subst h; simp [get_del_eq]
  · simp [get_del_ne m k k' h, h]

theorem get_isSome_iff_mem_keys (m : Map V) (k : Bytes) : (m.get k).isSome = true ↔ k ∈ m.keys := by
  induction m with
  | nil => simp [keys, get]
  | cons e m ih =>
    obtain ⟨k0, v0⟩ := e
    simp only [get, keys, List.map_cons, List.mem_cons]
    by_cases h : k0 = k
    · simp [h]
    · simp only [h, if_false]
      rw [ih]
      constructor
      · intro hm; exact Or.inr hm
      · intro hm; rcases hm with hm | hm
        · exact absurd hm.symm h
        · exact hm

theorem mem_keys_set (m : Map V) (k k' : Bytes) (v : V) : k' ∈ (m.set k v).keys ↔ k' = k ∨ k' ∈ m.keys := by
  rw [← get_isSome_iff_mem_keys, ← get_isSome_iff_mem_keys]
  by_cases h : k' = k
  · subst h; simp [get_set_eq]
  · simp [get_set_ne m k k' v h, h]

theorem sorted_set (m : Map V) (k : Bytes) (v : V) (hs : m.Sorted) : (m.set k v).Sorted := by
  induction m with
  | nil => simp [set, Sorted, keys]
  | cons e m ih =>
    obtain ⟨k0, v0⟩ := e
    unfold Sorted keys at hs ih ⊢
    simp only [List.map_cons, List.pairwise_cons] at hs
    simp only [set]
    split
    · rename_i h0; subst h0
      simp only [List.map_cons, List.pairwise_cons]; exact hs
    · split
      · rename_i h0 hlt
        simp only [List.map_cons, List.pairwise_cons]
        refine ⟨?_, hs⟩
        intro a ha
        rcases List.mem_cons.mp ha with rfl | ha
        · exact hlt
        · exact Bytes.lt_trans _ _ _ hlt (hs.1 a ha)
      · rename_i h0 hlt
        simp only [List.map_cons, List.pairwise_cons]
        refine ⟨?_, ih hs.2⟩
        intro a ha
        have ha' : a ∈ (set m k v).keys := ha
        rw [mem_keys_set] at ha'
        rcases ha' with rfl | ha'
        · rcases Bytes.lt_trichotomy k0 a with h | h | h
          · exact h
          · exact absurd h h0
          · simp [h] at hlt
        · exact hs.1 a ha'

theorem sorted_del (m : Map V) (k : Bytes) (hs : m.Sorted) : (m.del k).Sorted := by
  unfold Sorted keys at *
  exact (hs.sublist (List.Sublist.map _ (del_sublist m k)))

end Map
end Panacea
