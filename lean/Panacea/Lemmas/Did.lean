import Panacea.Lemmas.Varint
import Panacea.Lemmas.KV
/-! Inversion lemmas for the DID pipeline (`validateBasic` then `handle`). -/
namespace Panacea.Did
open Panacea

/-- The key and proof a successful ownership verification used. -/
structure Proven (cr : Crypto) (signData : Bytes) (seq : Nat) (stored : Doc) (vmID sig : Bytes) (vm : VM) : Prop where
  resolved : vmFrom stored stored.auths vmID = some vm
  keyType : vm.type = es256k2019 ∨ vm.type = es256k2018
  keyLen : (b58Decode vm.pubKeyB58).length = 33
  verified : cr.verify (b58Decode vm.pubKeyB58) (signBytes signData seq) sig = true
  noWrap : nextSeq seq ≠ 0      -- the handler refuses at the end of the sequence space (F23)

theorem verifyOwnership_ok {cr : Crypto} {sd : Bytes} {seq : Nat} {doc : Doc} {vmID sig : Bytes} {n : Nat}
    (h : verifyOwnership cr sd seq doc vmID sig = .ok n) :
    n = nextSeq seq ∧ ∃ vm, Proven cr sd seq doc vmID sig vm := by
  unfold verifyOwnership at h
  cases hv : vmFrom doc doc.auths vmID with
  | none => simp [hv] at h
  | some vm =>
    simp only [hv] at h
    split at h
    · simp at h
    · rename_i ht
      split at h
      · simp at h
      · rename_i hl
        split at h
        · rename_i hver
          split at h
          · simp at h
          · rename_i hz
            simp at h
            refine ⟨h.symm, vm, ⟨hv, ?_, by simpa using hl, hver, hz⟩⟩
            by_cases h1 : vm.type = es256k2019
            · exact Or.inl h1
            · by_cases h2 : vm.type = es256k2018
              · exact Or.inr h2
              · exact absurd ⟨h1, h2⟩ ht
        · simp at h

/-- An accepted proof never produces the wrapped sequence 0 (F23): the handler refuses at the end of the sequence space. -/
theorem verifyOwnership_ok_ne_zero {cr : Crypto} {sd : Bytes} {seq : Nat} {doc : Doc} {vmID sig : Bytes} {n : Nat}
    (h : verifyOwnership cr sd seq doc vmID sig = .ok n) : n ≠ 0 := by
  unfold verifyOwnership at h
  cases hv : vmFrom doc doc.auths vmID with
  | none => simp [hv] at h
  | some vm =>
    simp only [hv] at h
    split at h
    · simp at h
    · split at h
      · simp at h
      · split at h
        · split at h
          · simp at h
          · rename_i hz
            simp at h
            rw [← h]; exact hz
        · simp at h

/-- A stored entry that is neither absent/empty nor a tombstone holds a non-empty document. -/
theorem live_of_not_empty_not_dead {cur : DocWithSeq} (h1 : cur.isEmpty = false) (h2 : cur.deactivated = .ok false) :
    ∃ stored, cur.doc = some stored ∧ stored.empty = false := by
  unfold DocWithSeq.isEmpty at h1
  unfold DocWithSeq.deactivated at h2
  cases hd : cur.doc with
  | none => simp [hd] at h1
  | some stored =>
    refine ⟨stored, rfl, ?_⟩
    simp only [hd] at h1 h2
    cases he : stored.empty with
    | false => rfl
    | true =>
      simp [he] at h1 h2
      exact absurd h2 h1

theorem deliver_ok {da : Bytes → Option Bytes} {cr : Crypto} {s s' : State} {m : Msg}
    (h : deliver da cr s m = .ok s') : validateBasic da m = .ok () ∧ handle cr s m = .ok s' := by
  unfold deliver at h
  cases hv : validateBasic da m with
  | ok u => simp [bind, Outcome.bind, hv] at h; exact ⟨rfl, h⟩
  | err e => simp [bind, Outcome.bind, hv] at h
  | panic e => simp [bind, Outcome.bind, hv] at h

theorem validateBasic_doc_ok {da : Bytes → Option Bytes} {did : Bytes} {doc : Option Doc} {sig fr : Bytes}
    (h : (if !validateDID did then (Outcome.err "did/3:invalid-did" : Outcome Unit) else
      match doc with
      | none => .err "did/4:invalid-doc"
      | some d =>
        if !d.valid then .err "did/4:invalid-doc" else
        if d.id ≠ did then .err "did/4:invalid-doc" else
        if sig = [] then .err "did/6:invalid-sig" else
        if (da fr).isNone then .err "sdk:invalid-address" else .ok ()) = .ok ()) :
    ∃ d, doc = some d ∧ validateDID did = true ∧ d.valid = true ∧ d.id = did ∧ sig ≠ [] ∧ (da fr).isSome = true := by
  by_cases h1 : validateDID did = true
  · simp only [h1, Bool.not_true, Bool.false_eq_true, if_false] at h
    cases doc with
    | none => simp at h
    | some d =>
      simp only at h
      by_cases h2 : d.valid = true
      · simp only [h2, Bool.not_true, Bool.false_eq_true, if_false] at h
        by_cases h3 : d.id = did
        · simp only [h3, ne_eq, not_true_eq_false, if_false] at h
          by_cases h4 : sig = []
          · simp [h4] at h
          · simp only [h4, if_false] at h
            by_cases h5 : (da fr).isNone = true
            · simp [h5] at h
            · refine ⟨d, rfl, h1, h2, h3, h4, ?_⟩
              cases hx : da fr <;> simp [hx] at h5 ⊢
        · simp [h3] at h
      · simp [h2] at h
  · simp [h1] at h

theorem create_ok {da : Bytes → Option Bytes} {cr : Crypto} {s s' : State} {did : Bytes} {doc : Option Doc}
    {db vmID sig fr : Bytes} (h : deliver da cr s (.create did doc db vmID sig fr) = .ok s') :
    ∃ d vm, doc = some d ∧ validateDID did = true ∧ d.valid = true ∧ d.id = did ∧ sig ≠ [] ∧
      (getDoc s did).isEmpty = true ∧ Proven cr db 0 d vmID sig vm ∧
      s' = s.set did { doc := some d, seq := 0, docBytes := db } := by
  obtain ⟨hvb, hh⟩ := deliver_ok h
  simp only [validateBasic] at hvb
  obtain ⟨d, rfl, hvd, hvalid, hid, hsig, _⟩ := validateBasic_doc_ok hvb
  simp only [handle, bind, Outcome.bind] at hh
  by_cases hemp : (getDoc s did).isEmpty = true
  · simp only [hemp, Bool.not_true, Bool.false_eq_true, if_false] at hh
    cases hv : verifyOwnership cr db 0 d vmID sig with
    | ok n =>
      simp only [hv] at hh
      obtain ⟨_, vm, hp⟩ := verifyOwnership_ok hv
      simp at hh
      exact ⟨d, vm, rfl, hvd, hvalid, hid, hsig, hemp, hp, hh.symm⟩
    | err e => simp [hv] at hh
    | panic e => simp [hv] at hh
  · simp only [hemp, Bool.not_false, if_true] at hh
    cases hdead : (getDoc s did).deactivated with
    | ok b => simp only [hdead] at hh; cases b <;> simp at hh
    | err e => simp [hdead] at hh
    | panic e => simp [hdead] at hh

/-- The common part of Update and Deactivate: the stored entry is live and the proof verifies against it. -/
theorem live_proof {cr : Crypto} {s : State} {did sd vmID sig : Bytes} {f : Nat → State} {s' : State}
    (hh : (if (getDoc s did).isEmpty = true then (Outcome.err "did/5:not-found" : Outcome State) else
      match (getDoc s did).deactivated with
      | .ok dead =>
        if dead = true then .err "did/13:deactivated" else
        match (getDoc s did).doc with
        | none => .panic "unreachable"
        | some stored =>
          match verifyOwnership cr sd (getDoc s did).seq stored vmID sig with
          | .ok newSeq => .ok (f newSeq)
          | .err c => .err c
          | .panic p => .panic p
      | .err c => .err c
      | .panic p => .panic p) = .ok s') :
    ∃ stored vm, (getDoc s did).doc = some stored ∧ stored.empty = false ∧
      Proven cr sd (getDoc s did).seq stored vmID sig vm ∧ s' = f (nextSeq (getDoc s did).seq) := by
  by_cases hemp : (getDoc s did).isEmpty = true
  · simp [hemp] at hh
  · simp only [hemp, if_false] at hh
    cases hdead : (getDoc s did).deactivated with
    | err e => simp [hdead] at hh
    | panic e => simp [hdead] at hh
    | ok b =>
      simp only [hdead] at hh
      cases b with
      | true => simp at hh
      | false =>
        simp only [Bool.false_eq_true, if_false] at hh
        obtain ⟨stored, hst, hne⟩ := live_of_not_empty_not_dead (by simpa using hemp) hdead
        simp only [hst] at hh
        cases hv : verifyOwnership cr sd (getDoc s did).seq stored vmID sig with
        | ok n =>
          simp only [hv] at hh
          obtain ⟨hn, vm, hp⟩ := verifyOwnership_ok hv
          simp at hh
          subst hn
          exact ⟨stored, vm, hst, hne, hp, hh.symm⟩
        | err e => simp [hv] at hh
        | panic e => simp [hv] at hh

theorem update_ok {da : Bytes → Option Bytes} {cr : Crypto} {s s' : State} {did : Bytes} {doc : Option Doc}
    {db vmID sig fr : Bytes} (h : deliver da cr s (.update did doc db vmID sig fr) = .ok s') :
    ∃ d stored vm, doc = some d ∧ validateDID did = true ∧ d.valid = true ∧ d.id = did ∧ sig ≠ [] ∧
      (getDoc s did).doc = some stored ∧ stored.empty = false ∧
      Proven cr db (getDoc s did).seq stored vmID sig vm ∧
      s' = s.set did { doc := some d, seq := nextSeq (getDoc s did).seq, docBytes := db } := by
  obtain ⟨hvb, hh⟩ := deliver_ok h
  simp only [validateBasic] at hvb
  obtain ⟨d, rfl, hvd, hvalid, hid, hsig, _⟩ := validateBasic_doc_ok hvb
  simp only [handle, bind, Outcome.bind] at hh
  obtain ⟨stored, vm, hst, hne, hp, hs'⟩ :=
    @live_proof cr s did db vmID sig (fun n => s.set did { doc := some d, seq := n, docBytes := db }) s' (by
      rw [← hh]
      split
      · rfl
      · cases (getDoc s did).deactivated <;> simp only
        · split
          · rfl
          · cases (getDoc s did).doc <;> simp only
            cases verifyOwnership cr db (getDoc s did).seq _ vmID sig <;> rfl)
  exact ⟨d, stored, vm, rfl, hvd, hvalid, hid, hsig, hst, hne, hp, hs'⟩

theorem deactivate_ok {da : Bytes → Option Bytes} {cr : Crypto} {s s' : State} {did vmID sig fr : Bytes}
    (h : deliver da cr s (.deactivate did vmID sig fr) = .ok s') :
    ∃ stored vm, validateDID did = true ∧ sig ≠ [] ∧
      (getDoc s did).doc = some stored ∧ stored.empty = false ∧
      Proven cr (marshalIdOnly did) (getDoc s did).seq stored vmID sig vm ∧
      s' = s.set did { doc := some emptyDoc, seq := nextSeq (getDoc s did).seq, docBytes := [] } := by
  obtain ⟨hvb, hh⟩ := deliver_ok h
  simp only [validateBasic] at hvb
  have hvd : validateDID did = true := by
    by_cases h1 : validateDID did = true
    · exact h1
    · simp [h1] at hvb
  have hsig : sig ≠ [] := by
    intro he; simp [hvd, he] at hvb
  simp only [handle, bind, Outcome.bind] at hh
  obtain ⟨stored, vm, hst, hne, hp, hs'⟩ :=
    @live_proof cr s did (marshalIdOnly did) vmID sig
      (fun n => s.set did { doc := some emptyDoc, seq := n, docBytes := [] }) s' (by
      rw [← hh]
      split
      · rfl
      · cases (getDoc s did).deactivated <;> simp only
        · split
          · rfl
          · cases (getDoc s did).doc <;> simp only
            cases verifyOwnership cr (marshalIdOnly did) (getDoc s did).seq _ vmID sig <;> rfl)
  exact ⟨stored, vm, hvd, hsig, hst, hne, hp, hs'⟩

/-- `vmFrom` only ever returns a method that the given relationship list names. -/
theorem vmFrom_some {d : Doc} {rels : List Rel} {id : Bytes} {vm : VM} (h : vmFrom d rels id = some vm) :
    (Rel.dedicated vm ∈ rels ∧ vm.id = id) ∨ (Rel.ref id ∈ rels ∧ vmByID d.vms id = some vm) := by
  induction rels with
  | nil => simp [vmFrom] at h
  | cons r rs ih =>
    cases r with
    | dedicated v =>
      simp only [vmFrom] at h
      split at h
      · rename_i he; simp at h; subst h; exact Or.inl ⟨by simp, he⟩
      · rcases ih h with ⟨a, b⟩ | ⟨a, b⟩
        · exact Or.inl ⟨by simp [a], b⟩
        · exact Or.inr ⟨by simp [a], b⟩
    | ref rid =>
      simp only [vmFrom] at h
      split at h
      · rename_i he; subst he; exact Or.inr ⟨by simp, h⟩
      · rcases ih h with ⟨a, b⟩ | ⟨a, b⟩
        · exact Or.inl ⟨by simp [a], b⟩
        · exact Or.inr ⟨by simp [a], b⟩

theorem getDoc_set_eq (s : State) (did : Bytes) (v : DocWithSeq) : getDoc (s.set did v) did = v := by
  simp [getDoc, Map.get_set_eq]

theorem getDoc_set_ne (s : State) (did did' : Bytes) (v : DocWithSeq) (h : did' ≠ did) :
    getDoc (s.set did v) did' = getDoc s did' := by
  simp [getDoc, Map.get_set_ne _ _ _ _ h]

end Panacea.Did
