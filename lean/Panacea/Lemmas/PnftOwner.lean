import Panacea.Lemmas.PnftInv
/-!
The owner bookkeeping of the `x/nft` keeper as used by PNFT: the `owner` table (token ↦ owner) has exactly the
token keys, and the owner index (`0x03 ‖ len(owner) ‖ owner ‖ 0 ‖ class ‖ 0 ‖ id`) has exactly one entry per
token, under the token's current owner.  Proved for the empty store and preserved by every message; then the
`PNFTsByDenomOwner` listing is exact.
-/
namespace Panacea.Pnft
open Panacea CompKey Validate Map

theorem uint8_ofNat_inj {a b : Nat} (ha : a < 256) (hb : b < 256) (h : UInt8.ofNat a = UInt8.ofNat b) : a = b := by
  have := congrArg UInt8.toNat h
  simp only [UInt8.toNat_ofNat'] at this
  omega

/-- the owner-index key determines owner, class and token (addresses shorter than 256 bytes, NUL-free class ids) -/
theorem ownerIdxKey_inj {o o' d d' i i' : Bytes} (ho : o.length < 256) (ho' : o'.length < 256)
    (hd : NoNul d) (hd' : NoNul d') (h : ownerIdxKey o d i = ownerIdxKey o' d' i') : o = o' ∧ d = d' ∧ i = i' := by
  simp only [ownerIdxKey, ownerIdxPrefix, List.cons_append, List.append_assoc, List.cons.injEq] at h
  obtain ⟨hl, hr⟩ := h
  have hlen := uint8_ofNat_inj ho ho' hl
  have hr' : o ++ 0x00 :: nftKey d i = o' ++ 0x00 :: nftKey d' i' := by simpa [nftKey] using hr
  obtain ⟨h1, h2⟩ := List.append_inj hr' hlen
  obtain ⟨h3, h4⟩ := nftKey_inj hd hd' (List.cons.inj h2).2
  exact ⟨h1, h3, h4⟩

theorem ownerIdxKey_split (o d i : Bytes) : ownerIdxKey o d i = ownerIdxPrefix o d ++ i := rfl

/-- the listing prefix of `(owner, class)` matches exactly the index keys of that owner and class -/
theorem ownerIdxPrefix_iff {o o' d d' i' : Bytes} (ho : o.length < 256) (ho' : o'.length < 256)
    (hd : NoNul d) (hd' : NoNul d') :
    ownerIdxPrefix o d <+: ownerIdxKey o' d' i' ↔ o = o' ∧ d = d' := by
  constructor
  · rintro ⟨t, ht⟩
    have : ownerIdxKey o d t = ownerIdxKey o' d' i' := by rw [ownerIdxKey_split]; exact ht
    obtain ⟨h1, h2, _⟩ := ownerIdxKey_inj ho ho' hd hd' this
    exact ⟨h1, h2⟩
  · rintro ⟨rfl, rfl⟩
    rw [ownerIdxKey_split]; exact List.prefix_append _ _

structure OInv (s : State) : Prop where
  sortedO : s.owners.Sorted
  sortedI : s.ownerIdx.Sorted
  ownerOfToken : ∀ k n, s.nfts.get k = some n → ∃ o, s.owners.get k = some o
  tokenOfOwner : ∀ k o, s.owners.get k = some o → s.nfts.has k = true ∧ o.length < 256
  idxWF : ∀ k, s.ownerIdx.has k = true →
    ∃ o d i, k = ownerIdxKey o d i ∧ NoNul d ∧ NoNul i ∧ s.owners.get (nftKey d i) = some o
  idxOfOwner : ∀ d i o, NoNul d → NoNul i → s.owners.get (nftKey d i) = some o →
    s.ownerIdx.has (ownerIdxKey o d i) = true

theorem oinv_empty : OInv {} := by
  refine ⟨by simp [Map.Sorted, Map.keys], by simp [Map.Sorted, Map.keys], ?_, ?_, ?_, ?_⟩
  · intro k n h; simp [Map.get] at h
  · intro k o h; simp [Map.get] at h
  · intro k h; simp [Map.has, Map.get] at h
  · intro d i o _ _ h; simp [Map.get] at h

/-- messages that touch neither tokens nor owners keep the owner invariant -/
theorem oinv_frame {s s' : State} (hi : OInv s) (hn : s'.nfts = s.nfts) (ho : s'.owners = s.owners)
    (hx : s'.ownerIdx = s.ownerIdx) : OInv s' := by
  refine ⟨by rw [ho]; exact hi.sortedO, by rw [hx]; exact hi.sortedI, ?_, ?_, ?_, ?_⟩
  · rw [hn, ho]; exact hi.ownerOfToken
  · rw [hn, ho]; exact hi.tokenOfOwner
  · rw [hx, ho]; exact hi.idxWF
  · rw [hx, ho]; exact hi.idxOfOwner

/-- `setOwner` for a token that has no owner entry yet (mint) or whose entry was just removed (transfer) -/
theorem oinv_setOwner {s : State} (hp : PInv s) (hi : OInv s) (d i o : Bytes) (hd : NoNul d) (hid : NoNul i)
    (hol : o.length < 256) (hnone : s.owners.get (nftKey d i) = none)
    (hpend : ∀ k n, s.nfts.get k = some n → k ≠ nftKey d i → ∃ o', s.owners.get k = some o')
    (htok : s.nfts.has (nftKey d i) = true)
    (htk : ∀ k o', s.owners.get k = some o' → s.nfts.has k = true ∧ o'.length < 256) :
    OInv (setOwner s d i o) := by
  have _ := hp
  refine ⟨sorted_set _ _ _ hi.sortedO, sorted_set _ _ _ hi.sortedI, ?_, ?_, ?_, ?_⟩
  · intro k n hg
    simp only [setOwner] at hg ⊢
    by_cases hk : k = nftKey d i
    · subst hk; exact ⟨o, get_set_eq _ _ _⟩
    · rw [get_set_ne _ _ _ _ hk]; exact hpend k n hg hk
  · intro k o' hg
    simp only [setOwner] at hg ⊢
    by_cases hk : k = nftKey d i
    · subst hk; rw [get_set_eq] at hg; cases hg; exact ⟨htok, hol⟩
    · rw [get_set_ne _ _ _ _ hk] at hg; exact htk k o' hg
  · intro k hk
    simp only [setOwner, has_set, Bool.or_eq_true, decide_eq_true_eq] at hk ⊢
    rcases hk with rfl | hk
    · exact ⟨o, d, i, rfl, hd, hid, get_set_eq _ _ _⟩
    · obtain ⟨o', d', i', rfl, hd', hi', hg'⟩ := hi.idxWF k hk
      refine ⟨o', d', i', rfl, hd', hi', ?_⟩
      have hne : nftKey d' i' ≠ nftKey d i := by
        intro he; rw [he, hnone] at hg'; cases hg'
      rw [get_set_ne _ _ _ _ hne]; exact hg'
  · intro d' i' o' hd' hi' hg
    simp only [setOwner] at hg ⊢
    rw [has_set]
    by_cases hk : nftKey d' i' = nftKey d i
    · rw [hk, get_set_eq] at hg; cases hg
      obtain ⟨rfl, rfl⟩ := nftKey_inj hd' hd hk
      simp
    · rw [get_set_ne _ _ _ _ hk] at hg
      simp [hi.idxOfOwner d' i' o' hd' hi' hg]

/-- `deleteOwner` of a token's current owner entry -/
theorem deleteOwner_props {s : State} (hi : OInv s) (d i o : Bytes) (hd : NoNul d) (hid : NoNul i)
    (hcur : s.owners.get (nftKey d i) = some o) :
    let s1 := deleteOwner s d i o
    s1.owners.Sorted ∧ s1.ownerIdx.Sorted ∧ s1.owners.get (nftKey d i) = none ∧
    (∀ k, k ≠ nftKey d i → s1.owners.get k = s.owners.get k) ∧
    (∀ k, s1.ownerIdx.has k = true →
      ∃ o' d' i', k = ownerIdxKey o' d' i' ∧ NoNul d' ∧ NoNul i' ∧ s1.owners.get (nftKey d' i') = some o') ∧
    (∀ d' i' o', NoNul d' → NoNul i' → s1.owners.get (nftKey d' i') = some o' →
      s1.ownerIdx.has (ownerIdxKey o' d' i') = true) := by
  have hol : o.length < 256 := (hi.tokenOfOwner _ _ hcur).2
  refine ⟨sorted_del _ _ hi.sortedO, sorted_del _ _ hi.sortedI, get_del_eq _ _, ?_, ?_, ?_⟩
  · intro k hk; exact get_del_ne _ _ _ hk
  · intro k hk
    simp only [deleteOwner, has_del, Bool.and_eq_true, decide_eq_true_eq] at hk ⊢
    obtain ⟨hne, hk⟩ := hk
    obtain ⟨o', d', i', rfl, hd', hi', hg'⟩ := hi.idxWF k hk
    refine ⟨o', d', i', rfl, hd', hi', ?_⟩
    have hne2 : nftKey d' i' ≠ nftKey d i := by
      intro he
      obtain ⟨rfl, rfl⟩ := nftKey_inj hd' hd he
      rw [hcur] at hg'; cases hg'
      exact hne rfl
    rw [get_del_ne _ _ _ hne2]; exact hg'
  · intro d' i' o' hd' hi' hg
    simp only [deleteOwner] at hg ⊢
    have hne2 : nftKey d' i' ≠ nftKey d i := by
      intro he; rw [he, get_del_eq] at hg; cases hg
    rw [get_del_ne _ _ _ hne2] at hg
    rw [has_del]
    have hol' : o'.length < 256 := (hi.tokenOfOwner _ _ hg).2
    have hkne : ownerIdxKey o' d' i' ≠ ownerIdxKey o d i := by
      intro he
      obtain ⟨_, h2, h3⟩ := ownerIdxKey_inj hol' hol hd' hd he
      exact hne2 (by rw [h2, h3])
    simp [hkne, hi.idxOfOwner d' i' o' hd' hi' hg]

/-- decoded addresses are shorter than 256 bytes (`sdk.VerifyAddressFormat`; `AddrCodec.Lawful.dec_ok`) -/
def DecShort (c : AddrCodec) : Prop := ∀ t a, c.dec t = some a → a.length < 256

theorem oinv_step {c : AddrCodec} (hc : DecShort c) {now : Int} {s s' : State} {m : PnftMsg}
    (hp : PInv s) (hi : OInv s) (h : handle c now s m = .ok s') : OInv s' := by
  cases m with
  | createDenom id n sy de u uh da cr =>
    obtain ⟨_, rfl⟩ := createDenom_ok h; exact oinv_frame hi rfl rfl rfl
  | updateDenom id n sy de u uh da up =>
    obtain ⟨d, _, _, d2, rfl, _, _⟩ := updateDenom_ok h; exact oinv_frame hi rfl rfl rfl
  | transferDenom id sd rc =>
    obtain ⟨d, _, _, rfl⟩ := transferDenom_ok h; exact oinv_frame hi rfl rfl rfl
  | deleteDenom id rm =>
    obtain ⟨d, _, _, _, rfl⟩ := deleteDenom_ok h; exact oinv_frame hi rfl rfl rfl
  | mintPNFT dn id n de u uh da cr =>
    obtain ⟨hdn, hidn⟩ := mint_noNul h
    obtain ⟨d, receiver, hg, _, hdec, hfresh, hn, ho, _⟩ := mint_ok h
    obtain ⟨d2, r2, hg2, hdec2, hx⟩ := mint_idx h
    rw [hg] at hg2; cases hg2
    rw [hdec] at hdec2; cases hdec2
    have hdid : d.id = dn := (hp.classKey dn d hg).1
    rw [hdid] at hn ho hx hfresh
    have hrl : receiver.length < 256 := hc _ _ hdec
    have hfresh' : s.nfts.get (nftKey dn id) = none := by simpa [hasNFT, Map.has] using hfresh
    have hnone : s.owners.get (nftKey dn id) = none := by
      cases hx2 : s.owners.get (nftKey dn id) with
      | none => rfl
      | some o =>
        have := (hi.tokenOfOwner _ _ hx2).1
        simp [Map.has, hfresh'] at this
    refine ⟨by rw [ho]; exact sorted_set _ _ _ hi.sortedO, by rw [hx]; exact sorted_set _ _ _ hi.sortedI, ?_, ?_, ?_, ?_⟩
    · intro k t hgt
      rw [hn] at hgt; rw [ho]
      by_cases hk : k = nftKey dn id
      · subst hk; exact ⟨receiver, get_set_eq _ _ _⟩
      · rw [get_set_ne _ _ _ _ hk] at hgt ⊢; exact hi.ownerOfToken k t hgt
    · intro k o hgo
      rw [ho] at hgo; rw [hn]
      by_cases hk : k = nftKey dn id
      · subst hk; rw [get_set_eq] at hgo; cases hgo
        exact ⟨by simp [has_set], hrl⟩
      · rw [get_set_ne _ _ _ _ hk] at hgo
        have := hi.tokenOfOwner k o hgo
        exact ⟨by simp [has_set, this.1], this.2⟩
    · intro k hk
      rw [hx] at hk; rw [ho]
      simp only [has_set, Bool.or_eq_true, decide_eq_true_eq] at hk
      rcases hk with rfl | hk
      · exact ⟨receiver, dn, id, rfl, hdn, hidn, get_set_eq _ _ _⟩
      · obtain ⟨o', d', i', rfl, hd', hi', hg'⟩ := hi.idxWF k hk
        refine ⟨o', d', i', rfl, hd', hi', ?_⟩
        have hne : nftKey d' i' ≠ nftKey dn id := by
          intro he; rw [he, hnone] at hg'; cases hg'
        rw [get_set_ne _ _ _ _ hne]; exact hg'
    · intro d' i' o' hd' hi' hgo
      rw [ho] at hgo; rw [hx, has_set]
      by_cases hk : nftKey d' i' = nftKey dn id
      · rw [hk, get_set_eq] at hgo; cases hgo
        obtain ⟨rfl, rfl⟩ := nftKey_inj hd' hdn hk
        simp
      · rw [get_set_ne _ _ _ _ hk] at hgo
        simp [hi.idxOfOwner d' i' o' hd' hi' hgo]
  | transferPNFT dn id sd rc =>
    obtain ⟨p, r, hgp, _, hdec, hcl, rfl⟩ := transferPNFT_ok h
    -- the token exists, so `dn`, `id` are its own NUL-free identifiers and it has an owner entry
    have hdn : NoNul dn := by
      unfold hasClass Map.has at hcl
      cases hx : s.classes.get dn with
      | none => simp [hx] at hcl
      | some d => exact (hp.classKey dn d hx).2
    obtain ⟨n, hgn⟩ : ∃ n, s.nfts.get (nftKey dn id) = some n := by
      unfold getPNFT at hgp
      cases hx : s.nfts.get (nftKey dn id) with
      | none => simp [hx] at hgp
      | some n => exact ⟨n, rfl⟩
    obtain ⟨hk, hcn, hin⟩ := hp.tokenKey _ n hgn
    obtain ⟨hd2, hi2⟩ := nftKey_inj hdn hcn hk
    have hidn : NoNul id := by rw [hi2]; exact hin
    obtain ⟨o, hcur⟩ := hi.ownerOfToken _ n hgn
    have hgo : getOwner s dn id = o := by simp [getOwner, hcur]
    rw [hgo]
    obtain ⟨hsO, hsI, hnone, hrest, hwf, hidx⟩ := deleteOwner_props hi dn id o hdn hidn hcur
    have hrl : r.length < 256 := hc _ _ hdec
    -- assemble the invariant of the intermediate state by hand and apply `setOwner`
    refine ⟨sorted_set _ _ _ hsO, sorted_set _ _ _ hsI, ?_, ?_, ?_, ?_⟩
    · intro k t hgt
      simp only [setOwner, deleteOwner] at hgt ⊢
      by_cases hk2 : k = nftKey dn id
      · subst hk2; exact ⟨r, get_set_eq _ _ _⟩
      · rw [get_set_ne _ _ _ _ hk2, get_del_ne _ _ _ hk2]; exact hi.ownerOfToken k t hgt
    · intro k o' hgo'
      simp only [setOwner, deleteOwner] at hgo' ⊢
      by_cases hk2 : k = nftKey dn id
      · subst hk2; rw [get_set_eq] at hgo'; cases hgo'
        exact ⟨by simp [Map.has, hgn], hrl⟩
      · rw [get_set_ne _ _ _ _ hk2, get_del_ne _ _ _ hk2] at hgo'; exact hi.tokenOfOwner k o' hgo'
    · intro k hk2
      simp only [setOwner] at hk2 ⊢
      simp only [has_set, Bool.or_eq_true, decide_eq_true_eq] at hk2
      rcases hk2 with rfl | hk2
      · exact ⟨r, dn, id, rfl, hdn, hidn, get_set_eq _ _ _⟩
      · obtain ⟨o', d', i', rfl, hd', hi', hg'⟩ := hwf k hk2
        refine ⟨o', d', i', rfl, hd', hi', ?_⟩
        have hne : nftKey d' i' ≠ nftKey dn id := by
          intro he; rw [he, hnone] at hg'; cases hg'
        rw [get_set_ne _ _ _ _ hne]; exact hg'
    · intro d' i' o' hd' hi' hgo'
      simp only [setOwner] at hgo' ⊢
      rw [has_set]
      by_cases hk2 : nftKey d' i' = nftKey dn id
      · rw [hk2, get_set_eq] at hgo'; cases hgo'
        obtain ⟨rfl, rfl⟩ := nftKey_inj hd' hdn hk2
        simp
      · rw [get_set_ne _ _ _ _ hk2] at hgo'
        simp [hidx d' i' o' hd' hi' hgo']
  | burnPNFT dn id bu =>
    obtain ⟨p, hgp, _, hcl, hn, _⟩ := burn_ok h
    obtain ⟨ho, hx⟩ := burn_owner h
    have hdn : NoNul dn := by
      unfold hasClass Map.has at hcl
      cases hx2 : s.classes.get dn with
      | none => simp [hx2] at hcl
      | some d => exact (hp.classKey dn d hx2).2
    obtain ⟨n, hgn⟩ : ∃ n, s.nfts.get (nftKey dn id) = some n := by
      unfold getPNFT at hgp
      cases hx2 : s.nfts.get (nftKey dn id) with
      | none => simp [hx2] at hgp
      | some n => exact ⟨n, rfl⟩
    obtain ⟨hk, hcn, hin⟩ := hp.tokenKey _ n hgn
    obtain ⟨hd2, hi2⟩ := nftKey_inj hdn hcn hk
    have hidn : NoNul id := by rw [hi2]; exact hin
    obtain ⟨o, hcur⟩ := hi.ownerOfToken _ n hgn
    have hgo : getOwner s dn id = o := by simp [getOwner, hcur]
    rw [hgo] at hx
    obtain ⟨hsO, hsI, hnone, hrest, hwf, hidx⟩ := deleteOwner_props hi dn id o hdn hidn hcur
    simp only [deleteOwner] at hsO hsI hnone hrest hwf hidx
    refine ⟨by rw [ho]; exact hsO, by rw [hx]; exact hsI, ?_, ?_, ?_, ?_⟩
    · intro k t hgt
      rw [hn] at hgt; rw [ho]
      by_cases hk2 : k = nftKey dn id
      · subst hk2; rw [get_del_eq] at hgt; cases hgt
      · rw [get_del_ne _ _ _ hk2] at hgt ⊢; exact hi.ownerOfToken k t hgt
    · intro k o' hgo'
      rw [ho] at hgo'; rw [hn]
      by_cases hk2 : k = nftKey dn id
      · subst hk2; rw [get_del_eq] at hgo'; cases hgo'
      · rw [get_del_ne _ _ _ hk2] at hgo'
        have := hi.tokenOfOwner k o' hgo'
        exact ⟨by simp [has_del, hk2, this.1], this.2⟩
    · rw [hx, ho]; exact hwf
    · rw [hx, ho]; exact hidx

theorem inv_run {c : AddrCodec} (hc : DecShort c) (ops : List (Int × PnftMsg)) : ∀ {s : State} {B : Nat},
    PInv s → OInv s → Below s B → B + ops.length < 18446744073709551616 →
    PInv (run c s ops) ∧ OInv (run c s ops) := by
  induction ops with
  | nil => intro s B hp hi _ _; exact ⟨hp, hi⟩
  | cons op ops ih =>
    intro s B hp hi hb hB
    simp only [run, List.foldl_cons]
    have hB1 : B + 1 < 18446744073709551616 := by simp at hB; omega
    have hstep : PInv (step c s op) ∧ OInv (step c s op) ∧ Below (step c s op) (B + 1) := by
      unfold step
      cases hh : handle c op.1 s op.2 with
      | ok s' => exact ⟨(pinv_step hp hb hB1 hh).1, oinv_step hc hp hi hh, (pinv_step hp hb hB1 hh).2⟩
      | err e => exact ⟨hp, hi, Nat.le_succ_of_le hb⟩
      | panic e => exact ⟨hp, hi, Nat.le_succ_of_le hb⟩
    have := ih (s := step c s op) (B := B + 1) hstep.1 hstep.2.1 hstep.2.2 (by simp at hB ⊢; omega)
    simpa [run] using this

/-- **`PNFTsByDenomOwner` is exact**: for a denom identifier the validators admit and a decodable owner
address, the listing contains exactly the tokens of that denom currently owned by that address. -/
theorem pnftsByDenomOwner_exact (c : AddrCodec) (hc : DecShort c) (s : State) (hp : PInv s) (hi : OInv s)
    (d owner o : Bytes) (hd : NoNul d) (hdec : c.dec owner = some o) (l : List Pnft)
    (h : queryPNFTsByDenomOwner c s d owner = .ok l) (p : Pnft) :
    p ∈ l ↔ ∃ i n, s.nfts.get (nftKey d i) = some n ∧ s.owners.get (nftKey d i) = some o ∧ p = toPnft c s d i n := by
  have hol : o.length < 256 := hc _ _ hdec
  simp only [queryPNFTsByDenomOwner, hdec, Outcome.ok.injEq] at h
  subst h
  simp only [List.mem_filterMap]
  constructor
  · rintro ⟨e, he, hge⟩
    have hmem := mem_prefixView.mp he
    have hhas : s.ownerIdx.has (ownerIdxPrefix o d ++ e.1) = true :=
      (get_isSome_iff_mem_keys _ _).mpr (List.mem_map.mpr ⟨_, hmem, rfl⟩)
    obtain ⟨o', d', i', hk, hd', hi', hgo⟩ := hi.idxWF _ hhas
    have hol' : o'.length < 256 := (hi.tokenOfOwner _ _ hgo).2
    rw [← ownerIdxKey_split] at hk
    obtain ⟨rfl, rfl, rfl⟩ := ownerIdxKey_inj hol hol' hd hd' hk
    unfold getPNFT at hge
    cases hx : s.nfts.get (nftKey d e.1) with
    | none => simp [hx] at hge
    | some n =>
      simp only [hx, Option.map_some, Option.some.injEq] at hge
      exact ⟨e.1, n, hx, hgo, hge.symm⟩
  · rintro ⟨i, n, hgn, hgo, rfl⟩
    obtain ⟨hk, hcn, hin⟩ := hp.tokenKey _ n hgn
    obtain ⟨_, hi2⟩ := nftKey_inj hd hcn hk
    have hidn : NoNul i := by rw [hi2]; exact hin
    have hhas := hi.idxOfOwner d i o hd hidn hgo
    have hmem : (ownerIdxPrefix o d ++ i, ()) ∈ s.ownerIdx := by
      rw [← ownerIdxKey_split]
      have := (get_isSome_iff_mem_keys _ _).mp hhas
      obtain ⟨e, he, hek⟩ := List.mem_map.mp this
      obtain ⟨k, u⟩ := e
      simp only at hek; subst hek
      exact he
    exact ⟨(i, ()), mem_prefixView.mpr hmem, by simp [getPNFT, hgn]⟩

end Panacea.Pnft
