import Panacea.Model.Pnft
import Panacea.Lemmas.KV
/-! Inversion lemmas for the PNFT message server; the `x/nft` key layout on NUL-free identifiers. -/
namespace Panacea.Pnft
open Panacea CompKey Validate

/-- split at the first NUL: for a NUL-free `d`, `d ++ 0 :: i` determines `d` and `i`. -/
theorem nftKey_inj {d d' i i' : Bytes} (hd : (0x00 : UInt8) ∉ d) (hd' : (0x00 : UInt8) ∉ d')
    (h : nftKey d i = nftKey d' i') : d = d' ∧ i = i' := by
  unfold nftKey at h
  induction d generalizing d' with
  | nil =>
    cases d' with
    | nil => simp at h; exact ⟨rfl, h⟩
    | cons x xs =>
      simp at h
      exact absurd (by simp [← h.1]) hd'
  | cons x xs ih =>
    cases d' with
    | nil =>
      simp at h
      exact absurd (by simp [h.1]) hd
    | cons y ys =>
      simp at h
      have := ih (d' := ys) (by intro hm; exact hd (by simp [hm])) (by intro hm; exact hd' (by simp [hm])) h.2
      exact ⟨by rw [h.1, this.1], this.2⟩

/-- the listing prefix `d ‖ 0x00` of a NUL-free denom matches exactly the token keys of that denom -/
theorem listPrefix_iff {d d' i' : Bytes} (hd : (0x00 : UInt8) ∉ d) (hd' : (0x00 : UInt8) ∉ d') :
    (d ++ [0x00]) <+: nftKey d' i' ↔ d = d' := by
  constructor
  · intro ⟨t, ht⟩
    have : nftKey d t = nftKey d' i' := by simpa [nftKey] using ht
    exact (nftKey_inj hd hd' this).1
  · intro h; subst h; exact ⟨i', by simp [nftKey]⟩

theorem validate_ok {c : AddrCodec} {now : Int} {s s' : State} {m : PnftMsg} (h : handle c now s m = .ok s') :
    pnftValidateBasic c.dec m = .ok () := by
  unfold handle at h
  simp only [bind, Outcome.bind, validateBasic] at h
  cases hv : pnftValidateBasic c.dec m with
  | ok u => rfl
  | err e => simp [hv] at h
  | panic e => simp [hv] at h

theorem updateDenom_ok {c : AddrCodec} {now : Int} {s s' : State} {id name symbol description uri uriHash data updater : Bytes}
    (h : handle c now s (.updateDenom id name symbol description uri uriHash data updater) = .ok s') :
    ∃ d, s.classes.get id = some d ∧ updater = d.owner ∧
      ∃ d', s' = { s with classes := s.classes.set id d' } ∧ d'.owner = d.owner ∧ d'.id = d.id := by
  have hv := validate_ok h
  simp only [handle, validateBasic, hv, bind, Outcome.bind, pure] at h
  cases hg : s.classes.get id with
  | none => simp [hg] at h
  | some d =>
    simp only [hg] at h
    split at h
    · simp at h
    · rename_i hne
      simp at h
      exact ⟨d, rfl, by simpa using hne, _, h.symm, rfl, rfl⟩

theorem deleteDenom_ok {c : AddrCodec} {now : Int} {s s' : State} {id remover : Bytes}
    (h : handle c now s (.deleteDenom id remover) = .ok s') :
    ∃ d, s.classes.get id = some d ∧ remover = d.owner ∧ getSupply s id = 0 ∧
      s' = { s with classes := s.classes.del id } := by
  have hv := validate_ok h
  simp only [handle, validateBasic, hv, bind, Outcome.bind, pure] at h
  cases hg : s.classes.get id with
  | none => simp [hg] at h
  | some d =>
    simp only [hg] at h
    split at h
    · simp at h
    · rename_i hne
      split at h
      · simp at h
      · rename_i hs
        simp at h
        exact ⟨d, rfl, by simpa using hne, by simpa using hs, h.symm⟩

theorem transferDenom_ok {c : AddrCodec} {now : Int} {s s' : State} {id sender receiver : Bytes}
    (h : handle c now s (.transferDenom id sender receiver) = .ok s') :
    ∃ d, s.classes.get id = some d ∧ sender = d.owner ∧
      s' = { s with classes := s.classes.set id { d with owner := receiver } } := by
  have hv := validate_ok h
  simp only [handle, validateBasic, hv, bind, Outcome.bind, pure] at h
  cases hg : s.classes.get id with
  | none => simp [hg] at h
  | some d =>
    simp only [hg] at h
    split at h
    · simp at h
    · rename_i hne
      simp at h
      exact ⟨d, rfl, by simpa using hne, h.symm⟩

theorem createDenom_ok {c : AddrCodec} {now : Int} {s s' : State} {id name symbol description uri uriHash data creator : Bytes}
    (h : handle c now s (.createDenom id name symbol description uri uriHash data creator) = .ok s') :
    hasClass s id = false ∧
      s' = { s with classes := s.classes.set id (newClass id name symbol description uri uriHash data creator) } := by
  have hv := validate_ok h
  simp only [handle, validateBasic, hv, bind, Outcome.bind, pure] at h
  split at h
  · simp at h
  · rename_i hc
    simp at h
    exact ⟨by simpa using hc, h.symm⟩

theorem mint_ok {c : AddrCodec} {now : Int} {s s' : State} {denomId id name description uri uriHash data creator : Bytes}
    (h : handle c now s (.mintPNFT denomId id name description uri uriHash data creator) = .ok s') :
    ∃ d receiver, s.classes.get denomId = some d ∧ d.owner = creator ∧ c.dec creator = some receiver ∧
      hasNFT s d.id id = false ∧
      s'.nfts = s.nfts.set (nftKey d.id id) (newNft d.id id name description uri uriHash data creator now) ∧
      s'.owners = s.owners.set (nftKey d.id id) receiver ∧ s'.classes = s.classes := by
  have hv := validate_ok h
  simp only [handle, validateBasic, hv, bind, Outcome.bind, pure] at h
  cases hg : s.classes.get denomId with
  | none => simp [hg] at h
  | some d =>
    simp only [hg] at h
    split at h
    · simp at h
    · rename_i hne
      cases hr : c.dec creator with
      | none => simp [hr] at h
      | some receiver =>
        simp only [hr] at h
        split at h
        · simp at h
        · rename_i hx
          simp at h
          subst h
          exact ⟨d, receiver, rfl, by simpa using hne, rfl, by simpa using hx, rfl, rfl, rfl⟩

theorem transferPNFT_ok {c : AddrCodec} {now : Int} {s s' : State} {denomId id sender receiver : Bytes}
    (h : handle c now s (.transferPNFT denomId id sender receiver) = .ok s') :
    ∃ p r, getPNFT c s denomId id = some p ∧ sender = p.owner ∧ c.dec receiver = some r ∧ hasClass s denomId = true ∧
      s' = setOwner (deleteOwner s denomId id (getOwner s denomId id)) denomId id r := by
  have hv := validate_ok h
  simp only [handle, validateBasic, hv, bind, Outcome.bind, pure] at h
  cases hg : getPNFT c s denomId id with
  | none => simp [hg] at h
  | some p =>
    simp only [hg] at h
    split at h
    · simp at h
    · rename_i hne
      cases hr : c.dec receiver with
      | none => simp [hr] at h
      | some r =>
        simp only [hr] at h
        split at h
        · simp at h
        · rename_i hc
          simp at h
          exact ⟨p, r, rfl, by simpa using hne, rfl, by simpa using hc, h.symm⟩

theorem burn_ok {c : AddrCodec} {now : Int} {s s' : State} {denomId id burner : Bytes}
    (h : handle c now s (.burnPNFT denomId id burner) = .ok s') :
    ∃ p, getPNFT c s denomId id = some p ∧ burner = p.owner ∧ hasClass s denomId = true ∧
      s'.nfts = s.nfts.del (nftKey denomId id) ∧ s'.classes = s.classes := by
  have hv := validate_ok h
  simp only [handle, validateBasic, hv, bind, Outcome.bind, pure] at h
  cases hg : getPNFT c s denomId id with
  | none => simp [hg] at h
  | some p =>
    simp only [hg] at h
    split at h
    · simp at h
    · rename_i hne
      split at h
      · simp at h
      · rename_i hc
        simp at h
        subst h
        exact ⟨p, rfl, by simpa using hne, by simpa using hc, rfl, rfl⟩

theorem mint_supply {c : AddrCodec} {now : Int} {s s' : State} {denomId id name description uri uriHash data creator : Bytes}
    (h : handle c now s (.mintPNFT denomId id name description uri uriHash data creator) = .ok s') :
    ∃ d, s.classes.get denomId = some d ∧ s'.supply = s.supply.set d.id (wrap64 (getSupply s d.id + 1)) := by
  have hv := validate_ok h
  simp only [handle, validateBasic, hv, bind, Outcome.bind, pure] at h
  cases hg : s.classes.get denomId with
  | none => simp [hg] at h
  | some d =>
    simp only [hg] at h
    split at h
    · simp at h
    · cases hr : c.dec creator with
      | none => simp [hr] at h
      | some receiver =>
        simp only [hr] at h
        split at h
        · simp at h
        · simp at h
          subst h
          exact ⟨d, rfl, rfl⟩

theorem burn_supply {c : AddrCodec} {now : Int} {s s' : State} {denomId id burner : Bytes}
    (h : handle c now s (.burnPNFT denomId id burner) = .ok s') :
    s'.supply = s.supply.set denomId (decU64 (getSupply s denomId)) := by
  have hv := validate_ok h
  simp only [handle, validateBasic, hv, bind, Outcome.bind, pure] at h
  cases hg : getPNFT c s denomId id with
  | none => simp [hg] at h
  | some p =>
    simp only [hg] at h
    split at h
    · simp at h
    · split at h
      · simp at h
      · simp at h
        subst h
        rfl

theorem transferPNFT_frame {c : AddrCodec} {now : Int} {s s' : State} {denomId id sender receiver : Bytes}
    (h : handle c now s (.transferPNFT denomId id sender receiver) = .ok s') :
    s'.nfts = s.nfts ∧ s'.supply = s.supply ∧ s'.classes = s.classes := by
  obtain ⟨p, r, _, _, _, _, rfl⟩ := transferPNFT_ok h
  exact ⟨rfl, rfl, rfl⟩

theorem mint_idx {c : AddrCodec} {now : Int} {s s' : State} {denomId id name description uri uriHash data creator : Bytes}
    (h : handle c now s (.mintPNFT denomId id name description uri uriHash data creator) = .ok s') :
    ∃ d receiver, s.classes.get denomId = some d ∧ c.dec creator = some receiver ∧
      s'.ownerIdx = s.ownerIdx.set (ownerIdxKey receiver d.id id) () := by
  have hv := validate_ok h
  simp only [handle, validateBasic, hv, bind, Outcome.bind, pure] at h
  cases hg : s.classes.get denomId with
  | none => simp [hg] at h
  | some d =>
    simp only [hg] at h
    split at h
    · simp at h
    · cases hr : c.dec creator with
      | none => simp [hr] at h
      | some receiver =>
        simp only [hr] at h
        split at h
        · simp at h
        · simp at h
          subst h
          exact ⟨d, receiver, rfl, rfl, rfl⟩

theorem burn_owner {c : AddrCodec} {now : Int} {s s' : State} {denomId id burner : Bytes}
    (h : handle c now s (.burnPNFT denomId id burner) = .ok s') :
    s'.owners = s.owners.del (nftKey denomId id) ∧
      s'.ownerIdx = s.ownerIdx.del (ownerIdxKey (getOwner s denomId id) denomId id) := by
  have hv := validate_ok h
  simp only [handle, validateBasic, hv, bind, Outcome.bind, pure] at h
  cases hg : getPNFT c s denomId id with
  | none => simp [hg] at h
  | some p =>
    simp only [hg] at h
    split at h
    · simp at h
    · split at h
      · simp at h
      · simp at h
        subst h
        exact ⟨rfl, rfl⟩

end Panacea.Pnft
