import Panacea.Lemmas.Pnft
import Panacea.Lemmas.PrefixView
/-!
The counting invariant of the PNFT store: the stored total supply of a denom is the number of token entries
under that denom's listing prefix, token entries are keyed by their own `(classId, id)`, class entries by their
own id, and every token's class exists.  Proved for the empty store and preserved by every message, as long as
the `uint64` supply counter does not overflow (fewer than `2^64` tokens).
-/
namespace Panacea.Pnft
open Panacea CompKey Validate Map

def NoNul (b : Bytes) : Prop := (0x00 : UInt8) ∉ b

structure PInv (s : State) : Prop where
  sortedN : s.nfts.Sorted
  sortedC : s.classes.Sorted
  classKey : ∀ k d, s.classes.get k = some d → d.id = k ∧ NoNul k
  tokenKey : ∀ k n, s.nfts.get k = some n → k = nftKey n.classId n.id ∧ NoNul n.classId ∧ NoNul n.id
  supplyCount : ∀ d, NoNul d → getSupply s d = countP (d ++ [0x00]) s.nfts.keys
  tokenClass : ∀ k n, s.nfts.get k = some n → s.classes.has n.classId = true

/-- fewer than `B` tokens in total -/
def Below (s : State) (B : Nat) : Prop := s.nfts.length ≤ B

theorem pinv_empty : PInv {} := by
  refine ⟨?_, ?_, ?_, ?_, ?_, ?_⟩
  · simp [Map.Sorted, Map.keys]
  · simp [Map.Sorted, Map.keys]
  · intro k d h; simp [Map.get] at h
  · intro k n h; simp [Map.get] at h
  · intro d _; simp [getSupply, Map.get, countP, Map.keys]
  · intro k n h; simp [Map.get] at h

theorem countP_le_length (p : Bytes) (ks : List Bytes) : countP p ks ≤ ks.length := by
  unfold countP; exact List.length_filter_le _ _

theorem noNul_of_ok {b : Bytes} (h : noNul b = .ok ()) : NoNul b := by
  unfold noNul at h
  cases hc : b.contains 0x00 with
  | true => rw [hc] at h; simp at h
  | false => simpa [NoNul] using hc

theorem seq_ok {x y : Outcome Unit} (h : (x >>= fun _ => y) = .ok ()) : x = .ok () ∧ y = .ok () := by
  cases x <;> simp [bind, Outcome.bind] at h ⊢; exact h

theorem createDenom_noNul {c : AddrCodec} {now : Int} {s s' : State} {id n sy de u uh da cr : Bytes}
    (h : handle c now s (.createDenom id n sy de u uh da cr) = .ok s') : NoNul id := by
  have hv := validate_ok h
  simp only [pnftValidateBasic] at hv
  exact noNul_of_ok (seq_ok (seq_ok hv).2).1

theorem mint_noNul {c : AddrCodec} {now : Int} {s s' : State} {dn id n de u uh da cr : Bytes}
    (h : handle c now s (.mintPNFT dn id n de u uh da cr) = .ok s') : NoNul dn ∧ NoNul id := by
  have hv := validate_ok h
  simp only [pnftValidateBasic] at hv
  have h3 := (seq_ok (seq_ok (seq_ok hv).2).2).2
  exact ⟨noNul_of_ok (seq_ok h3).1, noNul_of_ok (seq_ok (seq_ok h3).2).1⟩

theorem dec_mod (x y : Nat) (h1 : y + 1 = x) (h2 : x < 18446744073709551616) : decU64 x = y := by
  unfold decU64; omega

theorem inc_mod (x : Nat) (h2 : x + 1 < 18446744073709551616) : wrap64 (x + 1) = x + 1 := by
  unfold wrap64; omega

theorem isPrefix_listPrefix {d d' i' : Bytes} (hd : NoNul d) (hd' : NoNul d') :
    (d ++ [0x00]).isPrefixOf (nftKey d' i') = decide (d = d') := by
  by_cases h : d = d'
  · simp only [h, decide_true]
    exact (isPrefixOf_iff' _ _).mpr ((listPrefix_iff hd' hd').mpr rfl)
  · simp only [h, decide_false]
    cases hp : (d ++ [0x00]).isPrefixOf (nftKey d' i') with
    | false => rfl
    | true => exact absurd ((listPrefix_iff hd hd').mp ((isPrefixOf_iff' _ _).mp hp)) h

/-- a stored token's key is counted under its own denom's prefix and under no other -/
theorem has_iff_isSome {V} (m : Map V) (k : Bytes) : m.has k = (m.get k).isSome := rfl

theorem pinv_createDenom {c : AddrCodec} {now : Int} {s s' : State} {B : Nat} {id n sy de u uh da cr : Bytes}
    (hi : PInv s) (hb : Below s B) (hB : B + 1 < 18446744073709551616)
    (h : handle c now s (.createDenom id n sy de u uh da cr) = .ok s') : PInv s' ∧ Below s' (B + 1) := by
  have hnn := createDenom_noNul h
  obtain ⟨hno, rfl⟩ := createDenom_ok h
  refine ⟨⟨hi.sortedN, sorted_set _ _ _ hi.sortedC, ?_, hi.tokenKey, hi.supplyCount, ?_⟩, Nat.le_succ_of_le hb⟩
  · intro k d hg
    by_cases hk : k = id
    · subst hk; rw [get_set_eq] at hg; cases hg; exact ⟨rfl, hnn⟩
    · rw [get_set_ne _ _ _ _ hk] at hg; exact hi.classKey k d hg
  · intro k t hg
    simp only [has_set, hi.tokenClass k t hg, Bool.or_true]

theorem pinv_updateDenom {c : AddrCodec} {now : Int} {s s' : State} {B : Nat} {id n sy de u uh da up : Bytes}
    (hi : PInv s) (hb : Below s B) (hB : B + 1 < 18446744073709551616)
    (h : handle c now s (.updateDenom id n sy de u uh da up) = .ok s') : PInv s' ∧ Below s' (B + 1) := by
  obtain ⟨d, hg, _, d2, hs', _, hid2⟩ := updateDenom_ok h
  subst hs'
  refine ⟨⟨hi.sortedN, sorted_set _ _ _ hi.sortedC, ?_, hi.tokenKey, hi.supplyCount, ?_⟩, Nat.le_succ_of_le hb⟩
  · intro k d' hg'
    by_cases hk : k = id
    · subst hk; rw [get_set_eq] at hg'; cases hg'; rw [hid2]; exact hi.classKey k d hg
    · rw [get_set_ne _ _ _ _ hk] at hg'; exact hi.classKey k d' hg'
  · intro k t hgt
    simp only [has_set, hi.tokenClass k t hgt, Bool.or_true]

theorem pinv_transferDenom {c : AddrCodec} {now : Int} {s s' : State} {B : Nat} {id sd rc : Bytes}
    (hi : PInv s) (hb : Below s B) (hB : B + 1 < 18446744073709551616)
    (h : handle c now s (.transferDenom id sd rc) = .ok s') : PInv s' ∧ Below s' (B + 1) := by
  obtain ⟨d, hg, _, hs'⟩ := transferDenom_ok h
  subst hs'
  refine ⟨⟨hi.sortedN, sorted_set _ _ _ hi.sortedC, ?_, hi.tokenKey, hi.supplyCount, ?_⟩, Nat.le_succ_of_le hb⟩
  · intro k d' hg'
    by_cases hk : k = id
    · subst hk; rw [get_set_eq] at hg'; cases hg'; exact hi.classKey k d hg
    · rw [get_set_ne _ _ _ _ hk] at hg'; exact hi.classKey k d' hg'
  · intro k t hgt
    simp only [has_set, hi.tokenClass k t hgt, Bool.or_true]

theorem pinv_deleteDenom {c : AddrCodec} {now : Int} {s s' : State} {B : Nat} {id rm : Bytes}
    (hi : PInv s) (hb : Below s B) (hB : B + 1 < 18446744073709551616)
    (h : handle c now s (.deleteDenom id rm) = .ok s') : PInv s' ∧ Below s' (B + 1) := by
  obtain ⟨d, hg, _, h0, hs'⟩ := deleteDenom_ok h
  subst hs'
  have hidn : NoNul id := (hi.classKey id d hg).2
  refine ⟨⟨hi.sortedN, sorted_del _ _ hi.sortedC, ?_, hi.tokenKey, hi.supplyCount, ?_⟩, Nat.le_succ_of_le hb⟩
  · intro k d' hg'
    by_cases hk : k = id
    · subst hk; rw [get_del_eq] at hg'; cases hg'
    · rw [get_del_ne _ _ _ hk] at hg'; exact hi.classKey k d' hg'
  · -- no token of the deleted denom exists: its supply, which is the number of its tokens, is 0
    intro k t hgt
    obtain ⟨hk, hcn, hin⟩ := hi.tokenKey k t hgt
    have hne : t.classId ≠ id := by
      intro he
      have hc := hi.supplyCount id hidn
      rw [h0] at hc
      have hmem : k ∈ s.nfts.keys := (get_isSome_iff_mem_keys _ _).mp (by rw [hgt]; rfl)
      have : 0 < countP (id ++ [0x00]) s.nfts.keys := by
        unfold countP
        apply List.length_pos_of_mem (a := k)
        rw [List.mem_filter]
        refine ⟨hmem, ?_⟩
        rw [hk, he, isPrefix_listPrefix hidn hidn]; simp
      omega
    simp only [has_del, hi.tokenClass k t hgt, Bool.and_true, decide_eq_true_eq]
    exact hne

theorem pinv_mintPNFT {c : AddrCodec} {now : Int} {s s' : State} {B : Nat} {dn id n de u uh da cr : Bytes}
    (hi : PInv s) (hb : Below s B) (hB : B + 1 < 18446744073709551616)
    (h : handle c now s (.mintPNFT dn id n de u uh da cr) = .ok s') : PInv s' ∧ Below s' (B + 1) := by
  obtain ⟨hdn, hidn⟩ := mint_noNul h
  obtain ⟨d, receiver, hg, _, _, hfresh, hn, _, hc⟩ := mint_ok h
  obtain ⟨d2, hg2, hsup⟩ := mint_supply h
  rw [hg] at hg2; cases hg2
  have hdid : d.id = dn := (hi.classKey dn d hg).1
  rw [hdid] at hn hsup hfresh
  have hfresh' : s.nfts.get (nftKey dn id) = none := by
    simpa [hasNFT, Map.has] using hfresh
  have hlen : s'.nfts.length ≤ B + 1 := by
    rw [hn]
    have : (s.nfts.set (nftKey dn id) (newNft dn id n de u uh da cr now)).keys.length = s.nfts.keys.length + 1 := by
      obtain ⟨l1, l2, h1, h2⟩ := keys_set_fresh s.nfts (nftKey dn id) (newNft dn id n de u uh da cr now) hfresh'
      rw [h2, h1]; simp; omega
    simp only [Map.keys, List.length_map] at this
    unfold Below at hb; omega
  refine ⟨⟨?_, ?_, ?_, ?_, ?_, ?_⟩, hlen⟩
  · rw [hn]; exact sorted_set _ _ _ hi.sortedN
  · rw [hc]; exact hi.sortedC
  · rw [hc]; exact hi.classKey
  · intro k t hgt
    rw [hn] at hgt
    by_cases hk : k = nftKey dn id
    · subst hk; rw [get_set_eq] at hgt; cases hgt
      exact ⟨rfl, hdn, hidn⟩
    · rw [get_set_ne _ _ _ _ hk] at hgt; exact hi.tokenKey k t hgt
  · intro d' hd'
    rw [hn, count_set_fresh _ _ _ _ hfresh', isPrefix_listPrefix hd' hdn]
    unfold getSupply
    rw [hsup]
    by_cases he : d' = dn
    · subst he
      rw [get_set_eq]
      have hc0 := hi.supplyCount d' hd'
      have hle : countP (d' ++ [0x00]) s.nfts.keys ≤ s.nfts.length := by
        have := countP_le_length (d' ++ [0x00]) s.nfts.keys
        simpa [Map.keys] using this
      unfold Below at hb
      simp only [decide_true, if_true, Option.getD_some]
      rw [inc_mod _ (by rw [hc0]; omega), hc0]
    · rw [get_set_ne _ _ _ _ he]
      simp only [he, decide_false, Bool.false_eq_true, if_false, Nat.add_zero]
      exact hi.supplyCount d' hd'
  · intro k t hgt
    rw [hn] at hgt
    rw [hc]
    by_cases hk : k = nftKey dn id
    · subst hk; rw [get_set_eq] at hgt; cases hgt
      simp only [newNft, Map.has, hg, Option.isSome_some]
    · rw [get_set_ne _ _ _ _ hk] at hgt; exact hi.tokenClass k t hgt

theorem pinv_transferPNFT {c : AddrCodec} {now : Int} {s s' : State} {B : Nat} {dn id sd rc : Bytes}
    (hi : PInv s) (hb : Below s B) (hB : B + 1 < 18446744073709551616)
    (h : handle c now s (.transferPNFT dn id sd rc) = .ok s') : PInv s' ∧ Below s' (B + 1) := by
  obtain ⟨hn, hsu, hc⟩ := transferPNFT_frame h
  refine ⟨⟨by rw [hn]; exact hi.sortedN, by rw [hc]; exact hi.sortedC, by rw [hc]; exact hi.classKey,
    by rw [hn]; exact hi.tokenKey, ?_, by rw [hn, hc]; exact hi.tokenClass⟩, by unfold Below at hb ⊢; rw [hn]; omega⟩
  intro d hd
  unfold getSupply; rw [hsu, hn]; exact hi.supplyCount d hd

theorem pinv_burnPNFT {c : AddrCodec} {now : Int} {s s' : State} {B : Nat} {dn id bu : Bytes}
    (hi : PInv s) (hb : Below s B) (hB : B + 1 < 18446744073709551616)
    (h : handle c now s (.burnPNFT dn id bu) = .ok s') : PInv s' ∧ Below s' (B + 1) := by
  obtain ⟨p, hgp, _, hcl, hn, hc⟩ := burn_ok h
  have hsup := burn_supply h
  -- the denom exists, and class keys are NUL-free
  have hdn : NoNul dn := by
    unfold hasClass Map.has at hcl
    cases hx : s.classes.get dn with
    | none => simp [hx] at hcl
    | some d => exact (hi.classKey dn d hx).2
  have hpres : (s.nfts.get (nftKey dn id)).isSome = true := by
    unfold getPNFT at hgp
    cases hx : s.nfts.get (nftKey dn id) with
    | none => simp [hx] at hgp
    | some _ => rfl
  have hlen : s'.nfts.length ≤ B + 1 := by
    rw [hn]
    have := (del_sublist s.nfts (nftKey dn id)).length_le
    unfold Below at hb; omega
  refine ⟨⟨?_, ?_, ?_, ?_, ?_, ?_⟩, hlen⟩
  · rw [hn]; exact sorted_del _ _ hi.sortedN
  · rw [hc]; exact hi.sortedC
  · rw [hc]; exact hi.classKey
  · intro k t hgt
    rw [hn] at hgt
    by_cases hk : k = nftKey dn id
    · subst hk; rw [get_del_eq] at hgt; cases hgt
    · rw [get_del_ne _ _ _ hk] at hgt; exact hi.tokenKey k t hgt
  · intro d' hd'
    have hcd := count_del_present s.nfts (nftKey dn id) (d' ++ [0x00]) hi.sortedN hpres
    -- the burned token's key is `nftKey dn id` with a NUL-free `dn`
    rw [isPrefix_listPrefix hd' hdn] at hcd
    unfold getSupply
    rw [hsup, hn]
    by_cases he : d' = dn
    · subst he
      have hc0 := hi.supplyCount d' hd'
      have hcd' : countP (d' ++ [0x00]) (s.nfts.del (nftKey d' id)).keys + 1 = countP (d' ++ [0x00]) s.nfts.keys := by
        have hd : decide (d' = d') = true := decide_eq_true rfl
        rw [hd] at hcd
        exact hcd
      have hle : countP (d' ++ [0x00]) s.nfts.keys ≤ s.nfts.length := by
        have := countP_le_length (d' ++ [0x00]) s.nfts.keys
        simpa [Map.keys] using this
      unfold Below at hb
      rw [get_set_eq, Option.getD_some]
      exact dec_mod _ _ (by rw [hc0]; exact hcd') (by rw [hc0]; omega)
    · rw [get_set_ne _ _ _ _ he]
      simp only [he, decide_false, Bool.false_eq_true, if_false, Nat.add_zero] at hcd
      rw [hcd]
      exact hi.supplyCount d' hd'
  · intro k t hgt
    rw [hn] at hgt
    rw [hc]
    by_cases hk : k = nftKey dn id
    · subst hk; rw [get_del_eq] at hgt; cases hgt
    · rw [get_del_ne _ _ _ hk] at hgt; exact hi.tokenClass k t hgt

theorem pinv_step {c : AddrCodec} {now : Int} {s s' : State} {m : PnftMsg} {B : Nat}
    (hi : PInv s) (hb : Below s B) (hB : B + 1 < 18446744073709551616) (h : handle c now s m = .ok s') :
    PInv s' ∧ Below s' (B + 1) := by
  cases m with
  | createDenom id n sy de u uh da cr => exact pinv_createDenom hi hb hB h
  | updateDenom id n sy de u uh da up => exact pinv_updateDenom hi hb hB h
  | transferDenom id sd rc => exact pinv_transferDenom hi hb hB h
  | deleteDenom id rm => exact pinv_deleteDenom hi hb hB h
  | mintPNFT dn id n de u uh da cr => exact pinv_mintPNFT hi hb hB h
  | transferPNFT dn id sd rc => exact pinv_transferPNFT hi hb hB h
  | burnPNFT dn id bu => exact pinv_burnPNFT hi hb hB h

theorem pinv_run {c : AddrCodec} (ops : List (Int × PnftMsg)) : ∀ {s : State} {B : Nat},
    PInv s → Below s B → B + ops.length < 18446744073709551616 →
    PInv (run c s ops) ∧ Below (run c s ops) (B + ops.length) := by
  induction ops with
  | nil => intro s B hi hb _; exact ⟨hi, hb⟩
  | cons op ops ih =>
    intro s B hi hb hB
    simp only [run, List.foldl_cons]
    have hB1 : B + 1 < 18446744073709551616 := by simp at hB; omega
    have hstep : PInv (step c s op) ∧ Below (step c s op) (B + 1) := by
      unfold step
      cases hh : handle c op.1 s op.2 with
      | ok s' => exact pinv_step hi hb hB1 hh
      | err e => exact ⟨hi, Nat.le_succ_of_le hb⟩
      | panic e => exact ⟨hi, Nat.le_succ_of_le hb⟩
    have := ih (s := step c s op) (B := B + 1) hstep.1 hstep.2 (by simp at hB ⊢; omega)
    simp only [run] at this
    refine ⟨this.1, ?_⟩
    have h2 := this.2
    simp only [List.length_cons]
    rw [show B + (ops.length + 1) = B + 1 + ops.length by omega]
    exact h2

end Panacea.Pnft
