import Panacea.Model.Paginate
import Panacea.Lemmas.KV
/-! `query.Paginate`: results are drawn from the store view; following `next_key` forward returns the
whole view exactly once; `count_total` reports its length. -/
namespace Panacea.Paginate
open Panacea

variable {V : Type}

def SortedItems (items : List (Bytes × V)) : Prop := (items.map (·.1)).Pairwise (fun a b => Bytes.lt a b = true)

theorem iterFrom_subset {items it : List (Bytes × V)} {start : Bytes} {rev : Bool}
    (h : iterFrom items start rev = .ok it) : ∀ e ∈ it, e ∈ items := by
  unfold iterFrom at h
  split at h
  · simp at h; subst h
    split
    · intro e he; exact he
    · intro e he; exact (List.mem_filter.mp he).1
  · split at h
    · simp at h; subst h; intro e he; exact List.mem_reverse.mp he
    · split at h
      · simp at h; subst h; intro e he; exact List.mem_reverse.mp he
      · simp at h
      · simp at h; subst h; intro e he; exact (List.mem_filter.mp (List.mem_reverse.mp he)).1

theorem pageByKey_subset {items res : List (Bytes × V)} {key : Bytes} {rev : Bool} {limit : Nat} {page : PageResponse}
    (h : pageByKey items key rev limit = .ok (res, page)) : ∀ e ∈ res, e ∈ items := by
  unfold pageByKey at h
  cases hi : iterFrom items key rev with
  | ok it =>
    simp only [hi] at h; simp at h
    intro e he; rw [← h.1] at he
    exact iterFrom_subset hi e (List.mem_of_mem_take he)
  | err c => simp [hi] at h
  | panic s => simp [hi] at h

theorem pageByOffset_subset {items res : List (Bytes × V)} {o l : Nat} {ct rev : Bool} {page : PageResponse}
    (h : pageByOffset items o l ct rev = .ok (res, page)) : ∀ e ∈ res, e ∈ items := by
  unfold pageByOffset at h
  cases hi : iterFrom items [] rev with
  | ok it =>
    simp only [hi] at h; simp at h
    intro e he; rw [← h.1] at he
    exact iterFrom_subset hi e (List.mem_of_mem_drop (List.mem_of_mem_take he))
  | err c => simp [hi] at h
  | panic s => simp [hi] at h

/-- Whatever the request, every entry handed to `onResult` is an entry of the store view. -/
theorem paginate_subset {items res : List (Bytes × V)} {req : PageRequest} {page : PageResponse}
    (h : paginate items req = .ok (res, page)) : ∀ e ∈ res, e ∈ items := by
  unfold paginate at h
  by_cases h1 : req.offset > 0 ∧ req.key ≠ []
  · simp [h1] at h
  · simp only [h1, if_false] at h
    by_cases h2 : req.key ≠ []
    · rw [if_pos h2] at h; exact pageByKey_subset h
    · rw [if_neg h2] at h; exact pageByOffset_subset h

/-- `count_total` reports the number of entries of the view. -/
theorem paginate_total {items res : List (Bytes × V)} {req : PageRequest} {page : PageResponse}
    (hk : req.key = []) (hc : req.countTotal = true ∨ req.limit = 0)
    (h : paginate items req = .ok (res, page)) : page.total = items.length := by
  unfold paginate at h
  simp only [hk, ne_eq, not_true_eq_false, and_false, if_false] at h
  unfold pageByOffset at h
  cases hi : iterFrom items [] req.reverse with
  | ok it =>
    have hlen : it.length = items.length := by
      unfold iterFrom at hi
      cases hr : req.reverse <;> simp [hr] at hi <;> subst hi <;> simp
    simp only [hi] at h; simp at h
    rw [← h.2]; simp only
    rcases hc with hc | hc
    · by_cases h0 : req.limit = 0 <;> simp [hc, h0, hlen]
    · simp [hc, hlen]
  | err c => simp [hi] at h
  | panic s => simp [hi] at h

/-! ### Forward walk by `next_key` -/

/-- one forward page starting at `start` (`[]` = from the beginning), `limit > 0` -/
def pageFwd (items : List (Bytes × V)) (start : Bytes) (limit : Nat) : Outcome (List (Bytes × V) × PageResponse) :=
  paginate items { key := start, limit := limit }

/-- follow `next_key` until it is empty -/
def walkFwd (items : List (Bytes × V)) (limit : Nat) : Nat → Bytes → Option (List (Bytes × V))
  | 0, _ => none
  | fuel+1, start =>
    match pageFwd items start limit with
    | .ok (res, page) =>
      if page.nextKey = [] then some res
      else (walkFwd items limit fuel page.nextKey).map (res ++ ·)
    | _ => none

theorem filter_ge_eq_drop (items : List (Bytes × V)) (hs : SortedItems items) :
    ∀ (i : Nat) (e : Bytes × V), items[i]? = some e →
      items.filter (fun x => !Bytes.lt x.1 e.1) = items.drop i := by
  induction items with
  | nil => intro i e h; simp at h
  | cons a l ih =>
    intro i e h
    unfold SortedItems at hs ih
    simp only [List.map_cons, List.pairwise_cons] at hs
    cases i with
    | zero =>
      simp at h; subst h
      simp only [List.filter_cons, Bytes.lt_irrefl, Bool.not_false, if_true, List.drop_zero]
      congr 1
      rw [List.filter_eq_self]
      intro x hx
      have := hs.1 x.1 (List.mem_map.mpr ⟨x, hx, rfl⟩)
      simp [Bytes.lt_asymm _ _ this]
    | succ i =>
      simp at h
      have hk : e ∈ l := List.mem_of_getElem? h
      have hlt : Bytes.lt a.1 e.1 = true := hs.1 e.1 (List.mem_map.mpr ⟨e, hk, rfl⟩)
      simp only [List.filter_cons, hlt, Bool.not_true, Bool.false_eq_true, if_false, List.drop_succ_cons]
      exact ih hs.2 i e h

theorem walkFwd_from (items : List (Bytes × V)) (hs : SortedItems items) (hne : ∀ e ∈ items, e.1 ≠ [])
    (limit : Nat) (hl : 0 < limit) (hlim : limit < 18446744073709551616) :
    ∀ (fuel i : Nat) (e : Bytes × V), items[i]? = some e → items.length - i ≤ fuel * limit →
      walkFwd items limit fuel e.1 = some (items.drop i) := by
  intro fuel
  induction fuel with
  | zero =>
    intro i e h hle
    have : i < items.length := (List.getElem?_eq_some_iff.mp h).1
    omega
  | succ fuel ih =>
    intro i e h hle
    have hene : e.1 ≠ [] := hne e (List.mem_of_getElem? h)
    have hlim0 : limit ≠ 0 := by omega
    simp only [walkFwd, pageFwd, paginate, pageByKey, hene, ne_eq, not_false_eq_true, and_true, hlim0, if_false,
      iterFrom, Bool.not_false, if_true, Bool.false_eq_true, Nat.lt_irrefl, gt_iff_lt]
    rw [filter_ge_eq_drop items hs i e h]
    simp only [List.getElem?_drop, List.drop_drop]
    cases hn : items[i + limit]? with
    | none =>
      have hlen : items.length ≤ i + limit := by
        rcases Nat.lt_or_ge (i + limit) items.length with hlt | hge
        · rw [List.getElem?_eq_getElem hlt] at hn; cases hn
        · exact hge
      simp only [if_true]
      rw [List.take_of_length_le (by simp; omega)]
    | some e' =>
      have hlt : i + limit < items.length := (List.getElem?_eq_some_iff.mp hn).1
      have hne' : e'.1 ≠ [] := hne e' (List.mem_of_getElem? hn)
      simp only [hne', if_false]
      rw [ih (i + limit) e' hn (by
        have : (fuel + 1) * limit = fuel * limit + limit := Nat.succ_mul _ _
        omega)]
      simp only [Option.map_some]
      rw [← List.drop_drop, List.take_append_drop]

/-- **Forward walk completeness.**  Starting without a key and following `next_key` with any page size
`0 < limit < 2^64 - 1` returns exactly the entries of the view, in order, each once. -/
theorem walkFwd_complete (items : List (Bytes × V)) (hs : SortedItems items) (hne : ∀ e ∈ items, e.1 ≠ [])
    (limit : Nat) (hl : 0 < limit) (hlim1 : limit + 1 < 18446744073709551616) :
    walkFwd items limit (items.length + 1) [] = some items := by
  have hlim : limit < 18446744073709551616 := by omega
  have hlim0 : limit ≠ 0 := by omega
  have hw : wrap64 limit = limit := Nat.mod_eq_of_lt hlim
  simp only [walkFwd, pageFwd, paginate, pageByOffset, ne_eq, not_true_eq_false, and_false, if_false, hlim0,
    iterFrom, Bool.not_false, if_true, Nat.zero_add, hw, List.drop_zero, Nat.sub_zero]
  have hcond : limit + 1 < 18446744073709551616 ∧ 0 < limit + 1 := ⟨hlim1, by omega⟩
  simp only [hcond, and_self, if_true]
  cases hn : items[limit]? with
  | none =>
    have hlen : items.length ≤ limit := by
      rcases Nat.lt_or_ge limit items.length with hlt | hge
      · rw [List.getElem?_eq_getElem hlt] at hn; cases hn
      · exact hge
    simp [List.take_of_length_le hlen]
  | some e' =>
    have hlt : limit < items.length := (List.getElem?_eq_some_iff.mp hn).1
    have hne' : e'.1 ≠ [] := hne e' (List.mem_of_getElem? hn)
    simp only [hne', if_false]
    rw [walkFwd_from items hs hne limit hl hlim items.length limit e' hn (by
      have : items.length ≤ items.length * limit := Nat.le_mul_of_pos_right _ hl
      omega)]
    simp only [Option.map_some, List.take_append_drop]

example : walkFwd [([1], 10), ([2], 20), ([3], 30)] 2 4 [] = some [([1], 10), ([2], 20), ([3], 30)] := by decide

end Panacea.Paginate
