import Panacea.Model.Paginate
import Panacea.Lemmas.KV
/-! `query.Paginate`: results are drawn from the store view; following `next_key` forward returns the
whole view exactly once; `count_total` reports its length. -/
namespace Panacea.Paginate
open Panacea

variable {V : Type}

def SortedItems (items : List (Bytes × V)) : Prop := (items.map (·.1)).Pairwise (fun a b => Bytes.lt a b = true)

theorem iterFrom_subset {items it : List (Bytes × V)} {start : Bytes} {rev : Bool}
    (h : iterFrom items start rev = .ok it) : ∀ e ∈ it, e ∈ items := by
  unfold iterFrom at h
  split at h
  · simp at h; subst h
    split
    · intro e he; exact he
    · intro e he; exact (List.mem_filter.mp he).1
  · split at h
    · simp at h; subst h; intro e he; exact List.mem_reverse.mp he
    · split at h
      · simp at h; subst h; intro e he; exact List.mem_reverse.mp he
      · simp at h
      · simp at h; subst h; intro e he; exact (List.mem_filter.mp (List.mem_reverse.mp he)).1

theorem pageByKey_subset {items res : List (Bytes × V)} {key : Bytes} {rev : Bool} {limit : Nat} {page : PageResponse}
    (h : pageByKey items key rev limit = .ok (res, page)) : ∀ e ∈ res, e ∈ items := by
  unfold pageByKey at h
  cases hi : iterFrom items key rev with
  | ok it =>
    simp only [hi] at h; simp at h
    intro e he; rw [← h.1] at he
    exact iterFrom_subset hi e (List.mem_of_mem_take he)
  | err c => simp [hi] at h
  | panic s => simp [hi] at h

theorem pageByOffset_subset {items res : List (Bytes × V)} {o l : Nat} {ct rev : Bool} {page : PageResponse}
    (h : pageByOffset items o l ct rev = .ok (res, page)) : ∀ e ∈ res, e ∈ items := by
  unfold pageByOffset at h
  cases hi : iterFrom items [] rev with
  | ok it =>
    simp only [hi] at h; simp at h
    intro e he; rw [← h.1] at he
    exact iterFrom_subset hi e (List.mem_of_mem_drop (List.mem_of_mem_take he))
  | err c => simp [hi] at h
  | panic s => simp [hi] at h

/-- Whatever the request, every entry handed to `onResult` is an entry of the store view. -/
theorem paginate_subset {items res : List (Bytes × V)} {req : PageRequest} {page : PageResponse}
    (h : paginate items req = .ok (res, page)) : ∀ e ∈ res, e ∈ items := by
  unfold paginate at h
  by_cases h1 : req.offset > 0 ∧ req.key ≠ []
  · simp [h1] at h
  · simp only [h1, if_false] at h
    by_cases h2 : req.key ≠ []
    · rw [if_pos h2] at h; exact pageByKey_subset h
    · rw [if_neg h2] at h; exact pageByOffset_subset h

/-- `count_total` reports the number of entries of the view. -/
theorem paginate_total {items res : List (Bytes × V)} {req : PageRequest} {page : PageResponse}
    (hk : req.key = []) (hc : req.countTotal = true ∨ req.limit = 0)
    (h : paginate items req = .ok (res, page)) : page.total = items.length := by
  unfold paginate at h
  simp only [hk, ne_eq, not_true_eq_false, and_false, if_false] at h
  unfold pageByOffset at h
  cases hi : iterFrom items [] req.reverse with
  | ok it =>
    have hlen : it.length = items.length := by
      unfold iterFrom at hi
      cases hr : req.reverse <;> simp [hr] at hi <;> subst hi <;> simp
    simp only [hi] at h; simp at h
    rw [← h.2]; simp only
    rcases hc with hc | hc
    · by_cases h0 : req.limit = 0 <;> simp [hc, h0, hlen]
    · simp [hc, hlen]
  | err c => simp [hi] at h
  | panic s => simp [hi] at h

/-! ### Forward walk by `next_key` -/

/-- one forward page starting at `start` (`[]` = from the beginning), `limit > 0` -/
def pageFwd (items : List (Bytes × V)) (start : Bytes) (limit : Nat) : Outcome (List (Bytes × V) × PageResponse) :=
  paginate items { key := start, limit := limit }

/-- follow `next_key` until it is empty -/
def walkFwd (items : List (Bytes × V)) (limit : Nat) : Nat → Bytes → Option (List (Bytes × V))
  | 0, _ => none
  | fuel+1, start =>
    match pageFwd items start limit with
    | .ok (res, page) =>
      if page.nextKey = [] then some res
      else (walkFwd items limit fuel page.nextKey).map (res ++ ·)
    | _ => none

theorem filter_ge_eq_drop (items : List (Bytes × V)) (hs : SortedItems items) :
    ∀ (i : Nat) (e : Bytes × V), items[i]? = some e →
      items.filter (fun x => !Bytes.lt x.1 e.1) = items.drop i := by
  induction items with
  | nil => intro i e h; simp at h
  | cons a l ih =>
    intro i e h
    unfold SortedItems at hs ih
    simp only [List.map_cons, List.pairwise_cons] at hs
    cases i with
    | zero =>
      simp at h; subst h
      simp only [List.filter_cons, Bytes.lt_irrefl, Bool.not_false, if_true, List.drop_zero]
      congr 1
      rw [List.filter_eq_self]
      intro x hx
      have := hs.1 x.1 (List.mem_map.mpr ⟨x, hx, rfl⟩)
      simp [Bytes.lt_asymm _ _ this]
    | succ i =>
      simp at h
      have hk : e ∈ l := List.mem_of_getElem? h
      have hlt : Bytes.lt a.1 e.1 = true := hs.1 e.1 (List.mem_map.mpr ⟨e, hk, rfl⟩)
      simp only [List.filter_cons, hlt, Bool.not_true, Bool.false_eq_true, if_false, List.drop_succ_cons]
      exact ih hs.2 i e h

theorem walkFwd_from (items : List (Bytes × V)) (hs : SortedItems items) (hne : ∀ e ∈ items, e.1 ≠ [])
    (limit : Nat) (hl : 0 < limit) (hlim : limit < 18446744073709551616) :
    ∀ (fuel i : Nat) (e : Bytes × V), items[i]? = some e → items.length - i ≤ fuel * limit →
      walkFwd items limit fuel e.1 = some (items.drop i) := by
  intro fuel
  induction fuel with
  | zero =>
    intro i e h hle
    have : i < items.length := (List.getElem?_eq_some_iff.mp h).1
    omega
  | succ fuel ih =>
    intro i e h hle
    have hene : e.1 ≠ [] := hne e (List.mem_of_getElem? h)
    have hlim0 : limit ≠ 0 := by omega
    simp only [walkFwd, pageFwd, paginate, pageByKey, keyAt, hene, ne_eq, not_false_eq_true, and_true, hlim0, if_false,
      iterFrom, Bool.not_false, if_true, Bool.false_eq_true, Nat.lt_irrefl, gt_iff_lt]
    rw [filter_ge_eq_drop items hs i e h]
    simp only [List.getElem?_drop, List.drop_drop]
    cases hn : items[i + limit]? with
    | none =>
      have hlen : items.length ≤ i + limit := by
        rcases Nat.lt_or_ge (i + limit) items.length with hlt | hge
        · rw [List.getElem?_eq_getElem hlt] at hn; cases hn
        · exact hge
      simp only [if_true]
      rw [List.take_of_length_le (by simp; omega)]
    | some e' =>
      have hlt : i + limit < items.length := (List.getElem?_eq_some_iff.mp hn).1
      have hne' : e'.1 ≠ [] := hne e' (List.mem_of_getElem? hn)
      simp only [hne', if_false]
      rw [ih (i + limit) e' hn (by
        have : (fuel + 1) * limit = fuel * limit + limit := Nat.succ_mul _ _
        omega)]
      simp only [Option.map_some]
      rw [← List.drop_drop, List.take_append_drop]

/-- **Forward walk completeness.**  Starting without a key and following `next_key` with any page size
`0 < limit < 2^64 - 1` returns exactly the entries of the view, in order, each once. -/
theorem walkFwd_complete (items : List (Bytes × V)) (hs : SortedItems items) (hne : ∀ e ∈ items, e.1 ≠ [])
    (limit : Nat) (hl : 0 < limit) (hlim1 : limit + 1 < 18446744073709551616) :
    walkFwd items limit (items.length + 1) [] = some items := by
  have hlim : limit < 18446744073709551616 := by omega
  have hlim0 : limit ≠ 0 := by omega
  have hw : wrap64 limit = limit := Nat.mod_eq_of_lt hlim
  simp only [walkFwd, pageFwd, paginate, pageByOffset, keyAt, ne_eq, not_true_eq_false, and_false, if_false, hlim0,
    iterFrom, Bool.not_false, if_true, Nat.zero_add, hw, List.drop_zero, Nat.sub_zero]
  have hcond : limit + 1 < 18446744073709551616 ∧ 0 < limit + 1 := ⟨hlim1, by omega⟩
  simp only [hcond, and_self, if_true]
  cases hn : items[limit]? with
  | none =>
    have hlen : items.length ≤ limit := by
      rcases Nat.lt_or_ge limit items.length with hlt | hge
      · rw [List.getElem?_eq_getElem hlt] at hn; cases hn
      · exact hge
    simp [List.take_of_length_le hlen]
  | some e' =>
    have hlt : limit < items.length := (List.getElem?_eq_some_iff.mp hn).1
    have hne' : e'.1 ≠ [] := hne e' (List.mem_of_getElem? hn)
    simp only [hne', if_false]
    rw [walkFwd_from items hs hne limit hl hlim items.length limit e' hn (by
      have : items.length ≤ items.length * limit := Nat.le_mul_of_pos_right _ hl
      omega)]
    simp only [Option.map_some, List.take_append_drop]

/-! ### Offset-style pages -/

/-- the iteration order of a listing: ascending, or descending with `reverse` -/
def ordered (items : List (Bytes × V)) (rev : Bool) : List (Bytes × V) := if rev then items.reverse else items

theorem iterFrom_nil (items : List (Bytes × V)) (rev : Bool) : iterFrom items [] rev = .ok (ordered items rev) := by
  unfold iterFrom ordered; cases rev <;> simp

/-- **An offset page is exactly that slice of the listing** (either direction, with or without `count_total`),
and `next_key` is the key of the entry right after the slice. -/
theorem offset_page_eq (items : List (Bytes × V)) (o l : Nat) (ct rev : Bool) (hl : 0 < l)
    (hlim : o + l + 1 < 18446744073709551616) :
    paginate items { offset := o, limit := l, countTotal := ct, reverse := rev } =
      .ok (((ordered items rev).drop o).take l,
        { nextKey := keyAt (ordered items rev) (o + l),
          total := if ct then items.length else 0 }) := by
  have hl0 : l ≠ 0 := by omega
  have hw : wrap64 (o + l) = o + l := Nat.mod_eq_of_lt (by omega)
  simp only [paginate, pageByOffset, iterFrom_nil, ne_eq, not_true_eq_false, and_false, if_false, hl0, hw]
  have hc : o + l + 1 < 18446744073709551616 ∧ o < o + l + 1 := ⟨hlim, by omega⟩
  simp only [hc, and_self, if_true, Nat.add_sub_cancel_left]
  congr 2
  cases rev <;> simp [ordered]

/-- **Walking by offset** (`offset = 0, l, 2l, …`) returns consecutive slices: the first `k` pages together are
the first `k·l` entries of the listing, so `⌈n / l⌉` pages are the whole listing, each entry once, in order. -/
theorem offset_pages_concat (L : List (Bytes × V)) (l : Nat) :
    ∀ k, ((List.range k).map fun j => (L.drop (j * l)).take l).flatten = L.take (k * l) := by
  intro k
  induction k with
  | zero => simp
  | succ k ih =>
    rw [List.range_succ, List.map_append, List.flatten_append, ih]
    simp only [List.map_cons, List.map_nil, List.flatten_cons, List.flatten_nil, List.append_nil]
    rw [Nat.succ_mul, List.take_add]

theorem offset_walk_complete (L : List (Bytes × V)) (l k : Nat) (hk : L.length ≤ k * l) :
    ((List.range k).map fun j => (L.drop (j * l)).take l).flatten = L := by
  rw [offset_pages_concat, List.take_of_length_le hk]

/-! ### Reverse walk by `next_key` -/

theorem filter_lt_eq_take (items : List (Bytes × V)) (hs : SortedItems items) :
    ∀ (i : Nat) (e : Bytes × V), items[i]? = some e →
      items.filter (fun x => Bytes.lt x.1 e.1) = items.take i := by
  induction items with
  | nil => intro i e h; simp at h
  | cons a l ih =>
    intro i e h
    unfold SortedItems at hs ih
    simp only [List.map_cons, List.pairwise_cons] at hs
    cases i with
    | zero =>
      simp at h; subst h
      simp only [List.filter_cons, Bytes.lt_irrefl, Bool.false_eq_true, if_false, List.take_zero]
      rw [List.filter_eq_nil_iff]
      intro x hx
      have := hs.1 x.1 (List.mem_map.mpr ⟨x, hx, rfl⟩)
      simp [Bytes.lt_asymm _ _ this]
    | succ i =>
      simp at h
      have hk : e ∈ l := List.mem_of_getElem? h
      have hlt : Bytes.lt a.1 e.1 = true := hs.1 e.1 (List.mem_map.mpr ⟨e, hk, rfl⟩)
      simp only [List.filter_cons, hlt, if_true, List.take_succ_cons]
      congr 1
      exact ih hs.2 i e h

/-- In reverse mode, starting from the key of a non-last entry `items[i]` yields the entries `items[i], items[i-1],
…, items[0]`.  (Started from the key of the *last* entry the SDK panics: F14, `Properties/C17`.) -/
theorem iterFrom_reverse_key (items : List (Bytes × V)) (hs : SortedItems items) (hne : ∀ e ∈ items, e.1 ≠ [])
    (i : Nat) (e e2 : Bytes × V) (h : items[i]? = some e) (h2 : items[i + 1]? = some e2) :
    iterFrom items e.1 true = .ok (items.take (i + 1)).reverse := by
  have hene : e.1 ≠ [] := hne e (List.mem_of_getElem? h)
  unfold iterFrom
  simp only [Bool.not_true, Bool.false_eq_true, if_false, hene]
  rw [filter_ge_eq_drop items hs i e h]
  have hi : i < items.length := (List.getElem?_eq_some_iff.mp h).1
  have hi2 : i + 1 < items.length := (List.getElem?_eq_some_iff.mp h2).1
  have hd : items.drop i = e :: e2 :: items.drop (i + 2) := by
    rw [List.drop_eq_getElem_cons hi, List.drop_eq_getElem_cons hi2]
    have e1 : items[i] = e := by rw [List.getElem?_eq_getElem hi] at h; exact Option.some.inj h
    have e2' : items[i + 1] = e2 := by rw [List.getElem?_eq_getElem hi2] at h2; exact Option.some.inj h2
    rw [e1, e2']
  rw [hd]
  simp only
  rw [filter_lt_eq_take items hs (i + 1) e2 h2]

/-- follow `next_key` in reverse until it is empty -/
def walkRev (items : List (Bytes × V)) (limit : Nat) : Nat → Bytes → Option (List (Bytes × V))
  | 0, _ => none
  | fuel+1, start =>
    match paginate items { key := start, limit := limit, reverse := true } with
    | .ok (res, page) =>
      if page.nextKey = [] then some res
      else (walkRev items limit fuel page.nextKey).map (res ++ ·)
    | _ => none

/-- one reverse page started at the key of `items[i]` (not the last entry) -/
theorem reverse_page_from (items : List (Bytes × V)) (hs : SortedItems items) (hne : ∀ e ∈ items, e.1 ≠ [])
    (limit : Nat) (hl : 0 < limit) (i : Nat) (e e2 : Bytes × V) (h : items[i]? = some e) (h2 : items[i + 1]? = some e2) :
    paginate items { key := e.1, limit := limit, reverse := true } =
      .ok (((items.take (i + 1)).reverse).take limit,
        { nextKey := keyAt ((items.take (i + 1)).reverse) limit, total := 0 }) := by
  have hene : e.1 ≠ [] := hne e (List.mem_of_getElem? h)
  have hl0 : limit ≠ 0 := by omega
  simp only [paginate, pageByKey, hene, ne_eq, not_false_eq_true, and_true, Nat.lt_irrefl, gt_iff_lt, if_false, hl0,
    if_true, iterFrom_reverse_key items hs hne i e e2 h h2]

theorem walkRev_from (items : List (Bytes × V)) (hs : SortedItems items) (hne : ∀ e ∈ items, e.1 ≠ [])
    (limit : Nat) (hl : 0 < limit) :
    ∀ (fuel i : Nat) (e e2 : Bytes × V), items[i]? = some e → items[i + 1]? = some e2 → i + 1 ≤ fuel * limit →
      walkRev items limit fuel e.1 = some (items.take (i + 1)).reverse := by
  intro fuel
  induction fuel with
  | zero => intro i e e2 _ _ hle; omega
  | succ fuel ih =>
    intro i e e2 h h2 hle
    have hi2 : i + 1 < items.length := (List.getElem?_eq_some_iff.mp h2).1
    simp only [walkRev, reverse_page_from items hs hne limit hl i e e2 h h2, keyAt]
    -- R = reverse (take (i+1)) has length i+1; entry `limit` of it is items[i - limit]
    have hlenR : ((items.take (i + 1)).reverse).length = i + 1 := by
      simp [List.length_take]; omega
    cases hn : ((items.take (i + 1)).reverse)[limit]? with
    | none =>
      have : i + 1 ≤ limit := by
        rcases Nat.lt_or_ge limit (i + 1) with hlt | hge
        · rw [List.getElem?_eq_getElem (by rw [hlenR]; exact hlt)] at hn; cases hn
        · exact hge
      simp only [if_true]
      rw [List.take_of_length_le (by rw [hlenR]; exact this)]
    | some x =>
      have hlt : limit < i + 1 := by
        have := (List.getElem?_eq_some_iff.mp hn).1; rw [hlenR] at this; exact this
      -- x = items[i - limit], and it is not the last entry
      have hx : items[i - limit]? = some x := by
        have hx0 := hn
        rw [List.getElem?_reverse (by rw [List.length_take]; omega)] at hx0
        rw [List.length_take, Nat.min_eq_left (by omega)] at hx0
        rw [List.getElem?_take] at hx0
        have : i + 1 - 1 - limit = i - limit := by omega
        rw [this] at hx0
        simp only [show i - limit < i + 1 by omega, if_true] at hx0
        exact hx0
      have hxne : x.1 ≠ [] := hne x (List.mem_of_getElem? hx)
      simp only [hxne, if_false]
      have hnext : ∃ y, items[i - limit + 1]? = some y := by
        have : i - limit + 1 < items.length := by omega
        exact ⟨items[i - limit + 1], List.getElem?_eq_getElem this⟩
      obtain ⟨y, hy⟩ := hnext
      rw [ih (i - limit) x y hx hy (by
        have : (fuel + 1) * limit = fuel * limit + limit := Nat.succ_mul _ _
        omega)]
      simp only [Option.map_some, Option.some.injEq]
      -- take limit R ++ reverse (take (i - limit + 1)) = R
      have hsplit : (items.take (i + 1)).reverse =
          ((items.take (i + 1)).reverse).take limit ++ (items.take (i - limit + 1)).reverse := by
        conv => lhs; rw [← List.take_append_drop limit ((items.take (i + 1)).reverse)]
        congr 1
        rw [List.drop_reverse, List.length_take, Nat.min_eq_left (by omega), List.take_take,
          Nat.min_eq_left (by omega)]
        congr 2; omega
      exact hsplit.symm

/-- **Reverse walk completeness.**  Starting without a key in reverse mode and following `next_key` with any
page size returns the whole listing in descending order, each entry once — and never sends the key of the
last entry, the one request on which the SDK's reverse iterator panics (F14). -/
theorem walkRev_complete (items : List (Bytes × V)) (hs : SortedItems items) (hne : ∀ e ∈ items, e.1 ≠ [])
    (limit : Nat) (hl : 0 < limit) (hlim1 : limit + 1 < 18446744073709551616) :
    walkRev items limit (items.length + 1) [] = some items.reverse := by
  have hpage := offset_page_eq items 0 limit false true hl (by omega)
  simp only [Nat.zero_add, ordered, if_true, List.drop_zero] at hpage
  have hreq : ({ key := [], limit := limit, reverse := true } : PageRequest) =
      { offset := 0, limit := limit, countTotal := false, reverse := true } := rfl
  simp only [walkRev, hreq, hpage, keyAt]
  cases hn : items.reverse[limit]? with
  | none =>
    have hlen : items.length ≤ limit := by
      rcases Nat.lt_or_ge limit items.length with hlt | hge
      · rw [List.getElem?_eq_getElem (by simpa using hlt)] at hn; cases hn
      · exact hge
    simp [List.take_of_length_le (show items.reverse.length ≤ limit by simpa using hlen)]
  | some x =>
    have hlt : limit < items.length := by
      have := (List.getElem?_eq_some_iff.mp hn).1; simpa using this
    have hx : items[items.length - 1 - limit]? = some x := by
      rw [List.getElem?_reverse (by omega)] at hn; exact hn
    have hxne : x.1 ≠ [] := hne x (List.mem_of_getElem? hx)
    simp only [hxne, if_false]
    have hnext : ∃ y, items[items.length - 1 - limit + 1]? = some y :=
      ⟨items[items.length - 1 - limit + 1]'(by omega), List.getElem?_eq_getElem (by omega)⟩
    obtain ⟨y, hy⟩ := hnext
    rw [walkRev_from items hs hne limit hl items.length (items.length - 1 - limit) x y hx hy (by
      have : items.length ≤ items.length * limit := Nat.le_mul_of_pos_right _ hl
      omega)]
    simp only [Option.map_some, Option.some.injEq]
    conv => rhs; rw [← List.take_append_drop limit items.reverse]
    congr 1
    rw [List.drop_reverse]
    congr 2; omega

example : walkRev [([1], 10), ([2], 20), ([3], 30)] 2 4 [] = some [([3], 30), ([2], 20), ([1], 10)] := by decide

example : walkFwd [([1], 10), ([2], 20), ([3], 30)] 2 4 [] = some [([1], 10), ([2], 20), ([3], 30)] := by decide

end Panacea.Paginate
