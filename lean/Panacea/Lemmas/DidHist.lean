import Panacea.Lemmas.Did
/-! History-level facts about the DID registry: per-DID frame, sequence evolution, tombstones. -/
namespace Panacea.Did
open Panacea

def two64 : Nat := 18446744073709551616

/-- Well-formed registry: stored entries always carry a document pointer and a `uint64` sequence, and an
active document describes the DID it is stored under. -/
structure WF (s : State) : Prop where
  hasDoc : ∀ did d, s.get did = some d → d.doc ≠ none
  seqBound : ∀ did d, s.get did = some d → d.seq < two64
  selfId : ∀ did d doc, s.get did = some d → d.doc = some doc → doc.empty = false → doc.id = did

def seqOf (s : State) (did : Bytes) : Nat := (getDoc s did).seq

/-- The entry is a tombstone. -/
def Dead (s : State) (did : Bytes) : Prop :=
  ∃ d doc, s.get did = some d ∧ d.doc = some doc ∧ doc.empty = true ∧ d.seq ≠ 0

/-- The entry holds a live document. -/
def Live (s : State) (did : Bytes) : Prop :=
  ∃ d doc, s.get did = some d ∧ d.doc = some doc ∧ doc.empty = false

theorem nextSeq_of_lt {n : Nat} (h : n + 1 < two64) : nextSeq n = n + 1 := Nat.mod_eq_of_lt h

/-- What one delivered message can do to the entry of a DID. -/
inductive Effect (da : Bytes → Option Bytes) (cr : Crypto) (s s' : State) (did : Bytes) : Prop where
  | unchanged (h : s'.get did = s.get did)
  | created (d : Doc) (db : Bytes) (h0 : (getDoc s did).isEmpty = true) (hid : d.id = did) (hv : d.valid = true)
      (hvd : validateDID did = true)
      (h : s'.get did = some { doc := some d, seq := 0, docBytes := db })
  | updated (d stored : Doc) (db : Bytes) (hst : (getDoc s did).doc = some stored) (hne : stored.empty = false)
      (hid : d.id = did) (hvd : validateDID did = true)
      (h : s'.get did = some { doc := some d, seq := nextSeq (seqOf s did), docBytes := db })
  | deactivated (stored : Doc) (hst : (getDoc s did).doc = some stored) (hne : stored.empty = false)
      (h : s'.get did = some { doc := some emptyDoc, seq := nextSeq (seqOf s did), docBytes := [] })

theorem effect_of_deliver {da : Bytes → Option Bytes} {cr : Crypto} {s s' : State} {m : Msg}
    (h : deliver da cr s m = .ok s') (did : Bytes) : Effect da cr s s' did := by
  cases m with
  | create did0 doc db vmID sig fr =>
    obtain ⟨d, vm, rfl, hvd, hvalid, hid, _, hemp, _, rfl⟩ := create_ok h
    by_cases he : did = did0
    · subst he; exact .created d db hemp hid hvalid hvd (Map.get_set_eq _ _ _)
    · exact .unchanged (Map.get_set_ne _ _ _ _ he)
  | update did0 doc db vmID sig fr =>
    obtain ⟨d, stored, vm, rfl, hvd, _, hid, _, hst, hne, _, rfl⟩ := update_ok h
    by_cases he : did = did0
    · subst he; exact .updated d stored db hst hne hid hvd (Map.get_set_eq _ _ _)
    · exact .unchanged (Map.get_set_ne _ _ _ _ he)
  | deactivate did0 vmID sig fr =>
    obtain ⟨stored, vm, _, _, hst, hne, _, rfl⟩ := deactivate_ok h
    by_cases he : did = did0
    · subst he; exact .deactivated stored hst hne (Map.get_set_eq _ _ _)
    · exact .unchanged (Map.get_set_ne _ _ _ _ he)

theorem effect_of_step (da : Bytes → Option Bytes) (cr : Crypto) (s : State) (m : Msg) (did : Bytes) :
    Effect da cr s (step da cr s m) did := by
  unfold step
  cases h : deliver da cr s m with
  | ok s' => exact effect_of_deliver h did
  | err e => exact .unchanged rfl
  | panic e => exact .unchanged rfl

theorem getDoc_of_get {s : State} {did : Bytes} {d : DocWithSeq} (h : s.get did = some d) : getDoc s did = d := by
  simp [getDoc, h]

theorem emptyDoc_empty : emptyDoc.empty = true := by decide

theorem valid_nonempty_of_id {d : Doc} {did : Bytes} (hid : d.id = did) (hvd : validateDID did = true) :
    d.empty = false := by
  unfold Doc.empty
  have : did ≠ [] := by intro he; subst he; simp [validateDID, didPrefix, str] at hvd
  simp [hid, this]

/-- One message preserves well-formedness as long as the sequence does not overflow. -/
theorem wf_step {da : Bytes → Option Bytes} {cr : Crypto} {s : State} {m : Msg} {B : Nat}
    (hw : WF s) (hb : ∀ did d, s.get did = some d → d.seq ≤ B) (hB : B + 1 < two64) :
    WF (step da cr s m) ∧ (∀ did d, (step da cr s m).get did = some d → d.seq ≤ B + 1) := by
  have key : ∀ did d, (step da cr s m).get did = some d →
      d.doc ≠ none ∧ d.seq ≤ B + 1 ∧ (∀ doc, d.doc = some doc → doc.empty = false → doc.id = did) := by
    intro did d hg
    have hsb : seqOf s did ≤ B := by
      unfold seqOf getDoc
      cases hx : s.get did with
      | none => simp
      | some x => simpa using hb did x hx
    cases effect_of_step da cr s m did with
    | unchanged h =>
      rw [h] at hg
      exact ⟨hw.hasDoc did d hg, Nat.le_succ_of_le (hb did d hg), fun doc h1 h2 => hw.selfId did d doc hg h1 h2⟩
    | created d0 db h0 hid hv hvd h =>
      rw [h] at hg; cases hg
      exact ⟨by simp, by simp, fun doc h1 _ => by cases h1; exact hid⟩
    | updated d0 stored db hst hne hid hvd h =>
      rw [h] at hg; cases hg
      refine ⟨by simp, ?_, fun doc h1 _ => by cases h1; exact hid⟩
      simp only; rw [nextSeq_of_lt (by omega)]; omega
    | deactivated stored hst hne h =>
      rw [h] at hg; cases hg
      refine ⟨by simp, ?_, fun doc h1 h2 => by cases h1; simp [emptyDoc_empty] at h2⟩
      simp only; rw [nextSeq_of_lt (by omega)]; omega
  exact ⟨⟨fun did d hg => (key did d hg).1, fun did d hg => by have := (key did d hg).2.1; omega,
    fun did d doc hg h1 h2 => (key did d hg).2.2 doc h1 h2⟩, fun did d hg => (key did d hg).2.1⟩

theorem wf_run {da : Bytes → Option Bytes} {cr : Crypto} (ms : List Msg) : ∀ {s : State} {B : Nat},
    WF s → (∀ did d, s.get did = some d → d.seq ≤ B) → B + ms.length < two64 →
    WF (run da cr s ms) ∧ (∀ did d, (run da cr s ms).get did = some d → d.seq ≤ B + ms.length) := by
  induction ms with
  | nil => intro s B hw hb _; exact ⟨hw, hb⟩
  | cons m ms ih =>
    intro s B hw hb hB
    simp only [run, List.foldl_cons, List.length_cons] at hB ⊢
    obtain ⟨hw', hb'⟩ := @wf_step da cr s m B hw hb (by omega)
    have := ih hw' hb' (by omega)
    rw [show B + (ms.length + 1) = B + 1 + ms.length by omega]
    exact this

/-- A tombstone stays a tombstone. -/
theorem dead_step {da : Bytes → Option Bytes} {cr : Crypto} {s : State} {m : Msg} {did : Bytes}
    (hd : Dead s did) : (step da cr s m).get did = s.get did := by
  obtain ⟨d, doc, hg, hdoc, hemp, hseq⟩ := hd
  have hgd := getDoc_of_get hg
  cases effect_of_step da cr s m did with
  | unchanged h => exact h
  | created d0 db h0 _ _ _ h =>
    rw [hgd] at h0
    simp [DocWithSeq.isEmpty, hdoc, hemp, hseq] at h0
  | updated d0 stored db hst hne _ _ h =>
    rw [hgd, hdoc] at hst; cases hst; simp [hemp] at hne
  | deactivated stored hst hne h =>
    rw [hgd, hdoc] at hst; cases hst; simp [hemp] at hne

theorem dead_run {da : Bytes → Option Bytes} {cr : Crypto} (ms : List Msg) : ∀ {s : State} {did : Bytes},
    Dead s did → (run da cr s ms).get did = s.get did := by
  induction ms with
  | nil => intro s did _; rfl
  | cons m ms ih =>
    intro s did hd
    simp only [run, List.foldl_cons]
    have h1 := @dead_step da cr s m did hd
    have hd' : Dead (step da cr s m) did := by
      obtain ⟨d, doc, hg, r⟩ := hd
      exact ⟨d, doc, by rw [h1]; exact hg, r⟩
    have := ih hd'
    simp only [run] at this
    rw [this, h1]

/-- The sequence of a DID never decreases and grows by at most one per message (no overflow). -/
theorem seq_step {da : Bytes → Option Bytes} {cr : Crypto} {s : State} {m : Msg} {did : Bytes} {B : Nat}
    (hw : WF s) (hb : ∀ did d, s.get did = some d → d.seq ≤ B) (hB : B + 1 < two64) :
    seqOf (step da cr s m) did = seqOf s did ∨
    (seqOf (step da cr s m) did = seqOf s did + 1 ∧ deliver da cr s m = .ok (step da cr s m)) := by
  have hsb : seqOf s did ≤ B := by
    unfold seqOf getDoc
    cases hx : s.get did with
    | none => simp
    | some x => simpa using hb did x hx
  have hdel : ∀ s', deliver da cr s m = .ok s' → step da cr s m = s' := by
    intro s' h; simp [step, h]
  cases hdl : deliver da cr s m with
  | ok s' =>
    rw [hdel s' hdl]
    cases effect_of_deliver hdl did with
    | unchanged h => left; simp [seqOf, getDoc, h]
    | created d0 db h0 _ _ _ h =>
      left
      simp only [seqOf, getDoc, h, Option.getD_some]
      -- the entry was absent or empty, so its sequence was 0 already
      unfold DocWithSeq.isEmpty at h0
      cases hx : s.get did with
      | none => simp
      | some x =>
        have hne := hw.hasDoc did x hx
        simp only [getDoc, hx, Option.getD_some] at h0 ⊢
        cases hxd : x.doc with
        | none => exact absurd hxd hne
        | some doc => simp [hxd] at h0; exact h0.2.symm
    | updated d0 stored db hst hne _ _ h =>
      right
      refine ⟨?_, rfl⟩
      simp only [seqOf, getDoc, h, Option.getD_some]
      exact nextSeq_of_lt (by unfold seqOf getDoc at hsb; omega)
    | deactivated stored hst hne h =>
      right
      refine ⟨?_, rfl⟩
      simp only [seqOf, getDoc, h, Option.getD_some]
      exact nextSeq_of_lt (by unfold seqOf getDoc at hsb; omega)
  | err e => left; simp [step, hdl]
  | panic e => left; simp [step, hdl]

theorem seq_mono_run {da : Bytes → Option Bytes} {cr : Crypto} (ms : List Msg) : ∀ {s : State} {B : Nat} (did : Bytes),
    WF s → (∀ did d, s.get did = some d → d.seq ≤ B) → B + ms.length < two64 →
    seqOf s did ≤ seqOf (run da cr s ms) did := by
  induction ms with
  | nil => intro s B did _ _ _; exact Nat.le_refl _
  | cons m ms ih =>
    intro s B did hw hb hB
    simp only [run, List.foldl_cons, List.length_cons] at hB ⊢
    obtain ⟨hw', hb'⟩ := @wf_step da cr s m B hw hb (by omega)
    have h1 := @seq_step da cr s m did B hw hb (by omega)
    have h2 := ih did hw' hb' (by omega)
    simp only [run] at h2
    rcases h1 with h1 | ⟨h1, _⟩ <;> omega

end Panacea.Did
