import Panacea.Model.Bytes
import Panacea.Model.KV
/-!
# Semantics of the Go subset the translator emits (`Generated/Code*.lean`)

`/verif/extract` translates a white-list of functions of `/repo` *statement by statement* into Lean
`do`-blocks.  This file is the meaning of the primitives those blocks use.  It is part of the trusted base:
what is written here is believed to be what Go does.

* a Go function is a Lean function into `P` (pure: a value or a runtime panic) or into
  `World → P (result × World)` (keepers: additionally read and write the KV stores of the block context, passed explicitly);
* Go `error` is `Err = Option Error` (`nil` = `none`); errors are *values*, exactly as in Go, so
  `x, err := f(); if err != nil { return …, wrap(err) }` is translated literally;
* `int`, `int64` are `Int` (no overflow is modelled for them: they hold lengths and indices);
  `uint64` is `Nat` with explicit wrap-around on `+`, `-`; `byte` is `UInt8`;
* `string` and `[]byte` are `Bytes`; `[]T` is `List T`; indexing and slicing check bounds and panic;
* every pointer `*T` is `Option T` (`nil` = `none`) and every dereference is `deref`, which panics on `nil`;
  a function that writes through a pointer or interface parameter returns the new value of that parameter
  after its ordinary results (no two pointers alias in the translated functions).
-/
namespace Panacea.Go

/-- A pure Go computation: a value, or a runtime panic. -/
inductive P (α : Type) where
  | ok (a : α)
  | panic (site : String)
  deriving Repr, DecidableEq

namespace P
def bind {α β} (x : P α) (f : α → P β) : P β :=
  match x with
  | ok a => f a
  | panic s => panic s
instance : Monad P where
  pure := ok
  bind := bind
@[simp] theorem pure_eq {α} (a : α) : (pure a : P α) = ok a := rfl
@[simp] theorem ok_bind {α β} (a : α) (f : α → P β) : (ok a >>= f) = f a := rfl
@[simp] theorem panic_bind {α β} (s : String) (f : α → P β) : (panic s >>= f) = panic s := rfl
@[simp] theorem map_ok {α β} (a : α) (f : α → β) : (f <$> (ok a : P α)) = ok (f a) := rfl
@[simp] theorem map_panic {α β} (s : String) (f : α → β) : (f <$> (panic s : P α)) = panic s := rfl
instance : LawfulMonad P := LawfulMonad.mk'
  (id_map := by intro α x; cases x <;> rfl)
  (pure_bind := by intros; rfl)
  (bind_assoc := by intro α β γ x f g; cases x <;> rfl)
def isPanic {α} : P α → Bool | panic _ => true | _ => false
end P

abbrev Error := String
abbrev Err := Option Error

/-- `errors.Wrap(f)`, `fmt.Errorf("…: %w", e)`: the wrapped error keeps its registered identity; a `nil`
error wraps to `nil` (`errors.Wrap(nil, …) == nil`). -/
def wrap (e : Err) : Err := e

def deref {α} (site : String) : Option α → P α
  | some a => .ok a
  | none => .panic ("nil dereference: " ++ site)

/-! ## integers -/
def two64 : Nat := 18446744073709551616
def u64add (a b : Nat) : Nat := (a + b) % two64
def u64sub (a b : Nat) : Nat := (a + two64 - b % two64) % two64
def u64mul (a b : Nat) : Nat := (a * b) % two64
/-- `uint8(n)` of an `int` -/
def toU8 (n : Int) : UInt8 := UInt8.ofNat (n % 256).toNat
def len {α} (l : List α) : Int := (l.length : Int)

/-! ## slices -/
/-- `make([]T, n)` (panics for a negative length). -/
def make {α} [Inhabited α] (n : Int) : P (List α) :=
  if n < 0 then .panic "makeslice: len out of range" else .ok (List.replicate n.toNat default)

/-- `l[i]` -/
def idx {α} (l : List α) (i : Int) : P α :=
  if i < 0 then .panic "index out of range" else
  match l[i.toNat]? with
  | some a => .ok a
  | none => .panic "index out of range"

/-- `l[i] = v` -/
def setIdx {α} (l : List α) (i : Int) (v : α) : P (List α) :=
  if i < 0 ∨ i ≥ l.length then .panic "index out of range" else .ok (l.set i.toNat v)

/-- `l[lo:hi]` (`hi = none` for `l[lo:]`); capacity is not modelled (`hi ≤ len`, as for a full slice). -/
def slice {α} (l : List α) (lo : Int) (hi : Option Int) : P (List α) :=
  let h := hi.getD l.length
  if lo < 0 ∨ h < lo ∨ h > l.length then .panic "slice bounds out of range"
  else .ok ((l.take h.toNat).drop lo.toNat)

/-- `n := copy(dst[off:], src)` where `dst[off:]` aliases `dst`: the new `dst` and `n`. -/
def copyAt {α} (dst : List α) (off : Int) (src : List α) : P (List α × Int) :=
  if off < 0 ∨ off > dst.length then .panic "slice bounds out of range" else
  let o := off.toNat
  let n := min (dst.length - o) src.length
  .ok (dst.take o ++ src.take n ++ dst.drop (o + n), (n : Int))

/-! ## strings -/
/-- `strings.Split(s, sep)` for a one-byte separator. -/
def splitByteAux (sep : UInt8) : Bytes → Bytes → List Bytes
  | acc, [] => [acc.reverse]
  | acc, c :: cs => if c = sep then acc.reverse :: splitByteAux sep [] cs else splitByteAux sep (c :: acc) cs
def splitByte (s : Bytes) (sep : UInt8) : List Bytes := splitByteAux sep [] s

/-! ## regular expressions (the fragment the validators use)

The translator parses each pattern with Go's own `regexp/syntax` and emits the tree.  Matching is on bytes:
all classes in the code base are ASCII classes or negated ASCII classes, for which matching UTF-8 runes and
matching bytes accept the same strings when the whole string must consist of class members. -/
inductive Re where
  | cls (ranges : List (Nat × Nat))          -- byte ranges lo..hi; code points above 255 are cut off
  | ncls (ranges : List (Nat × Nat))         -- negated class
  | lit (b : Bytes)
  | star (r : Re) | plus (r : Re)
  | rep (r : Re) (min : Nat) (max : Nat)     -- {min,max}
  | cat (rs : List Re)
  | bot | eot                                -- ^ and $
  | unsupported (what : String)
  deriving Repr

def inRanges (rs : List (Nat × Nat)) (b : UInt8) : Bool := rs.any fun r => r.1 ≤ b.toNat && b.toNat ≤ r.2

/-- A one-byte matcher for the class-like atoms; `none` for anything else. -/
def Re.atom : Re → Option (UInt8 → Bool)
  | .cls rs => some (inRanges rs)
  | .ncls rs => some (fun b => !inRanges rs b)
  | _ => none

/-- The shapes in use: `^ C+ $`, `^ C* $`, `^ C{m,n} $`, `^ lit C{m,n} $`.  Every other pattern is
`none`: the translated function then does not reduce and its refinement proof fails (which is the
intended signal that the pattern changed shape). -/
def Re.fullMatch : Re → Bytes → Option Bool
  | .cat [.bot, .plus a, .eot], s => a.atom.map fun f => !s.isEmpty && s.all f
  | .cat [.bot, .star a, .eot], s => a.atom.map fun f => s.all f
  | .cat [.bot, .rep a m n, .eot], s => a.atom.map fun f => decide (m ≤ s.length) && decide (s.length ≤ n) && s.all f
  | .cat [.bot, .lit p, .rep a m n, .eot], s =>
    a.atom.map fun f => p.isPrefixOf s && decide (m ≤ s.length - p.length) && decide (s.length - p.length ≤ n) &&
      (s.drop p.length).all f
  | _, _ => none

def reMatch (r : Re) (s : Bytes) : P Bool :=
  match r.fullMatch s with
  | some b => .ok b
  | none => .panic "unsupported regular expression shape"

/-! ## the block context: KV stores and header time -/
structure World where
  stores : List (String × Map Bytes) := []
  blockTimeNano : Int := 0
  deriving Repr, DecidableEq

def World.store (w : World) (name : String) : Map Bytes :=
  match w.stores.find? (·.1 = name) with
  | some e => e.2
  | none => []

def World.setStore (w : World) (name : String) (m : Map Bytes) : World :=
  if w.stores.any (·.1 = name) then
    { w with stores := w.stores.map fun e => if e.1 = name then (name, m) else e }
  else { w with stores := w.stores ++ [(name, m)] }

/-- `prefix.NewStore(ctx.KVStore(key), pfx)` -/
structure Store where
  name : String
  pfx : Bytes
  deriving Repr, DecidableEq

def kvStore (name : String) : Store := { name := name, pfx := [] }
def prefixStore (s : Store) (p : Bytes) : Store := { s with pfx := s.pfx ++ p }

/-- `store.Get(k)`: `nil` (`[]`) when absent (a stored empty value cannot be told from absence by `Get`;
`Has` can). -/
def Store.get (s : Store) (k : Bytes) (w : World) : Bytes := ((w.store s.name).get (s.pfx ++ k)).getD []
def Store.has (s : Store) (k : Bytes) (w : World) : Bool := (w.store s.name).has (s.pfx ++ k)
/-- `store.Set(k, v)`: the SDK panics on a nil/empty key and on a nil value (`types.AssertValidKey/Value`);
an empty non-nil value is allowed, and `MustMarshal` never returns nil. -/
def Store.set (s : Store) (k v : Bytes) (w : World) : P World :=
  if s.pfx ++ k = [] then .panic "store.Set: key is nil" else
  .ok (w.setStore s.name ((w.store s.name).set (s.pfx ++ k) v))
def Store.delete (s : Store) (k : Bytes) (w : World) : P World :=
  if s.pfx ++ k = [] then .panic "store.Delete: key is nil" else
  .ok (w.setStore s.name ((w.store s.name).del (s.pfx ++ k)))
/-- `sdk.KVStorePrefixIterator(store, p)` materialised: entries in key order, keys relative to the store. -/
def Store.iterate (s : Store) (p : Bytes) (w : World) : List (Bytes × Bytes) :=
  (w.store s.name).prefixView (s.pfx ++ p) |>.map (fun e => (p ++ e.1, e.2))

def blockTimeUnixNano (w : World) : Int := w.blockTimeNano

/-! ## protobuf binary codec — a parameter with laws, never an axiom -/
class Proto (α : Type) where
  marshal : α → Bytes
  unmarshal : Bytes → Option α

/-- What the theorems need of the codec: decoding inverts encoding, and the empty input (what
`store.Get` returns for an absent key) decodes to the zero value, as protobuf does. -/
class LawfulProto (α : Type) [Inhabited α] [Proto α] : Prop where
  unmarshal_marshal : ∀ a : α, Proto.unmarshal (Proto.marshal a) = some a
  unmarshal_nil : Proto.unmarshal ([] : Bytes) = some (default : α)

def mustUnmarshal {α} [Proto α] (bz : Bytes) : P α :=
  match Proto.unmarshal bz with
  | some a => .ok a
  | none => .panic "MustUnmarshal"

/-! ## address codec (bech32) — a parameter -/
structure Bech32 where
  enc : Bytes → Bytes
  dec : Bytes → Option Bytes

/-- `sdk.AccAddressFromBech32` -/
def accAddressFromBech32 (c : Bech32) (s : Bytes) : Bytes × Err :=
  match c.dec s with
  | some a => (a, none)
  | none => ([], some "bech32")

/-- `sdk.VerifyAddressFormat` without a custom verifier -/
def verifyAddressFormat (b : Bytes) : Err :=
  if b.length = 0 then some "sdk/addr-empty" else if b.length > 255 then some "sdk/addr-long" else none

end Panacea.Go
