import Panacea.Go.Prelude
import Panacea.Model.CompKey
import Panacea.Model.Did
import Panacea.Model.Bank
/-!
# Further primitives of the translated Go subset (library functions of the SDK and the standard library)
-/
namespace Panacea.Go

/-- what the translator emits for a construct it does not understand: never reduces to a value -/
def unsupported {α} (why : String) : P α := .panic ("UNSUPPORTED: " ++ why)

def toU64 (n : Int) : Nat := (n % (two64 : Int)).toNat

/-- `for i, v := range xs` -/
def enum {α} (xs : List α) : List (Int × α) := (List.range xs.length).zip xs |>.map fun p => ((p.1 : Int), p.2)

/-- `sdk.BigEndianToUint64`: 0 for the empty slice, `binary.BigEndian.Uint64` otherwise (which panics on
fewer than eight bytes and ignores everything after the eighth). -/
def bigEndianToUint64 (b : Bytes) : P Nat :=
  if b.length = 0 then .ok 0 else
  match fromBe64 (b.take 8) with
  | some n => .ok n
  | none => .panic "index out of range [7]"

/-- `strconv.ParseUint(s, 10, 64)` -/
def parseUint64 (s : Bytes) : Nat × Err :=
  match CompKey.parseUint64 s with
  | some n => (n, none)
  | none => (0, some "strconv")

/-- `strings.Split(s, sep)` where `sep` is a run-time value: only one-byte separators are modelled. -/
def splitSep (s sep : Bytes) : P (List Bytes) :=
  match sep with
  | [b] => .ok (splitByte s b)
  | _ => .panic "UNSUPPORTED: strings.Split with a separator that is not one byte"


/-- `strings.IndexByte` -/
def indexByte (s : Bytes) (c : UInt8) : Int :=
  match s.idxOf? c with
  | some i => (i : Int)
  | none => -1

/-- signature verification (secp256k1) — a parameter, never an axiom: public key, message, signature -/
structure SigScheme where
  verify : Bytes → Bytes → Bytes → Bool

/-- `types.Verify(signature, signableData, seq, pubKey)` of x/did: the sign bytes are the protobuf message
`DataWithSeq{data: signableData.Marshal(), sequence: seq}` (`Did.signBytes`); on success the next sequence. -/
def didVerify (cr : SigScheme) (sig dataBytes : Bytes) (seq : Nat) (pub : Bytes) : Nat × Bool :=
  if cr.verify pub (Did.signBytes dataBytes seq) sig then (u64add seq 1, true) else (0, false)


/-! ## x/bank as the burn module sees it (hand-written model `Bank`, valid for cosmos-sdk v0.47.12) -/

/-- the bank state together with the addresses of the module accounts -/
structure BankWorld where
  st : Bank.State
  moduleAddr : Bytes → Bytes      -- `authtypes.NewModuleAddress(name)`

def bankSpendableCoins (w : BankWorld) (a : Bytes) : List (Bytes × Nat) := Bank.spendableCoins w.st a

/-- `SendCoinsFromAccountToModule`: `SendCoins` to the module's address (the recipient module account exists: it is
created at genesis; a missing one would panic in the SDK) -/
def bankSendToModule (w : BankWorld) (a moduleName : Bytes) (coins : List (Bytes × Nat)) : BankWorld × Err :=
  match Bank.sendCoins w.st a (w.moduleAddr moduleName) coins with
  | (s1, true) => ({ w with st := s1 }, none)
  | (s1, false) => ({ w with st := s1 }, some "sdk/5")

/-- `BurnCoins(module, coins)` of a module account that has the burner permission (tied by `Facts.maccPerms`) -/
def bankBurnCoins (w : BankWorld) (moduleName : Bytes) (coins : List (Bytes × Nat)) : BankWorld × Err :=
  ({ w with st := Bank.burnCoins w.st (w.moduleAddr moduleName) coins }, none)

/-! ## Go maps with string keys

A `map[string]T` is the list of its entries in *some* order: `range` visits them in that order, which Go does not
fix — a theorem about code that ranges over a map has to hold for every list with the same entries. -/
abbrev GoMap (α : Type) := List (Bytes × α)

/-- `m[k] = v`: replaces the entry of `k`, or adds one (where, among the others, is not defined by Go) -/
def mapSet {α} (m : GoMap α) (k : Bytes) (v : α) : GoMap α :=
  if m.any (fun e => e.1 == k) then m.map (fun e => if e.1 == k then (k, v) else e) else m ++ [(k, v)]

end Panacea.Go
