import Panacea.Go.Lib
import Panacea.Model.Pnft
/-!
# cosmos-sdk `x/nft` keeper (v0.47.12) as the translated `x/pnft` code sees it

The custom PNFT keeper is translated from the source; the SDK keeper it calls is this hand-written model
(trusted, tied by the correspondence run), over the same five key spaces and key helpers as `Model/Pnft.lean`.
Classes and NFTs are stored *raw*: their `data` is a protobuf `Any` whose value is whatever the caller
marshalled into it (the PNFT code puts `DenomMeta` / `PNFTMeta` there).
-/
namespace Panacea.Go

/-- `time.Time` as unix nanoseconds; Go's zero time is 0001-01-01, not the epoch -/
structure Time where
  nanos : Int
  deriving Repr, DecidableEq

def zeroTimeNanos : Int := -62135596800000000000
instance : Inhabited Time := ⟨⟨zeroTimeNanos⟩⟩
def Time.isZero (t : Time) : Bool := decide (t.nanos = zeroTimeNanos)

/-- `codectypes.Any` -/
structure Any where
  TypeUrl : Bytes := []
  Value : Bytes := []
  deriving Repr, DecidableEq, Inhabited

/-- `(*Any).GetValue()` is nil-safe -/
def anyValue (a : Option Any) : Bytes := match a with | some x => x.Value | none => []

/-- `cdc.Unmarshal(bz, &m)`: an error instead of a panic -/
def unmarshalE {α} [Inhabited α] [Proto α] (bz : Bytes) : α × Err :=
  match Proto.unmarshal bz with
  | some a => (a, none)
  | none => (default, some "codec")

namespace Nft

structure Class where
  Id : Bytes := []
  Name : Bytes := []
  Symbol : Bytes := []
  Description : Bytes := []
  Uri : Bytes := []
  UriHash : Bytes := []
  Data : Option Any := none
  deriving Repr, DecidableEq, Inhabited

structure NFT where
  ClassId : Bytes := []
  Id : Bytes := []
  Uri : Bytes := []
  UriHash : Bytes := []
  Data : Option Any := none
  deriving Repr, DecidableEq, Inhabited

/-- the five key spaces of the x/nft store, and the header time -/
structure World where
  classes : Map Class := []
  nfts : Map NFT := []
  ownerIdx : Map Unit := []
  owners : Map Bytes := []
  supply : Map Nat := []
  blockTimeNano : Int := 0
  deriving Repr, DecidableEq

open Panacea.Pnft (nftKey ownerIdxKey ownerIdxPrefix)

def hasClass (w : World) (id : Bytes) : Bool := w.classes.has id
def hasNFT (w : World) (c i : Bytes) : Bool := w.nfts.has (nftKey c i)
def getOwner (w : World) (c i : Bytes) : Bytes := (w.owners.get (nftKey c i)).getD []
def getTotalSupply (w : World) (c : Bytes) : Nat := (w.supply.get c).getD 0

/-- `SaveClass`: refuses an existing class id -/
def saveClass (w : World) (cl : Class) : World × Err :=
  if hasClass w cl.Id then (w, some "nft/3") else ({ w with classes := w.classes.set cl.Id cl }, none)

/-- `UpdateClass`: refuses an unknown class id -/
def updateClass (w : World) (cl : Class) : World × Err :=
  if !hasClass w cl.Id then (w, some "nft/4") else ({ w with classes := w.classes.set cl.Id cl }, none)

def getClass (w : World) (id : Bytes) : Class × Bool :=
  match w.classes.get id with | some c => (c, true) | none => (default, false)

def getClasses (w : World) : List (Option Class) := w.classes.map fun e => some e.2

def setOwner (w : World) (c i owner : Bytes) : World :=
  { w with owners := w.owners.set (nftKey c i) owner, ownerIdx := w.ownerIdx.set (ownerIdxKey owner c i) () }
def deleteOwner (w : World) (c i owner : Bytes) : World :=
  { w with owners := w.owners.del (nftKey c i), ownerIdx := w.ownerIdx.del (ownerIdxKey owner c i) }

/-- `Mint(token, receiver)` -/
def mint (w : World) (t : NFT) (receiver : Bytes) : World × Err :=
  if !hasClass w t.ClassId then (w, some "nft/4") else
  if hasNFT w t.ClassId t.Id then (w, some "nft/5") else
  let w1 := { w with nfts := w.nfts.set (nftKey t.ClassId t.Id) t }
  let w2 := setOwner w1 t.ClassId t.Id receiver
  ({ w2 with supply := w2.supply.set t.ClassId (wrap64 (getTotalSupply w2 t.ClassId + 1)) }, none)

/-- `Burn(classID, nftID)` -/
def burn (w : World) (c i : Bytes) : World × Err :=
  if !hasClass w c then (w, some "nft/4") else
  if !hasNFT w c i then (w, some "nft/6") else
  let old := getOwner w c i
  let w1 := { w with nfts := w.nfts.del (nftKey c i) }
  let w2 := deleteOwner w1 c i old
  ({ w2 with supply := w2.supply.set c (decU64 (getTotalSupply w2 c)) }, none)

/-- `Transfer(classID, nftID, receiver)` -/
def transfer (w : World) (c i receiver : Bytes) : World × Err :=
  if !hasClass w c then (w, some "nft/4") else
  if !hasNFT w c i then (w, some "nft/6") else
  let old := getOwner w c i
  (setOwner (deleteOwner w c i old) c i receiver, none)

def getNFT (w : World) (c i : Bytes) : NFT × Bool :=
  match w.nfts.get (nftKey c i) with | some n => (n, true) | none => (default, false)

def getNFTsOfClass (w : World) (c : Bytes) : List NFT := (w.nfts.prefixView (c ++ [0x00])).map (·.2)

def getNFTsOfClassByOwner (w : World) (c owner : Bytes) : List NFT :=
  (w.ownerIdx.prefixView (ownerIdxPrefix owner c)).filterMap fun e => w.nfts.get (nftKey c e.1)

/-- `store.Delete(key)` on the module's raw store: the first byte selects the key space -/
def rawDelete (w : World) (key : Bytes) : P World :=
  match key with
  | [] => .panic "store.Delete: key is nil"
  | 0x01 :: k => .ok { w with classes := w.classes.del k }
  | 0x02 :: k => .ok { w with nfts := w.nfts.del k }
  | 0x03 :: k => .ok { w with ownerIdx := w.ownerIdx.del k }
  | 0x04 :: k => .ok { w with owners := w.owners.del k }
  | 0x05 :: k => .ok { w with supply := w.supply.del k }
  | _ => .ok w

def blockTime (w : World) : Time := ⟨w.blockTimeNano⟩

/-- `nftkeeper.ClassKey` -/
def classKey : Bytes := [0x01]

end Nft
end Panacea.Go
