import Panacea.Model.Bytes
import Panacea.Model.Outcome
/-!
# Composite keys — model of `types/compkey/compkey.go` and `x/aol/types/keys.go`

`encode` / `decode` follow the Go loops statement by statement:
`[len_1][value_1][len_2][value_2]…` with one-byte lengths, explicit rejection of components longer
than 255 bytes, and a bounds check on every declared length while decoding.
-/
namespace Panacea.CompKey

/-- `compkey.encode`: `none` is the Go error "the size of value must be in uint8". -/
def encode : List Bytes → Option Bytes
  | [] => some []
  | v :: vs =>
    if v.length > 255 then none else
    match encode vs with
    | none => none
    | some r => some (UInt8.ofNat v.length :: (v ++ r))

/-- `compkey.PartialEncode(key, numValues)` on `key.ByteSlices() = vs`. -/
def partialEncode (vs : List Bytes) (k : Nat) : Option Bytes :=
  if vs.length < k then none else encode (vs.take k)

/-- The loop of `compkey.Decode` with fuel (`bz.length + 1` always suffices, see `decode`). -/
def decodeAux : Nat → Bytes → Option (List Bytes)
  | _, [] => some []
  | 0, _ => none
  | fuel+1, n :: rest =>
    if n.toNat > rest.length then none else
    match decodeAux fuel (rest.drop n.toNat) with
    | none => none
    | some vs => some (rest.take n.toNat :: vs)

/-- `compkey.Decode` up to `out.FromByteSlices`: the list of raw components, or `none` for
"failed to decode composite key". -/
def decode (bz : Bytes) : Option (List Bytes) := decodeAux (bz.length + 1) bz

/-- `sdk.VerifyAddressFormat` with no custom verifier: 1..255 bytes. -/
def addrOk (b : Bytes) : Bool := decide (0 < b.length) && decide (b.length ≤ 255)

/-- The four typed AOL keys. -/
inductive Kind where | owner | topic | writer | record
  deriving Repr, DecidableEq

/-- The offset component of a record key: `FromByteSlices` requires exactly eight bytes
(`len(bzs[2]) != 8` is an error) and then reads them with `sdk.BigEndianToUint64`.  Without that
length check `BigEndianToUint64` maps the empty string to 0, panics on 1–7 bytes and silently ignores
everything after the eighth byte (defect F13, repaired by a `fix:` commit). -/
def offsetOfBytes (b : Bytes) : Outcome Nat :=
  if b.length ≠ 8 then .err "offset-len"
  else match fromBe64 b with
    | some n => .ok n
    | none => .panic "unreachable"

/-- `FromByteSlices` followed by `ByteSlices` of the four typed keys: what the typed key holds after a
successful parse, re-rendered as raw components. -/
def fromByteSlices : Kind → List Bytes → Outcome (List Bytes)
  | .owner, [o] => if addrOk o then .ok [o] else .err "addr"
  | .owner, _ => .err "len"
  | .topic, [o, t] => if addrOk o then .ok [o, t] else .err "addr"
  | .topic, _ => .err "len"
  | .writer, [o, t, w] =>
    if !addrOk o then .err "addr" else if !addrOk w then .err "addr" else .ok [o, t, w]
  | .writer, _ => .err "len"
  | .record, [o, t, n] =>
    if !addrOk o then .err "addr" else
    match offsetOfBytes n with
    | .ok off => .ok [o, t, be64 off]
    | .err c => .err c
    | .panic s => .panic s
  | .record, _ => .err "len"

/-- `compkey.Decode(bz, &typedKey)`. -/
def decodeTyped (k : Kind) (bz : Bytes) : Outcome (List Bytes) :=
  match decode bz with
  | none => .err "decode"
  | some vs => fromByteSlices k vs

/-! ## String form (`EncodeToString` / `DecodeFromString`, genesis keys) -/

def slash : UInt8 := 0x2f

/-- `strings.Join(parts, "/")` as `EncodeToString` builds it. -/
def joinSlash : List Bytes → Bytes
  | [] => []
  | [p] => p
  | p :: ps => p ++ slash :: joinSlash ps

/-- `strings.Split(s, "/")` (never returns an empty list). -/
def splitSlashAux : Bytes → Bytes → List Bytes
  | acc, [] => [acc.reverse]
  | acc, c :: cs => if c = slash then acc.reverse :: splitSlashAux [] cs else splitSlashAux (c :: acc) cs

def splitSlash (s : Bytes) : List Bytes := splitSlashAux [] s

/-- Decimal rendering of a natural number (`strconv.FormatUint(n, 10)`). -/
def decDigitsAux : Nat → Nat → Bytes → Bytes
  | 0, _, acc => acc
  | fuel+1, n, acc =>
    let acc' := UInt8.ofNat (48 + n % 10) :: acc
    if n / 10 = 0 then acc' else decDigitsAux fuel (n / 10) acc'

def formatUint (n : Nat) : Bytes := decDigitsAux (n + 1) n []

/-- `strconv.ParseUint(s, 10, 64)`: non-empty, ASCII digits only (no sign, no underscore), value
below `2^64`; leading zeros are accepted. -/
def parseUintAux : Bytes → Nat → Option Nat
  | [], acc => some acc
  | c :: cs, acc =>
    if 48 ≤ c.toNat ∧ c.toNat ≤ 57 then parseUintAux cs (acc * 10 + (c.toNat - 48)) else none

def parseUint64 (s : Bytes) : Option Nat :=
  if s = [] then none else
  match parseUintAux s 0 with
  | some n => if n < 2 ^ 64 then some n else none
  | none => none

/-- Address text codec (bech32 with the `panacea` prefix) as a parameter, never an axiom:
`enc` is `AccAddress.String`, `dec` is `AccAddressFromBech32`. -/
structure AddrCodec where
  enc : Bytes → Bytes
  dec : Bytes → Option Bytes

/-- The laws the theorems need from an address codec (satisfied by the hex instance below, observed of
bech32 by the correspondence run). -/
structure AddrCodec.Lawful (c : AddrCodec) : Prop where
  dec_enc : ∀ a, addrOk a = true → c.dec (c.enc a) = some a
  dec_ok : ∀ s a, c.dec s = some a → addrOk a = true
  no_slash : ∀ a, slash ∉ c.enc a

/-- `Strings()` of a typed key given its raw components. -/
def strings (c : AddrCodec) : Kind → List Bytes → List Bytes
  | .owner, [o] => [c.enc o]
  | .topic, [o, t] => [c.enc o, t]
  | .writer, [o, t, w] => [c.enc o, t, c.enc w]
  | .record, [o, t, n] =>
    match fromBe64 n with
    | some off => [c.enc o, t, formatUint off]
    | none => []
  | _, _ => []

def encodeToString (c : AddrCodec) (k : Kind) (comps : List Bytes) : Bytes :=
  joinSlash (strings c k comps)

/-- `FromStrings` followed by `ByteSlices`. -/
def fromStrings (c : AddrCodec) : Kind → List Bytes → Option (List Bytes)
  | .owner, [o] => (c.dec o).map fun a => [a]
  | .topic, [o, t] => (c.dec o).map fun a => [a, t]
  | .writer, [o, t, w] =>
    match c.dec o, c.dec w with
    | some a, some b => some [a, t, b]
    | _, _ => none
  | .record, [o, t, n] =>
    match c.dec o, parseUint64 n with
    | some a, some off => some [a, t, be64 off]
    | _, _ => none
  | _, _ => none

def decodeFromString (c : AddrCodec) (k : Kind) (s : Bytes) : Option (List Bytes) :=
  fromStrings c k (splitSlash s)

end Panacea.CompKey
