import Panacea.Model.Bytes
import Panacea.Model.Outcome
/-!
# DID key store (`x/did/client/crypto/keystore.go`)

**`decryptKey`**: the control flow with every check, slice and library precondition, over an abstract
view of the key file: the four hex fields either decode or not, `dklen` is the file's integer, the IV has
some decoded length, and `macOK` says whether the MAC computed from the derived key matches.  Partial Go
operations are explicit: slicing `derivedKey[16:32]` needs `32 ≤ len`, `pbkdf2.Key` panics on a negative
length and allocates `dklen` bytes at once (`make([]byte, 0, numBlocks*hashLen)`: a runtime panic "makeslice: cap
out of range" beyond the allocator's limit of 2^48 bytes, an unrecoverable out-of-memory abort somewhat below it),
`cipher.NewCTR` panics unless the IV is 16 bytes.

**Lock protocol**: a writer-preferring RWMutex (Go's `sync.RWMutex`: once a writer waits, new readers
block) and threads that run sequences of `rlock / runlock / lock / unlock` operations.
-/
namespace Panacea.Keystore
open Panacea

structure KeyFile where
  version : Int
  cipher : Bytes
  kdf : Bytes
  prf : Bytes
  macHexOK : Bool
  ivHexOK : Bool
  ctHexOK : Bool
  saltHexOK : Bool
  c : Int
  dklen : Int
  ivLen : Nat
  macOK : Bool          -- the stored MAC equals Keccak256(derivedKey[16:32] ‖ ciphertext)
  deriving Repr, DecidableEq

def cipherAlgorithm : Bytes := [0x61, 0x65, 0x73, 0x2d, 0x31, 0x32, 0x38, 0x2d, 0x63, 0x74, 0x72]   -- "aes-128-ctr"
def kdfName : Bytes := [0x70, 0x62, 0x6b, 0x64, 0x66, 0x32]                                          -- "pbkdf2"
def prfName : Bytes := [0x68, 0x6d, 0x61, 0x63, 0x2d, 0x73, 0x68, 0x61, 0x32, 0x35, 0x36]            -- "hmac-sha256"

/-- the largest derived-key length accepted from a key file (`maxPBKDF2DKLen`) -/
def maxDKLen : Int := 1024

/-- the allocator's limit: `pbkdf2.Key` with a longer key aborts (panic or out-of-memory) -/
def allocLimit : Int := 2 ^ 40

/-- the largest iteration count accepted from a key file (`maxPBKDF2C`) -/
def maxIter : Int := 10000000

/-- the patience limit: `pbkdf2.Key` with more iterations does not come back in any useful time (2⁴⁰ HMAC rounds are
days; the counts a crafted file can name go up to 2⁶³) — for "returns a result or an error" as good as never -/
def iterLimit : Int := 2 ^ 40

/-- `decryptKey` after the repairs of F4, F22 and F29 (dklen — both ways —, the iteration count and the IV length are
checked before use). -/
def decryptKey (k : KeyFile) : Outcome Unit :=
  if k.version ≠ 3 then .err "version" else
  if k.cipher ≠ cipherAlgorithm then .err "cipher" else
  if k.kdf ≠ kdfName then .err "kdf" else
  if k.prf ≠ prfName then .err "prf" else
  if !k.macHexOK then .err "mac-hex" else
  if !k.ivHexOK then .err "iv-hex" else
  if !k.ctHexOK then .err "ct-hex" else
  if !k.saltHexOK then .err "salt-hex" else
  if k.dklen < 32 ∨ k.dklen > maxDKLen then .err "dklen" else
  if k.c > maxIter then .err "c" else
  if k.ivLen ≠ 16 then .err "iv-len" else
  -- pbkdf2.Key(passwd, salt, c, dklen): fine for 0 ≤ dklen ≤ maxDKLen < allocLimit and any c (c ≤ 1 means a single round)
  if k.dklen ≥ allocLimit then .panic "pbkdf2.Key: makeslice / out of memory" else
  if k.c ≥ iterLimit then .panic "pbkdf2.Key: does not return" else
  -- derivedKey[16:32]: fine, the derived key has dklen ≥ 32 bytes
  if !k.macOK then .err "mac" else
  -- aes.NewCipher(derivedKey[:16]) with a 16-byte key, cipher.NewCTR with a 16-byte IV
  .ok ()

/-- after F22, before F29: no upper bound on the iteration count -/
def decryptKeyF22 (k : KeyFile) : Outcome Unit :=
  if k.version ≠ 3 then .err "version" else
  if k.cipher ≠ cipherAlgorithm then .err "cipher" else
  if k.kdf ≠ kdfName then .err "kdf" else
  if k.prf ≠ prfName then .err "prf" else
  if !k.macHexOK then .err "mac-hex" else
  if !k.ivHexOK then .err "iv-hex" else
  if !k.ctHexOK then .err "ct-hex" else
  if !k.saltHexOK then .err "salt-hex" else
  if k.dklen < 32 ∨ k.dklen > maxDKLen then .err "dklen" else
  if k.ivLen ≠ 16 then .err "iv-len" else
  if k.c ≥ iterLimit then .panic "pbkdf2.Key: does not return" else
  if !k.macOK then .err "mac" else
  .ok ()

/-- after F4, before F22: no upper bound on `dklen` -/
def decryptKeyF4 (k : KeyFile) : Outcome Unit :=
  if k.version ≠ 3 then .err "version" else
  if k.cipher ≠ cipherAlgorithm then .err "cipher" else
  if k.kdf ≠ kdfName then .err "kdf" else
  if k.prf ≠ prfName then .err "prf" else
  if !k.macHexOK then .err "mac-hex" else
  if !k.ivHexOK then .err "iv-hex" else
  if !k.ctHexOK then .err "ct-hex" else
  if !k.saltHexOK then .err "salt-hex" else
  if k.dklen < 32 then .err "dklen" else
  if k.ivLen ≠ 16 then .err "iv-len" else
  if k.dklen ≥ allocLimit then .panic "pbkdf2.Key: makeslice / out of memory" else
  if !k.macOK then .err "mac" else
  .ok ()

/-- the unrepaired function, for the counterexamples -/
def decryptKeyOld (k : KeyFile) : Outcome Unit :=
  if k.version ≠ 3 then .err "version" else
  if k.cipher ≠ cipherAlgorithm then .err "cipher" else
  if k.kdf ≠ kdfName then .err "kdf" else
  if k.prf ≠ prfName then .err "prf" else
  if !k.macHexOK then .err "mac-hex" else
  if !k.ivHexOK then .err "iv-hex" else
  if !k.ctHexOK then .err "ct-hex" else
  if !k.saltHexOK then .err "salt-hex" else
  if k.dklen < 0 then .panic "pbkdf2: negative length" else
  if k.dklen < 32 then .panic "derivedKey[16:32] out of range" else
  if !k.macOK then .err "mac" else
  if k.ivLen ≠ 16 then .panic "cipher.NewCTR: IV length must equal block size" else
  .ok ()

/-! ## Lock protocol -/

inductive LockOp where | rlock | runlock | lock | unlock
  deriving Repr, DecidableEq

/-- a thread: remaining program, the read locks it holds, whether it holds the write lock, and whether it
is blocked in `Lock()` (a *waiting writer*, which in Go blocks every new reader) -/
structure Thread where
  prog : List LockOp
  heldR : Nat := 0
  heldW : Bool := false
  waitingW : Bool := false
  deriving Repr, DecidableEq

abbrev Sys := List Thread

def noWriter (s : Sys) : Bool := s.all fun t => !t.heldW && !t.waitingW
def free (s : Sys) : Bool := s.all fun t => t.heldR = 0 && !t.heldW

/-- the next state of thread `t` in system `s`; `none` if it is done or blocked -/
def stepOf (s : Sys) (t : Thread) : Option Thread :=
  match t.prog with
  | [] => none
  | .rlock :: rest => if noWriter s then some { t with prog := rest, heldR := t.heldR + 1 } else none
  | .runlock :: rest => some { t with prog := rest, heldR := t.heldR - 1 }
  | .lock :: rest =>
    if free s then some { t with prog := rest, heldW := true, waitingW := false }
    else if t.waitingW then none
    else some { t with waitingW := true }
  | .unlock :: rest => some { t with prog := rest, heldW := false }

/-- run thread `i` one step -/
def stepThread (s : Sys) (i : Nat) : Option Sys :=
  match s[i]? with
  | none => none
  | some t => (stepOf s t).map fun t' => s.set i t'

/-- run a schedule (a list of thread indices); an index whose thread is blocked or finished is skipped -/
def runSched : Sys → List Nat → Sys
  | s, [] => s
  | s, i :: rest => runSched ((stepThread s i).getD s) rest

def done (s : Sys) : Bool := s.all (·.prog.isEmpty)

def enabled (s : Sys) : Bool := s.any fun t => (stepOf s t).isSome

/-- a deadlock: not finished, nobody can move -/
def deadlocked (s : Sys) : Bool := !done s && !enabled s

/-- the lock operations of the key-store methods after the repair of F5 -/
def progSave : List LockOp := [.lock, .unlock]
def progLoad : List LockOp := [.rlock, .runlock]
def progLoadByAddress : List LockOp := [.rlock, .runlock, .rlock, .runlock]
/-- before the repair: the read lock was held across the call to `Load` -/
def progLoadByAddressOld : List LockOp := [.rlock, .rlock, .runlock, .runlock]

/-- a program that never acquires while holding: a sequence of `rlock; runlock` and `lock; unlock` blocks -/
def wb : List LockOp → Bool
  | [] => true
  | .rlock :: .runlock :: r => wb r
  | .lock :: .unlock :: r => wb r
  | _ => false

end Panacea.Keystore
