import Panacea.Model.KV
import Panacea.Model.Outcome
/-!
# x/did — documents, validity, ownership proofs, message server, query

Strings are byte strings.  The protobuf encoding of a *document* is not modelled: every message carries
`docBytes`, the bytes `msg.Document.Marshal()` produced on the Go side (observed by the correspondence
run); what is modelled concretely is everything built on top of it: `DataWithSeq` framing with the
sequence number, base58 decoding of the public key, the resolution of the verification method, all
validity checks and the three handlers.  Signature verification is a parameter (`Crypto`).
-/
namespace Panacea.Did
open Panacea

/-! ## base58 (btcutil) -/

def b58Alphabet : Bytes := [0x31, 0x32, 0x33, 0x34, 0x35, 0x36, 0x37, 0x38, 0x39, 0x41, 0x42, 0x43, 0x44, 0x45, 0x46, 0x47, 0x48, 0x4a, 0x4b, 0x4c, 0x4d, 0x4e, 0x50, 0x51, 0x52, 0x53, 0x54, 0x55, 0x56, 0x57, 0x58, 0x59, 0x5a, 0x61, 0x62, 0x63, 0x64, 0x65, 0x66, 0x67, 0x68, 0x69, 0x6a, 0x6b, 0x6d, 0x6e, 0x6f, 0x70, 0x71, 0x72, 0x73, 0x74, 0x75, 0x76, 0x77, 0x78, 0x79, 0x7a]  -- "123456789ABCDEFGHJKLMNPQRSTUVWXYZabcdefghijkmnopqrstuvwxyz"

def b58Index (c : UInt8) : Option Nat := b58Alphabet.idxOf? c

def isB58 (c : UInt8) : Bool := (b58Index c).isSome

def natToBytesAux : Nat → Nat → Bytes → Bytes
  | 0, _, acc => acc
  | fuel+1, n, acc => if n = 0 then acc else natToBytesAux fuel (n / 256) (UInt8.ofNat (n % 256) :: acc)

/-- `big.Int.Bytes()`: minimal big-endian bytes (empty for 0). -/
def natToBytes (n : Nat) : Bytes := natToBytesAux (n + 1) n []

/-- `base58.Decode` for ASCII input: the empty result for any character outside the alphabet. -/
def b58Decode (s : Bytes) : Bytes :=
  match s.foldlM (fun (acc : Nat) c => (b58Index c).map (fun d => acc * 58 + d)) 0 with
  | none => []
  | some v => List.replicate (s.takeWhile (· = 0x31)).length 0 ++ natToBytes v

/-! ## Documents -/

structure VM where
  id : Bytes := []
  type : Bytes := []
  controller : Bytes := []
  pubKeyB58 : Bytes := []
  deriving Repr, DecidableEq

/-- `VerificationRelationship`: a reference to a method id, a dedicated method, or (content unset) neither
— the Go getters then return `""` and `nil`, i.e. it behaves as a reference to the empty id. -/
inductive Rel where
  | ref (id : Bytes)
  | dedicated (vm : VM)
  deriving Repr, DecidableEq

structure Service where
  id : Bytes := []
  type : Bytes := []
  endpoint : Bytes := []
  deriving Repr, DecidableEq

structure Doc where
  contexts : Option (List Bytes) := none
  id : Bytes := []
  controller : Option (List Bytes) := none
  vms : List VM := []
  auths : List Rel := []
  asserts : List Rel := []
  keyAgrs : List Rel := []
  capInvs : List Rel := []
  capDels : List Rel := []
  services : List Service := []
  deriving Repr, DecidableEq

structure DocWithSeq where
  doc : Option Doc      -- `*DIDDocument`, nil-able
  seq : Nat
  docBytes : Bytes      -- `doc.Marshal()` as observed; carried so that dumps can show it
  deriving Repr, DecidableEq

def didPrefix : Bytes := [0x64, 0x69, 0x64, 0x3a, 0x70, 0x61, 0x6e, 0x61, 0x63, 0x65, 0x61, 0x3a]  -- "did:panacea:"

/-- `ValidateDID`: `^did:panacea:[base58]{32,44}$`. -/
def validateDID (d : Bytes) : Bool :=
  didPrefix.isPrefixOf d &&
  (let rest := d.drop didPrefix.length
   decide (32 ≤ rest.length) && decide (rest.length ≤ 44) && rest.all isB58)

def isSpace (c : UInt8) : Bool := c = 0x09 || c = 0x0a || c = 0x0c || c = 0x0d || c = 0x20

def maxVMIDLen : Nat := 128

/-- `ValidateVerificationMethodID(id, did)`: `did#` prefix, suffix of 1..128 bytes, no whitespace. -/
def validateVMID (id did : Bytes) : Bool :=
  let pfx := did ++ [0x23]
  pfx.isPrefixOf id &&
  (let suffix := id.drop pfx.length
   decide (suffix.length ≤ maxVMIDLen) && decide (suffix ≠ []) && suffix.all (fun c => !isSpace c))

def contextDIDV1 : Bytes := [0x68, 0x74, 0x74, 0x70, 0x73, 0x3a, 0x2f, 0x2f, 0x77, 0x77, 0x77, 0x2e, 0x77, 0x33, 0x2e, 0x6f, 0x72, 0x67, 0x2f, 0x6e, 0x73, 0x2f, 0x64, 0x69, 0x64, 0x2f, 0x76, 0x31]  -- "https://www.w3.org/ns/did/v1"

def nodup : List Bytes → Bool
  | [] => true
  | x :: xs => !xs.contains x && nodup xs

def validateContexts (cs : List Bytes) : Bool :=
  match cs with
  | [] => false
  | c0 :: _ => c0 = contextDIDV1 && nodup cs && cs.all (· ≠ [])

def emptyDIDs (ds : List Bytes) : Bool := ds.all (· = [])

def validateDIDs (ds : List Bytes) : Bool := !emptyDIDs ds && ds.all validateDID

def VM.valid (vm : VM) (did : Bytes) : Bool :=
  validateVMID vm.id did && decide (vm.type ≠ []) && decide (vm.pubKeyB58 ≠ []) && vm.pubKeyB58.all isB58

def vmByID (vms : List VM) (id : Bytes) : Option VM := vms.find? (fun vm => vm.id = id)

def Rel.valid (r : Rel) (did : Bytes) : Bool :=
  match r with
  | .dedicated vm => vm.valid did
  | .ref id => validateVMID id did

def validRels (d : Doc) (rs : List Rel) : Bool :=
  rs.all fun r => r.valid d.id && (match r with
    | .dedicated _ => true
    | .ref id => (vmByID d.vms id).isSome)

def Doc.empty (d : Doc) : Bool := d.id = []

/-- `DIDDocument.Valid()`. -/
def Doc.valid (d : Doc) : Bool :=
  if d.empty then true else
  if !validateDID d.id || d.vms.isEmpty || d.auths.isEmpty then false else
  if (match d.controller with | some c => c.isEmpty | none => false) then false else   -- F32: a list that is present names somebody
  if (match d.controller with | some c => !emptyDIDs c && !validateDIDs c | none => false) then false else
  if (match d.contexts with | some c => !validateContexts c | none => false) then false else
  d.vms.all (·.valid d.id) &&
  validRels d d.auths && validRels d d.asserts && validRels d d.keyAgrs && validRels d d.capInvs &&
  validRels d d.capDels &&
  d.services.all (fun s => s.id ≠ [] && s.type ≠ [] && s.endpoint ≠ [])

/-- `VerificationMethodFrom(relationships, id)`. -/
def vmFrom (d : Doc) : List Rel → Bytes → Option VM
  | [], _ => none
  | .dedicated vm :: rest, id => if vm.id = id then some vm else vmFrom d rest id
  | .ref rid :: rest, id => if rid = id then vmByID d.vms rid else vmFrom d rest id

/-! ## Sign bytes: protobuf `DataWithSeq{data = 1 (bytes), sequence = 2 (uint64)}` -/

def varintAux : Nat → Nat → Bytes
  | 0, _ => []
  | fuel+1, n => if n < 128 then [UInt8.ofNat n] else UInt8.ofNat (n % 128 + 128) :: varintAux fuel (n / 128)

/-- protobuf base-128 varint. -/
def varint (n : Nat) : Bytes := varintAux (n + 1) n

/-- `mustGetSignBytesWithSeq`: proto3 omits empty `data` and zero `sequence`. -/
def signBytes (data : Bytes) (seq : Nat) : Bytes :=
  (if data = [] then [] else 0x0a :: varint data.length ++ data) ++
  (if seq = 0 then [] else 0x10 :: varint seq)

/-- `DIDDocument{Id: did}.Marshal()` — what `DeactivateDID` signs. -/
def marshalIdOnly (did : Bytes) : Bytes :=
  if did = [] then [] else 0x12 :: varint did.length ++ did

def es256k2019 : Bytes := [0x45, 0x63, 0x64, 0x73, 0x61, 0x53, 0x65, 0x63, 0x70, 0x32, 0x35, 0x36, 0x6b, 0x31, 0x56, 0x65, 0x72, 0x69, 0x66, 0x69, 0x63, 0x61, 0x74, 0x69, 0x6f, 0x6e, 0x4b, 0x65, 0x79, 0x32, 0x30, 0x31, 0x39]  -- "EcdsaSecp256k1VerificationKey2019"
def es256k2018 : Bytes := [0x53, 0x65, 0x63, 0x70, 0x32, 0x35, 0x36, 0x6b, 0x31, 0x56, 0x65, 0x72, 0x69, 0x66, 0x69, 0x63, 0x61, 0x74, 0x69, 0x6f, 0x6e, 0x4b, 0x65, 0x79, 0x32, 0x30, 0x31, 0x38]  -- "Secp256k1VerificationKey2018"

/-- Signature verification is a parameter, never an axiom. -/
structure Crypto where
  verify : Bytes → Bytes → Bytes → Bool     -- public key (33 bytes), message, signature

def nextSeq (n : Nat) : Nat := wrap64 (n + 1)

/-- `VerifyDIDOwnership(signData, seq, doc, vmID, sig)` with `signDataBytes = signData.Marshal()`. -/
def verifyOwnership (cr : Crypto) (signDataBytes : Bytes) (seq : Nat) (doc : Doc) (vmID sig : Bytes) : Outcome Nat :=
  match vmFrom doc doc.auths vmID with
  | none => .err "did/8:vm-not-found"
  | some vm =>
    if vm.type ≠ es256k2019 ∧ vm.type ≠ es256k2018 then .err "did/15:key-type" else
    let pk := b58Decode vm.pubKeyB58
    if pk.length ≠ 33 then .err "did/10:pubkey" else
    if cr.verify pk (signBytes signDataBytes seq) sig then
      -- the sequence space is exhausted: the next sequence would wrap around to 0, "the DID does not exist" (F23)
      if nextSeq seq = 0 then .err "did/12:seq-exhausted" else .ok (nextSeq seq)
    else .err "did/9:sig"

/-! ## State, messages, handlers -/

abbrev State := Map DocWithSeq      -- keyed by the DID string bytes (store prefix 0x00 ++ did)

inductive Msg where
  | create (did : Bytes) (doc : Option Doc) (docBytes : Bytes) (vmID sig from_ : Bytes)
  | update (did : Bytes) (doc : Option Doc) (docBytes : Bytes) (vmID sig from_ : Bytes)
  | deactivate (did vmID sig from_ : Bytes)
  deriving Repr, DecidableEq

def DocWithSeq.isEmpty (d : DocWithSeq) : Bool :=
  match d.doc with
  | none => true
  | some doc => doc.empty && d.seq = 0

def DocWithSeq.deactivated (d : DocWithSeq) : Outcome Bool :=
  match d.doc with
  | none => .panic "nil Document"
  | some doc => .ok (doc.empty && d.seq ≠ 0)

/-- `GetDIDDocument`: the zero value (nil document, sequence 0) when nothing is stored. -/
def getDoc (s : State) (did : Bytes) : DocWithSeq := (s.get did).getD { doc := none, seq := 0, docBytes := [] }

def emptyDoc : Doc := {}

/-- Message server (after `ValidateBasic`; see `deliver`). -/
def handle (cr : Crypto) (s : State) : Msg → Outcome State
  | .create did doc docBytes vmID sig _ => do
    let cur := getDoc s did
    if !cur.isEmpty then
      let dead ← cur.deactivated
      if dead then .err "did/13:deactivated" else .err "did/2:exists"
    else
    match doc with
    | none => .panic "nil Document"
    | some d =>
      let _ ← verifyOwnership cr docBytes 0 d vmID sig
      .ok (s.set did { doc := some d, seq := 0, docBytes := docBytes })
  | .update did doc docBytes vmID sig _ => do
    let cur := getDoc s did
    if cur.isEmpty then .err "did/5:not-found" else
    let dead ← cur.deactivated
    if dead then .err "did/13:deactivated" else
    match cur.doc with
    | none => .panic "unreachable"
    | some stored =>
      let newSeq ← verifyOwnership cr docBytes cur.seq stored vmID sig
      .ok (s.set did { doc := doc, seq := newSeq, docBytes := docBytes })
  | .deactivate did vmID sig _ => do
    let cur := getDoc s did
    if cur.isEmpty then .err "did/5:not-found" else
    let dead ← cur.deactivated
    if dead then .err "did/13:deactivated" else
    match cur.doc with
    | none => .panic "unreachable"
    | some stored =>
      let newSeq ← verifyOwnership cr (marshalIdOnly did) cur.seq stored vmID sig
      .ok (s.set did { doc := some emptyDoc, seq := newSeq, docBytes := [] })

/-- `Query/DID` after base64-decoding the request. -/
def queryDID (s : State) (did : Bytes) : Outcome DocWithSeq := do
  let cur := getDoc s did
  if cur.isEmpty then .err "not-found" else
  let dead ← cur.deactivated
  if dead then .err "not-found:deactivated" else .ok cur

end Panacea.Did

namespace Panacea.Did
open Panacea

/-! ## Stateless validation (`ValidateBasic`) and the delivery pipeline -/

/-- `ValidateBasic` of the three DID messages; `decAddr` is `AccAddressFromBech32`. -/
def validateBasic (decAddr : Bytes → Option Bytes) : Msg → Outcome Unit
  | .create did doc _ _ sig from_ | .update did doc _ _ sig from_ =>
    if !validateDID did then .err "did/3:invalid-did" else
    match doc with
    | none => .err "did/4:invalid-doc"     -- absent document (fix for F2: used to dereference nil)
    | some d =>
      if !d.valid then .err "did/4:invalid-doc" else
      if d.id ≠ did then .err "did/4:invalid-doc" else   -- fix for F6: the document must describe `did`
      if sig = [] then .err "did/6:invalid-sig" else
      if (decAddr from_).isNone then .err "sdk:invalid-address" else .ok ()
  | .deactivate did _ sig from_ =>
    if !validateDID did then .err "did/3:invalid-did" else
    if sig = [] then .err "did/6:invalid-sig" else
    if (decAddr from_).isNone then .err "sdk:invalid-address" else .ok ()

/-- What baseapp does with one message: stateless validation, then the handler. -/
def deliver (decAddr : Bytes → Option Bytes) (cr : Crypto) (s : State) (m : Msg) : Outcome State := do
  validateBasic decAddr m
  handle cr s m

def step (decAddr : Bytes → Option Bytes) (cr : Crypto) (s : State) (m : Msg) : State :=
  match deliver decAddr cr s m with
  | .ok s' => s'
  | _ => s

def run (decAddr : Bytes → Option Bytes) (cr : Crypto) (s : State) (ms : List Msg) : State :=
  ms.foldl (step decAddr cr) s

end Panacea.Did
