import Panacea.Model.Bytes
import Panacea.Model.Outcome
import Panacea.Model.Did
import Panacea.Model.Aol
/-!
# Stateless validation (`ValidateBasic`) of the AOL and PNFT messages

Written after the Go code: same checks, same order.  `dec` is `sdk.AccAddressFromBech32`.
(The DID messages are in `Model/Did.lean`.)
-/
namespace Panacea.Validate
open Panacea

def maxTopicLength : Nat := 70
def maxMonikerLength : Nat := 70
def maxDescriptionLength : Nat := 5000
def maxRecordKeyLength : Nat := 70
def maxRecordValueLength : Nat := 5000

/-- the character class `[A-Za-z0-9._-]` of both AOL regular expressions -/
def nameChar (c : UInt8) : Bool :=
  (0x41 ≤ c && c ≤ 0x5a) || (0x61 ≤ c && c ≤ 0x7a) || (0x30 ≤ c && c ≤ 0x39) || c = 0x2e || c = 0x5f || c = 0x2d

/-- `validateTopicName`: length check, then `^[A-Za-z0-9._-]+$`. -/
def validateTopicName (t : Bytes) : Outcome Unit :=
  if t.length > maxTopicLength then .err "aol/2:too-large" else
  if !(decide (t ≠ []) && t.all nameChar) then .err "aol/3:invalid-topic" else .ok ()

/-- `validateMoniker`: length check, then `^[A-Za-z0-9._-]*$`. -/
def validateMoniker (m : Bytes) : Outcome Unit :=
  if m.length > maxMonikerLength then .err "aol/2:too-large" else
  if !(m.all nameChar) then .err "aol/4:invalid-moniker" else .ok ()

def validateDescription (d : Bytes) : Outcome Unit :=
  if d.length > maxDescriptionLength then .err "aol/2:too-large" else .ok ()

def validateRecordKey (k : Bytes) : Outcome Unit :=
  if k.length > maxRecordKeyLength then .err "aol/2:too-large" else .ok ()

def validateRecordValue (v : Bytes) : Outcome Unit :=
  if v.length > maxRecordValueLength then .err "aol/2:too-large" else .ok ()

def validAddr (dec : Bytes → Option Bytes) (a : Bytes) : Outcome Unit :=
  if (dec a).isSome then .ok () else .err "sdk/7:invalid-address"

/-- the four AOL messages (defined with the keeper model) -/
abbrev AolMsg := Aol.Msg

def aolValidateBasic (dec : Bytes → Option Bytes) : AolMsg → Outcome Unit
  | .createTopic t d o => do
    validateTopicName t; validateDescription d; validAddr dec o
  | .addWriter t m d w o => do
    validateTopicName t; validateMoniker m; validateDescription d; validAddr dec w; validAddr dec o
  | .deleteWriter t w o => do
    validateTopicName t; validAddr dec w; validAddr dec o
  | .addRecord t k v w o f => do
    validateTopicName t; validateRecordKey k; validateRecordValue v; validAddr dec w; validAddr dec o
    if f ≠ [] then validAddr dec f else .ok ()

inductive PnftMsg where
  | createDenom (id name symbol description uri uriHash data creator : Bytes)
  | updateDenom (id name symbol description uri uriHash data updater : Bytes)
  | deleteDenom (id remover : Bytes)
  | transferDenom (id sender receiver : Bytes)
  | mintPNFT (denomId id name description uri uriHash data creator : Bytes)
  | transferPNFT (denomId id sender receiver : Bytes)
  | burnPNFT (denomId id burner : Bytes)
  deriving Repr, DecidableEq

def nonEmpty (b : Bytes) (what : String) : Outcome Unit :=
  if b = [] then .err ("pnft:empty-" ++ what) else .ok ()

/-- `AccAddressFromBech32` errors are returned unwrapped by the PNFT validators. -/
def pnftAddr (dec : Bytes → Option Bytes) (a : Bytes) : Outcome Unit :=
  if (dec a).isSome then .ok () else .err "pnft:invalid-address"

/-- `0x00` is the `x/nft` key delimiter; identifiers that contain it are refused (fix for F9). -/
def noNul (b : Bytes) : Outcome Unit :=
  if b.contains 0x00 then .err "pnft:nul-in-id" else .ok ()

def pnftValidateBasic (dec : Bytes → Option Bytes) : PnftMsg → Outcome Unit
  | .createDenom id name symbol _ _ _ _ creator => do
    nonEmpty id "id"; noNul id; nonEmpty name "name"; nonEmpty symbol "symbol"; nonEmpty creator "creator"
    pnftAddr dec creator
  | .updateDenom id _ _ _ _ _ _ updater => do
    nonEmpty id "id"; nonEmpty updater "updater"; pnftAddr dec updater
  | .deleteDenom id remover => do
    nonEmpty id "id"; nonEmpty remover "remover"; pnftAddr dec remover
  | .transferDenom id sender receiver => do
    nonEmpty id "id"; nonEmpty sender "sender"; pnftAddr dec sender; nonEmpty receiver "receiver"; pnftAddr dec receiver
  | .mintPNFT denomId id name _ _ _ _ creator => do
    nonEmpty denomId "denomId"; nonEmpty id "id"; nonEmpty name "name"; noNul denomId; noNul id
    nonEmpty creator "creator"; pnftAddr dec creator
  | .transferPNFT denomId id sender receiver => do
    nonEmpty denomId "denomId"; nonEmpty id "id"; nonEmpty sender "sender"; pnftAddr dec sender
    nonEmpty receiver "receiver"; pnftAddr dec receiver
  | .burnPNFT denomId id burner => do
    nonEmpty denomId "denomId"; nonEmpty id "id"; nonEmpty burner "burner"; pnftAddr dec burner

end Panacea.Validate

namespace Panacea.Validate
open Panacea

/-- `GetSigners` of the AOL messages (decoded address bytes); `panic` where the Go code panics on an
address that does not decode. -/
def aolSigners (dec : Bytes → Option Bytes) : AolMsg → Outcome (List Bytes)
  | .createTopic _ _ o | .addWriter _ _ _ _ o | .deleteWriter _ _ o =>
    match dec o with | some a => .ok [a] | none => .panic "GetSigners"
  | .addRecord _ _ _ w _ f =>
    match dec w with
    | none => .panic "GetSigners"
    | some wa =>
      if f ≠ [] then
        match dec f with | some fa => .ok [fa, wa] | none => .panic "GetSigners"
      else .ok [wa]

def pnftSigners (dec : Bytes → Option Bytes) : PnftMsg → Outcome (List Bytes)
  | .createDenom _ _ _ _ _ _ _ a | .updateDenom _ _ _ _ _ _ _ a | .deleteDenom _ a | .transferDenom _ a _
  | .mintPNFT _ _ _ _ _ _ _ a | .transferPNFT _ _ a _ | .burnPNFT _ _ a =>
    match dec a with | some x => .ok [x] | none => .panic "GetSigners"

def didSigners (dec : Bytes → Option Bytes) : Did.Msg → Outcome (List Bytes)
  | .create _ _ _ _ _ f | .update _ _ _ _ _ f | .deactivate _ _ _ f =>
    match dec f with | some x => .ok [x] | none => .panic "GetSigners"

end Panacea.Validate
