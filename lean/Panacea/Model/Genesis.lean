import Panacea.Model.Aol
import Panacea.Model.Did
/-!
# Genesis export / import of the custom modules

AOL: `ExportGenesis` renders every store key in its string form (`compkey.EncodeToString` with `/`), and
`InitGenesis` decodes the strings back (`MustDecodeFromString`) and writes the entries with the ordinary
setters.  The JSON maps are modelled as association lists in export order; Go's random map iteration on
import is covered by `importTable` being applied to an arbitrary list (and by the order-independence
theorem in `Properties/C08`).  DID: the map `did ↦ DIDDocumentWithSeq` verbatim.
-/
namespace Panacea.Genesis
open Panacea CompKey

/-- export one table: key bytes → key string (`MustDecode` then `EncodeToString`) -/
def exportTable {V} (c : AddrCodec) (k : Kind) (m : Map V) : Outcome (List (Bytes × V)) :=
  m.foldr (fun e acc => do
    let rest ← acc
    match decodeTyped k e.1 with
    | .ok comps => .ok ((encodeToString c k comps, e.2) :: rest)
    | _ => .panic "MustDecode") (.ok [])

/-- import one table: key string → key bytes (`MustDecodeFromString` then `MustEncode`), `Set` in list order -/
def importStep {V} (c : AddrCodec) (k : Kind) (acc : Outcome (Map V)) (e : Bytes × V) : Outcome (Map V) :=
  match acc with
  | .ok m =>
    match decodeFromString c k e.1 with
    | some comps => match encode comps with
      | some key => .ok (m.set key e.2)
      | none => .panic "MustEncode"
    | none => .panic "MustDecodeFromString"
  | .err x => .err x
  | .panic p => .panic p

def importTable {V} (c : AddrCodec) (k : Kind) (l : List (Bytes × V)) : Outcome (Map V) :=
  l.foldl (importStep c k) (.ok [])

structure AolGenesis where
  owners : List (Bytes × Aol.Owner)
  topics : List (Bytes × Aol.Topic)
  writers : List (Bytes × Aol.Writer)
  records : List (Bytes × Aol.Record)

def aolExport (c : AddrCodec) (s : Aol.State) : Outcome AolGenesis := do
  let o ← exportTable c .owner s.owners
  let t ← exportTable c .topic s.topics
  let w ← exportTable c .writer s.writers
  let r ← exportTable c .record s.records
  pure { owners := o, topics := t, writers := w, records := r }

def aolImport (c : AddrCodec) (g : AolGenesis) : Outcome Aol.State := do
  let o ← importTable c .owner g.owners
  let t ← importTable c .topic g.topics
  let w ← importTable c .writer g.writers
  let r ← importTable c .record g.records
  pure { owners := o, topics := t, writers := w, records := r }

/-- DID: export lists the store, import writes the entries back under their keys. -/
def didExport (s : Did.State) : List (Bytes × Did.DocWithSeq) := s
def didImport (l : List (Bytes × Did.DocWithSeq)) : Did.State := l.foldl (fun m e => m.set e.1 e.2) []

/-- `GenesisState.Validate` of x/did, as far as identifiers and sequences go: an active document describes the DID
it is registered under (repair of F19) and no sequence is the largest `uint64`, whose successor would be the
initial sequence that stands for "does not exist" (repair of F21).  (Well-formedness of each document is the
message validators' `Doc.valid`.) -/
def didGenesisValid (l : List (Bytes × Did.DocWithSeq)) : Bool :=
  l.all fun e =>
    decide (e.2.seq < 18446744073709551616) &&   -- a uint64; the end of the range is handled by the handlers (F23)
    (match e.2.doc with
     | some doc => doc.empty || doc.id == e.1
     | none => false)

end Panacea.Genesis
