/-!
# Outcomes

A Go function that can return an error or abort with a runtime panic is a model function into
`Outcome`.  Totality (C17) is then a theorem `f x ≠ .panic`, not an artefact of Lean's totality.
-/
namespace Panacea

inductive Outcome (α : Type) where
  | ok (a : α)
  | err (code : String)
  | panic (site : String)
  deriving Repr, DecidableEq

namespace Outcome
def isOk {α} : Outcome α → Bool | ok _ => true | _ => false
def isPanic {α} : Outcome α → Bool | panic _ => true | _ => false
def bind {α β} (x : Outcome α) (f : α → Outcome β) : Outcome β :=
  match x with
  | ok a => f a
  | err c => err c
  | panic s => panic s
instance : Monad Outcome where
  pure := ok
  bind := bind
@[simp] theorem pure_eq {α} (a : α) : (pure a : Outcome α) = ok a := rfl
@[simp] theorem ok_bind {α β} (a : α) (f : α → Outcome β) : (ok a >>= f) = f a := rfl
@[simp] theorem err_bind {α β} (c : String) (f : α → Outcome β) : ((err c : Outcome α) >>= f) = err c := rfl
@[simp] theorem panic_bind {α β} (s : String) (f : α → Outcome β) : ((panic s : Outcome α) >>= f) = panic s := rfl
def cls {α} : Outcome α → String
  | ok _ => "ok" | err c => "err:" ++ c | panic _ => "panic"
end Outcome

end Panacea
