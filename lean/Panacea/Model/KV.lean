import Panacea.Model.Bytes
/-!
# Ordered key–value maps

`Map V` is an association list kept sorted by key (byte-wise lexicographic, the iteration order of every
SDK KV store).  Sortedness is a separate invariant (`Map.Sorted`), not a subtype; `get/set/del` lemmas do
not need it, listings and counts do.
-/
namespace Panacea

abbrev Map (V : Type) := List (Bytes × V)

namespace Map
variable {V : Type}

def get : Map V → Bytes → Option V
  | [], _ => none
  | (k', v) :: m, k => if k' = k then some v else get m k

def has (m : Map V) (k : Bytes) : Bool := (m.get k).isSome

/-- `store.Set`: replace, or insert at the sorted position. -/
def set : Map V → Bytes → V → Map V
  | [], k, v => [(k, v)]
  | (k', v') :: m, k, v =>
    if k' = k then (k, v) :: m
    else if Bytes.lt k k' then (k, v) :: (k', v') :: m
    else (k', v') :: set m k v

/-- `store.Delete`. -/
def del : Map V → Bytes → Map V
  | [], _ => []
  | (k', v) :: m, k => if k' = k then del m k else (k', v) :: del m k

def keys (m : Map V) : List Bytes := m.map (·.1)

/-- Strictly ascending keys. -/
def Sorted (m : Map V) : Prop := m.keys.Pairwise (fun a b => Bytes.lt a b = true)

/-- `prefix.NewStore(store, p)` as an iteration source: the entries whose key starts with `p`, keys with
the prefix stripped, in store order. -/
def prefixView (m : Map V) (p : Bytes) : List (Bytes × V) :=
  (m.filter (fun e => p.isPrefixOf e.1)).map (fun e => (e.1.drop p.length, e.2))

end Map
end Panacea
