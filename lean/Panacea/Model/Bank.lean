import Panacea.Model.Bytes
import Panacea.Model.Outcome
/-!
# x/bank (as much as the burn module touches) and x/burn's end-blocker

Balances, vesting locks and supply are functions; `denoms` is the finite universe of denominations in
play (supplied by the harness), needed because `GetAllBalances`/`SpendableCoins` enumerate the store.
`SendCoins` is modelled with its real failure mode: it checks and debits coin by coin in denom order and
returns at the first coin whose spendable amount is too small — *keeping the debits already made* unless
the caller runs it on a discardable branch (the end-blocker does not).
-/
namespace Panacea.Bank
open Panacea

structure State where
  bal : Bytes → Bytes → Nat          -- address → denom → amount
  locked : Bytes → Bytes → Nat       -- vesting-locked amount
  supply : Bytes → Nat
  denoms : List Bytes                -- universe, ascending

def spendable (s : State) (a d : Bytes) : Nat := s.bal a d - s.locked a d

def setBal (s : State) (a d : Bytes) (n : Nat) : State :=
  { s with bal := fun a' d' => if a' = a ∧ d' = d then n else s.bal a' d' }

/-- `subUnlockedCoins`: coin by coin; an insufficient coin aborts, earlier debits stay. -/
def subUnlocked (s : State) (a : Bytes) : List (Bytes × Nat) → State × Bool
  | [] => (s, true)
  | (d, n) :: rest =>
    if s.bal a d < s.locked a d then (s, false)
    else if spendable s a d < n then (s, false)
    else subUnlocked (setBal s a d (s.bal a d - n)) a rest

def addCoins (s : State) (a : Bytes) : List (Bytes × Nat) → State
  | [] => s
  | (d, n) :: rest => addCoins (setBal s a d (s.bal a d + n)) a rest

/-- `SendCoins` (no rollback of partial debits on failure). -/
def sendCoins (s : State) (src dst : Bytes) (coins : List (Bytes × Nat)) : State × Bool :=
  match subUnlocked s src coins with
  | (s1, true) => (addCoins s1 dst coins, true)
  | (s1, false) => (s1, false)

/-- `BurnCoins(module, amt)`: debit the module account, reduce supply. -/
def burnCoins (s : State) (moduleAddr : Bytes) : List (Bytes × Nat) → State
  | [] => s
  | (d, n) :: rest =>
    let s1 := setBal s moduleAddr d (s.bal moduleAddr d - n)
    burnCoins { s1 with supply := fun d' => if d' = d then s1.supply d - n else s1.supply d' } moduleAddr rest

/-- `SpendableCoins(addr)`: the non-zero spendable amounts, in denom order. -/
def spendableCoins (s : State) (a : Bytes) : List (Bytes × Nat) :=
  (s.denoms.map fun d => (d, spendable s a d)).filter (·.2 ≠ 0)

/-- `GetAllBalances(addr)`. -/
def allBalances (s : State) (a : Bytes) : List (Bytes × Nat) :=
  (s.denoms.map fun d => (d, s.bal a d)).filter (·.2 ≠ 0)

/-- x/burn `EndBlock` → `BurnCoins(BurnAddress)` after the repair of F11: the *spendable* coins of the
burn address are moved to the burn module account and burned there; an error is logged and swallowed. -/
def burnEndBlock (s : State) (burnAddr moduleAddr : Bytes) : State :=
  let coins := spendableCoins s burnAddr
  if coins = [] then s else
  match sendCoins s burnAddr moduleAddr coins with
  | (s1, true) => burnCoins s1 moduleAddr coins
  | (s1, false) => s1

/-- the unrepaired end-blocker (kept for the counterexample): it tried to move *all* balances -/
def burnEndBlockOld (s : State) (burnAddr moduleAddr : Bytes) : State :=
  let coins := allBalances s burnAddr
  if coins = [] then s else
  match sendCoins s burnAddr moduleAddr coins with
  | (s1, true) => burnCoins s1 moduleAddr coins
  | (s1, false) => s1

end Panacea.Bank
