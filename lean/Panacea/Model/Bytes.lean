/-!
# Byte strings

Go `[]byte` and Go `string` (when used as a byte string: `len(s)`, store keys, map keys) are
`List UInt8` in the model, never `String`, so that lengths are lengths in bytes and NUL / invalid
UTF-8 are representable.  Core-only (no Mathlib) so that the driver links.
-/
namespace Panacea

abbrev Bytes := List UInt8

/-- Byte-wise lexicographic order (`bytes.Compare a b < 0`), the key order of every SDK KV store. -/
def Bytes.lt : Bytes → Bytes → Bool
  | [], [] => false
  | [], _ :: _ => true
  | _ :: _, [] => false
  | a :: as, b :: bs => if a < b then true else if b < a then false else Bytes.lt as bs

/-- Go `uint64` values are natural numbers in the model; every Go addition is followed by an explicit
`% 2^64` (`wrap64`) so that wrap-around is the code's, not hidden. -/
def wrap64 (n : Nat) : Nat := n % 18446744073709551616

/-- Go `n - 1` on a `uint64` (wraps at 0). -/
def decU64 (n : Nat) : Nat := (n + 18446744073709551615) % 18446744073709551616

/-- `sdk.Uint64ToBigEndian` (of `n % 2^64`). -/
def be64 (n : Nat) : Bytes :=
  [ UInt8.ofNat (n / 72057594037927936 % 256), UInt8.ofNat (n / 281474976710656 % 256),
    UInt8.ofNat (n / 1099511627776 % 256), UInt8.ofNat (n / 4294967296 % 256),
    UInt8.ofNat (n / 16777216 % 256), UInt8.ofNat (n / 65536 % 256),
    UInt8.ofNat (n / 256 % 256), UInt8.ofNat (n % 256) ]

/-- `binary.BigEndian.Uint64` on exactly eight bytes. -/
def fromBe64 : Bytes → Option Nat
  | [a, b, c, d, e, f, g, h] =>
    some (a.toNat * 72057594037927936 + b.toNat * 281474976710656 + c.toNat * 1099511627776 +
          d.toNat * 4294967296 + e.toNat * 16777216 + f.toNat * 65536 + g.toNat * 256 + h.toNat)
  | _ => none

def hexDigit (n : Nat) : Char :=
  if n < 10 then Char.ofNat (48 + n) else Char.ofNat (87 + n)

def Bytes.toHex (b : Bytes) : String :=
  String.ofList (b.flatMap fun x => [hexDigit (x.toNat / 16), hexDigit (x.toNat % 16)])

def hexVal (c : Char) : Option Nat :=
  if '0' ≤ c ∧ c ≤ '9' then some (c.toNat - 48)
  else if 'a' ≤ c ∧ c ≤ 'f' then some (c.toNat - 87)
  else if 'A' ≤ c ∧ c ≤ 'F' then some (c.toNat - 55)
  else none

def hexToBytesAux : List Char → Option Bytes
  | [] => some []
  | [_] => none
  | a :: b :: rest =>
    match hexVal a, hexVal b, hexToBytesAux rest with
    | some x, some y, some r => some (UInt8.ofNat (16 * x + y) :: r)
    | _, _, _ => none

/-- Hex decoding used by the line protocol; `-` is the empty string. -/
def Bytes.ofHex (s : String) : Option Bytes :=
  if s = "-" then some [] else hexToBytesAux s.toList

/-- ASCII bytes of a Lean string literal (model constants only; all are ASCII). -/
def str (s : String) : Bytes := s.toUTF8.toList

end Panacea
