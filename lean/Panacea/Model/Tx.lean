import Panacea.Model.Aol
import Panacea.Model.Did
import Panacea.Model.Pnft
import Panacea.Model.Validate
/-!
# Transactions: stateless checks, ante handler, message execution, authz `MsgExec`

A model of exactly as much of baseapp / x/auth/ante / x/authz (cosmos-sdk v0.47.12) as the properties talk
about:

* `validateBasicTxMsgs` — every message's `ValidateBasic` before anything else;
* the ante chain of `app/ante.go`, reduced to: signer set = de-duplicated union of `GetSigners` in message
  order; one signature per signer, each valid and carrying the signer's current account sequence; the fee
  is taken from `FeePayer()` (explicit payer if set, else the first signer) and moved to the fee
  collector; all signers' sequences are incremented.  The ante effects persist iff ante succeeds;
* `runMsgs` on a cache branch that is written back only if *all* messages succeed;
* `MsgExec`: `GetSigners = [grantee]`; every inner message must have exactly one signer; it runs if that
  signer is the grantee itself or has a (generic) grant `(granter, grantee, message type)`.

Gas, memo, timeouts, tips, fee grants, multisig and the gov/group execution paths are not modelled.
-/
namespace Panacea.Tx
open Panacea CompKey Validate

/-- a custom-module message -/
inductive Inner where
  | aol (m : Aol.Msg)
  | did (m : Did.Msg)
  | pnft (m : PnftMsg)
  deriving Repr, DecidableEq

inductive AnyMsg where
  | plain (m : Inner)
  | exec (grantee : Bytes) (msgs : List Inner)     -- authz.MsgExec with custom-module messages inside
  deriving Repr, DecidableEq

/-- message type tag (stands for the protobuf type URL in grants) -/
def Inner.typeTag : Inner → String
  | .aol (.createTopic ..) => "aol.createTopic"
  | .aol (.addWriter ..) => "aol.addWriter"
  | .aol (.deleteWriter ..) => "aol.deleteWriter"
  | .aol (.addRecord ..) => "aol.addRecord"
  | .did (.create ..) => "did.create"
  | .did (.update ..) => "did.update"
  | .did (.deactivate ..) => "did.deactivate"
  | .pnft (.createDenom ..) => "pnft.createDenom"
  | .pnft (.updateDenom ..) => "pnft.updateDenom"
  | .pnft (.deleteDenom ..) => "pnft.deleteDenom"
  | .pnft (.transferDenom ..) => "pnft.transferDenom"
  | .pnft (.mintPNFT ..) => "pnft.mintPNFT"
  | .pnft (.transferPNFT ..) => "pnft.transferPNFT"
  | .pnft (.burnPNFT ..) => "pnft.burnPNFT"

structure Account where
  balance : Nat := 0        -- fee denom
  sequence : Nat := 0
  deriving Repr, DecidableEq

structure Grant where
  granter : Bytes
  grantee : Bytes
  typeTag : String
  deriving Repr, DecidableEq

structure State where
  aol : Aol.State := {}
  did : Did.State := []
  pnft : Pnft.State := {}
  accounts : Map Account := []     -- keyed by address bytes
  feeCollector : Nat := 0
  grants : List Grant := []
  deriving Repr, DecidableEq

structure Env where
  codec : AddrCodec
  crypto : Did.Crypto
  now : Int                  -- block time (unix nanoseconds)

def innerValidate (e : Env) : Inner → Outcome Unit
  | .aol m => aolValidateBasic e.codec.dec m
  | .did m => Did.validateBasic e.codec.dec m
  | .pnft m => pnftValidateBasic e.codec.dec m

def innerSigners (e : Env) : Inner → Outcome (List Bytes)
  | .aol m => aolSigners e.codec.dec m
  | .did m => didSigners e.codec.dec m
  | .pnft m => pnftSigners e.codec.dec m

def allOk (l : List (Outcome Unit)) : Outcome Unit :=
  l.foldl (fun acc x => match acc with | .ok () => x | o => o) (.ok ())

def msgValidate (e : Env) : AnyMsg → Outcome Unit
  | .plain m => innerValidate e m
  | .exec grantee msgs =>
    if (e.codec.dec grantee).isNone then .err "authz:grantee" else
    if msgs = [] then .err "authz:empty" else allOk (msgs.map (innerValidate e))

def msgSigners (e : Env) : AnyMsg → Outcome (List Bytes)
  | .plain m => innerSigners e m
  | .exec grantee _ => match e.codec.dec grantee with | some g => .ok [g] | none => .panic "GetSigners"

/-- the handler of one custom-module message on the three module states -/
def runInner (e : Env) (s : State) : Inner → Outcome State
  | .aol m => match Aol.handle e.codec e.now s.aol m with
    | .ok (a, _) => .ok { s with aol := a } | .err c => .err c | .panic p => .panic p
  | .did m => match Did.handle e.crypto s.did m with
    | .ok d => .ok { s with did := d } | .err c => .err c | .panic p => .panic p
  | .pnft m => match Pnft.handle e.codec e.now s.pnft m with
    | .ok p => .ok { s with pnft := p } | .err c => .err c | .panic p => .panic p

def hasGrant (s : State) (granter grantee : Bytes) (tag : String) : Bool :=
  s.grants.any fun g => g.granter = granter && g.grantee = grantee && g.typeTag = tag

/-- `authz.Keeper.DispatchActions` -/
def dispatch (e : Env) (grantee : Bytes) : State → List Inner → Outcome State
  | s, [] => .ok s
  | s, m :: rest =>
    match innerSigners e m with
    | .ok [granter] =>
      if granter ≠ grantee ∧ !hasGrant s granter grantee m.typeTag then .err "authz:no-authorization" else
      match runInner e s m with
      | .ok s' => dispatch e grantee s' rest
      | .err c => .err c
      | .panic p => .panic p
    | .ok _ => .err "authz:one-signer-only"
    | .err c => .err c
    | .panic p => .panic p

def runMsg (e : Env) (s : State) : AnyMsg → Outcome State
  | .plain m => runInner e s m
  | .exec grantee msgs =>
    match e.codec.dec grantee with
    | some g => dispatch e g s msgs
    | none => .err "authz:grantee"

/-- `runMsgs`: sequentially; the first failure aborts (the caller discards the branch). -/
def runMsgs (e : Env) : State → List AnyMsg → Outcome State
  | s, [] => .ok s
  | s, m :: rest =>
    match runMsg e s m with
    | .ok s' => runMsgs e s' rest
    | .err c => .err c
    | .panic p => .panic p

structure SigInfo where
  signer : Bytes          -- address bytes of the public key that signed
  valid : Bool            -- the signature verifies over the transaction's sign bytes
  sequence : Nat          -- the sequence the signature was made with
  deriving Repr, DecidableEq

structure Tx where
  msgs : List AnyMsg
  sigs : List SigInfo
  fee : Nat
  payer : Option Bytes := none     -- explicit `AuthInfo.Fee.Payer` (decoded), if any
  deriving Repr, DecidableEq

def dedup : List Bytes → List Bytes
  | [] => []
  | x :: xs => x :: (dedup xs).filter (· ≠ x)

/-- tx-level `GetSigners()`: union over the messages, first occurrence kept; the explicit fee payer is
appended if it is not already a signer. -/
def txSigners (e : Env) (tx : Tx) : Outcome (List Bytes) :=
  let rec go : List AnyMsg → Outcome (List Bytes)
    | [] => .ok []
    | m :: rest => match msgSigners e m, go rest with
      | .ok a, .ok b => .ok (a ++ b)
      | .panic p, _ => .panic p
      | _, .panic p => .panic p
      | .err c, _ => .err c
      | _, .err c => .err c
  match go tx.msgs with
  | .ok l =>
    let l' := dedup l
    match tx.payer with
    | some p => .ok (if l'.contains p then l' else l' ++ [p])
    | none => .ok l'
  | .err c => .err c
  | .panic p => .panic p

def feePayer (tx : Tx) (signers : List Bytes) : Option Bytes :=
  match tx.payer with
  | some p => some p
  | none => signers.head?

def bumpSeqs (accts : Map Account) : List Bytes → Map Account
  | [] => accts
  | a :: rest =>
    let acc := (accts.get a).getD {}
    bumpSeqs (accts.set a { acc with sequence := acc.sequence + 1 }) rest

/-- the ante chain: fee deduction from the fee payer, one valid signature with the right sequence per
signer, sequence increments -/
def ante (s : State) (tx : Tx) (signers : List Bytes) : Outcome State :=
  match feePayer tx signers with
  | none => .err "sdk:no-signers"
  | some payer =>
    match s.accounts.get payer with
    | none => .err "sdk:unknown-fee-payer"
    | some pacc =>
      if pacc.balance < tx.fee then .err "sdk:insufficient-funds" else
      let accts := s.accounts.set payer { pacc with balance := pacc.balance - tx.fee }
      if tx.sigs.length ≠ signers.length then .err "sdk:wrong-number-of-signers" else
      let okSig := (signers.zip tx.sigs).all fun (a, sg) =>
        match accts.get a with
        | none => false
        | some acc => sg.signer = a && sg.valid && sg.sequence = acc.sequence
      if !okSig then .err "sdk:signature" else
      .ok { s with accounts := bumpSeqs accts signers, feeCollector := s.feeCollector + tx.fee }

inductive Result where
  | ok
  | rejectedStateless     -- a message failed ValidateBasic / the tx is malformed: nothing happens
  | rejectedAnte          -- ante failed: nothing happens
  | failedMsgs            -- ante effects (fee, sequences) persist, message effects do not
  deriving Repr, DecidableEq

/-- `DeliverTx` -/
def deliverTx (e : Env) (s : State) (tx : Tx) : State × Result :=
  if tx.msgs = [] then (s, .rejectedStateless) else
  match allOk (tx.msgs.map (msgValidate e)) with
  | .ok () =>
    match txSigners e tx with
    | .ok signers =>
      match ante s tx signers with
      | .ok s1 =>
        match runMsgs e s1 tx.msgs with
        | .ok s2 => (s2, .ok)
        | _ => (s1, .failedMsgs)
      | _ => (s, .rejectedAnte)
    | _ => (s, .rejectedStateless)
  | _ => (s, .rejectedStateless)

end Panacea.Tx
