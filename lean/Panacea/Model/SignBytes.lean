import Panacea.Model.Aol
import Panacea.Model.Did
/-!
# Legacy (amino-JSON) sign bytes of the custom messages

`GetSignBytes` is `sdk.MustSortJSON(ModuleCdc.MustMarshalJSON(msg))`: the amino-JSON of the message struct —
fields under their JSON names, empty fields omitted (`omitempty`), byte slices as base64 strings — wrapped as
`{"type": <registered name>, "value": {...}}` iff the module-local codec has the type registered, and with
object keys sorted.  The structured form (`LegacyDoc`) is what the injectivity theorems are about; `render`
produces the exact bytes for values that need no JSON escaping (what the correspondence stream uses).
-/
namespace Panacea.SignBytes
open Panacea

structure LegacyDoc where
  typeName : Option Bytes              -- `none`: the module codec has no names registered (bare object)
  fields : List (Bytes × Bytes)        -- JSON name ↦ value, non-empty values only, sorted by name
  deriving Repr, DecidableEq

def field (name : Bytes) (v : Bytes) : List (Bytes × Bytes) := if v = [] then [] else [(name, v)]

/-- insertion sort by key (byte-wise, as Go's encoding/json sorts map keys) -/
def insertF (e : Bytes × Bytes) : List (Bytes × Bytes) → List (Bytes × Bytes)
  | [] => [e]
  | x :: xs => if Bytes.lt e.1 x.1 then e :: x :: xs else x :: insertF e xs

def sortF (l : List (Bytes × Bytes)) : List (Bytes × Bytes) := l.foldr insertF []

/-- the JSON object of a struct: one entry per non-empty field (`omitempty`) -/
def fieldsOf : List (Bytes × Bytes) → List (Bytes × Bytes)
  | [] => []
  | (n, v) :: r => field n v ++ fieldsOf r

/-! JSON field names (ASCII bytes) -/
def n_description : Bytes := [0x64, 0x65, 0x73, 0x63, 0x72, 0x69, 0x70, 0x74, 0x69, 0x6f, 0x6e]
def n_did : Bytes := [0x64, 0x69, 0x64]
def n_document : Bytes := [0x64, 0x6f, 0x63, 0x75, 0x6d, 0x65, 0x6e, 0x74]
def n_fee_payer_address : Bytes := [0x66, 0x65, 0x65, 0x5f, 0x70, 0x61, 0x79, 0x65, 0x72, 0x5f, 0x61, 0x64, 0x64, 0x72, 0x65, 0x73, 0x73]
def n_from_address : Bytes := [0x66, 0x72, 0x6f, 0x6d, 0x5f, 0x61, 0x64, 0x64, 0x72, 0x65, 0x73, 0x73]
def n_key : Bytes := [0x6b, 0x65, 0x79]
def n_moniker : Bytes := [0x6d, 0x6f, 0x6e, 0x69, 0x6b, 0x65, 0x72]
def n_owner_address : Bytes := [0x6f, 0x77, 0x6e, 0x65, 0x72, 0x5f, 0x61, 0x64, 0x64, 0x72, 0x65, 0x73, 0x73]
def n_signature : Bytes := [0x73, 0x69, 0x67, 0x6e, 0x61, 0x74, 0x75, 0x72, 0x65]
def n_topic_name : Bytes := [0x74, 0x6f, 0x70, 0x69, 0x63, 0x5f, 0x6e, 0x61, 0x6d, 0x65]
def n_value : Bytes := [0x76, 0x61, 0x6c, 0x75, 0x65]
def n_verification_method_id : Bytes := [0x76, 0x65, 0x72, 0x69, 0x66, 0x69, 0x63, 0x61, 0x74, 0x69, 0x6f, 0x6e, 0x5f, 0x6d, 0x65, 0x74, 0x68, 0x6f, 0x64, 0x5f, 0x69, 0x64]
def n_writer_address : Bytes := [0x77, 0x72, 0x69, 0x74, 0x65, 0x72, 0x5f, 0x61, 0x64, 0x64, 0x72, 0x65, 0x73, 0x73]

/-- AOL: the module codec registers the four type names (after the repair of F1). The fields are listed in
key order already. -/
def aolLegacyDoc : Aol.Msg → LegacyDoc
  | .createTopic t d o =>
    { typeName := some ([0x61, 0x6f, 0x6c, 0x2f, 0x43, 0x72, 0x65, 0x61, 0x74, 0x65, 0x54, 0x6f, 0x70, 0x69, 0x63] : Bytes),
      fields := fieldsOf [(n_description, d), (n_owner_address, o), (n_topic_name, t)] }
  | .addWriter t m d w o =>
    { typeName := some ([0x61, 0x6f, 0x6c, 0x2f, 0x41, 0x64, 0x64, 0x57, 0x72, 0x69, 0x74, 0x65, 0x72] : Bytes),
      fields := fieldsOf [(n_description, d), (n_moniker, m), (n_owner_address, o), (n_topic_name, t), (n_writer_address, w)] }
  | .deleteWriter t w o =>
    { typeName := some ([0x61, 0x6f, 0x6c, 0x2f, 0x44, 0x65, 0x6c, 0x65, 0x74, 0x65, 0x57, 0x72, 0x69, 0x74, 0x65, 0x72] : Bytes),
      fields := fieldsOf [(n_owner_address, o), (n_topic_name, t), (n_writer_address, w)] }
  | .addRecord t k v w o f =>
    { typeName := some ([0x61, 0x6f, 0x6c, 0x2f, 0x41, 0x64, 0x64, 0x52, 0x65, 0x63, 0x6f, 0x72, 0x64] : Bytes),
      fields := fieldsOf [(n_fee_payer_address, f), (n_key, k), (n_owner_address, o), (n_topic_name, t), (n_value, v), (n_writer_address, w)] }

/-- DID: the module codec has **no** names registered (pinned by the golden test `TestMsgCreateDID`), so the
legacy sign bytes are a bare object; `docJson` stands for the JSON of the embedded document. -/
def didLegacyDoc (docJson : Option Did.Doc → Bytes) : Did.Msg → LegacyDoc
  | .create did doc _ vm sig fr | .update did doc _ vm sig fr =>
    { typeName := none,
      fields := fieldsOf [(n_did, did), (n_document, (docJson doc)), (n_from_address, fr), (n_signature, sig), (n_verification_method_id, vm)] }
  | .deactivate did vm sig fr =>
    { typeName := none,
      fields := fieldsOf [(n_did, did), (n_from_address, fr), (n_signature, sig), (n_verification_method_id, vm)] }

/-! ## Rendering (exact bytes, for values without characters that JSON escapes) -/

def b64chars : Bytes := ([0x41, 0x42, 0x43, 0x44, 0x45, 0x46, 0x47, 0x48, 0x49, 0x4a, 0x4b, 0x4c, 0x4d, 0x4e, 0x4f, 0x50, 0x51, 0x52, 0x53, 0x54, 0x55, 0x56, 0x57, 0x58, 0x59, 0x5a, 0x61, 0x62, 0x63, 0x64, 0x65, 0x66, 0x67, 0x68, 0x69, 0x6a, 0x6b, 0x6c, 0x6d, 0x6e, 0x6f, 0x70, 0x71, 0x72, 0x73, 0x74, 0x75, 0x76, 0x77, 0x78, 0x79, 0x7a, 0x30, 0x31, 0x32, 0x33, 0x34, 0x35, 0x36, 0x37, 0x38, 0x39, 0x2b, 0x2f] : Bytes)

def b64c (n : Nat) : UInt8 := b64chars.getD n 0x3d

def base64 : Bytes → Bytes
  | [] => []
  | [a] => [b64c (a.toNat / 4), b64c (a.toNat % 4 * 16), 0x3d, 0x3d]
  | [a, b] => [b64c (a.toNat / 4), b64c (a.toNat % 4 * 16 + b.toNat / 16), b64c (b.toNat % 16 * 4), 0x3d]
  | a :: b :: c :: rest =>
    b64c (a.toNat / 4) :: b64c (a.toNat % 4 * 16 + b.toNat / 16) :: b64c (b.toNat % 16 * 4 + c.toNat / 64) ::
      b64c (c.toNat % 64) :: base64 rest

def hexLow (n : Nat) : UInt8 := if n < 10 then UInt8.ofNat (48 + n) else UInt8.ofNat (87 + n)

/-- `\u00XX` -/
def uEsc (c : UInt8) : Bytes := [0x5c, 0x75, 0x30, 0x30, hexLow (c.toNat / 16), hexLow (c.toNat % 16)]

/-- JSON string escaping as Go's `encoding/json` does it (HTML-safe mode, which amino-JSON and `MustSortJSON`
use): `"` and `\` are backslash-escaped, `\n \r \t` have short forms, other control characters and `< > &`
become `\u00XX`, U+2028/U+2029 become `\u2028/\u2029`; every other byte of a valid UTF-8 string is copied.
(Bytes that are not valid UTF-8 become U+FFFD — finding F17 — and are not rendered by this function.) -/
def jsonEscape : Bytes → Bytes
  | [] => []
  | 0xe2 :: 0x80 :: 0xa8 :: rest => [0x5c, 0x75, 0x32, 0x30, 0x32, 0x38] ++ jsonEscape rest
  | 0xe2 :: 0x80 :: 0xa9 :: rest => [0x5c, 0x75, 0x32, 0x30, 0x32, 0x39] ++ jsonEscape rest
  | c :: rest =>
    (if c = 0x22 then [0x5c, 0x22]
     else if c = 0x5c then [0x5c, 0x5c]
     else if c = 0x0a then [0x5c, 0x6e]
     else if c = 0x0d then [0x5c, 0x72]
     else if c = 0x09 then [0x5c, 0x74]
     else if c.toNat < 0x20 ∨ c = 0x3c ∨ c = 0x3e ∨ c = 0x26 then uEsc c
     else [c]) ++ jsonEscape rest

def quote (b : Bytes) : Bytes := 0x22 :: jsonEscape b ++ [0x22]

def renderFields (fs : List (Bytes × Bytes)) : Bytes :=
  0x7b :: (((fs.map fun e => quote e.1 ++ 0x3a :: quote e.2).intersperse [0x2c]).flatten ++ [0x7d])

def render (d : LegacyDoc) : Bytes :=
  match d.typeName with
  | none => renderFields d.fields
  | some t => ([0x7b, 0x22, 0x74, 0x79, 0x70, 0x65, 0x22, 0x3a] : Bytes) ++ quote t ++ ([0x2c, 0x22, 0x76, 0x61, 0x6c, 0x75, 0x65, 0x22, 0x3a] : Bytes) ++ renderFields d.fields ++ [0x7d]

/-- the AOL sign bytes as rendered by Go: `key` and `value` are byte slices (base64) -/
def aolRender (m : Aol.Msg) : Bytes :=
  let d := aolLegacyDoc m
  render { d with fields := d.fields.map fun e =>
    if e.1 = n_key ∨ e.1 = n_value then (e.1, base64 e.2) else e }

end Panacea.SignBytes
