/-!
# Block / commit / restart structure of the node (baseapp), generic in the state and the transition

`S` is the whole application state, `exec : S → B → S` executes one block (BeginBlock, the transactions,
EndBlock) on a working copy.  A node has the committed states of all heights (the versioned multistore) and
an optional working copy (the deliver state of the block in progress, a cache branch that exists in memory
only).  `Commit` appends the working copy; a crash / restart drops it; queries read a committed height.
-/
namespace Panacea.App

structure Node (S : Type) where
  committed : List S          -- committed.getLast = latest; index = height - 1 (genesis state first)
  working : Option S := none

inductive Op (B : Type) where
  | execBlock (b : B)         -- BeginBlock … DeliverTx* … EndBlock on the working copy
  | commit
  | crash                     -- stop at any point and start again on the same database
  | query (height : Nat)      -- a query goroutine asks for a committed height

variable {S B : Type}

def latest (n : Node S) (genesis : S) : S := n.committed.getLast?.getD genesis

def stepNode (exec : S → B → S) (genesis : S) (n : Node S) : Op B → Node S
  | .execBlock b => { n with working := some (exec (latest n genesis) b) }
  | .commit => match n.working with
    | some w => { committed := n.committed ++ [w], working := none }
    | none => n
  | .crash => { n with working := none }
  | .query _ => n

/-- the answer of a query for a committed height: a function of that height's committed state only -/
def queryAt (n : Node S) (h : Nat) : Option S := n.committed[h]?

def runNode (exec : S → B → S) (genesis : S) (n : Node S) (ops : List (Op B)) : Node S :=
  ops.foldl (stepNode exec genesis) n

/-- a node that processes blocks without interruption -/
def runBlocks (exec : S → B → S) (genesis : S) (n : Node S) (bs : List B) : Node S :=
  bs.foldl (fun n b => stepNode exec genesis (stepNode exec genesis n (.execBlock b)) .commit) n

end Panacea.App
