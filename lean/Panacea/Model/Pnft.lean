import Panacea.Model.KV
import Panacea.Model.CompKey
import Panacea.Model.Paginate
import Panacea.Model.Validate
/-!
# x/pnft on top of cosmos-sdk `x/nft` (v0.47.12)

The `x/nft` keeper's raw key layout is modelled byte for byte, one `Map` per prefix byte:

* `0x01 ‖ classID`                               → class          (`classes`)
* `0x02 ‖ classID ‖ 0x00 ‖ nftID`                → NFT            (`nfts`)
* `0x03 ‖ len(owner) ‖ owner ‖ 0x00 ‖ classID ‖ 0x00 ‖ nftID` → placeholder (`ownerIdx`)
* `0x04 ‖ classID ‖ 0x00 ‖ nftID`                → owner address  (`owners`)
* `0x05 ‖ classID`                               → total supply   (`supply`)

Map keys are the bytes after the prefix byte, so the delimiter-based keys alias exactly as they do in
Go when an identifier contains `0x00` (which the repaired validators reject, F9).
Addresses in messages are bech32 *text*; `c.enc` is `AccAddress.String`, `c.dec` `AccAddressFromBech32`.
-/
namespace Panacea.Pnft
open Panacea CompKey Validate

structure Class where
  id : Bytes := []
  name : Bytes := []
  symbol : Bytes := []
  description : Bytes := []
  uri : Bytes := []
  uriHash : Bytes := []
  owner : Bytes := []      -- DenomMeta.owner (bech32 text as submitted)
  data : Bytes := []       -- DenomMeta.data
  deriving Repr, DecidableEq

structure Nft where
  classId : Bytes := []
  id : Bytes := []
  uri : Bytes := []
  uriHash : Bytes := []
  name : Bytes := []
  description : Bytes := []
  creator : Bytes := []
  createdAt : Int := 0     -- block time, unix nanoseconds
  data : Bytes := []
  deriving Repr, DecidableEq

structure State where
  classes : Map Class := []
  nfts : Map Nft := []
  ownerIdx : Map Unit := []
  owners : Map Bytes := []
  supply : Map Nat := []
  deriving Repr, DecidableEq

def nftKey (classId nftId : Bytes) : Bytes := classId ++ 0x00 :: nftId
def ownerIdxPrefix (owner classId : Bytes) : Bytes := UInt8.ofNat owner.length :: owner ++ 0x00 :: classId ++ [0x00]
def ownerIdxKey (owner classId nftId : Bytes) : Bytes := ownerIdxPrefix owner classId ++ nftId

def hasClass (s : State) (id : Bytes) : Bool := s.classes.has id
def hasNFT (s : State) (classId id : Bytes) : Bool := s.nfts.has (nftKey classId id)
def getOwner (s : State) (classId id : Bytes) : Bytes := (s.owners.get (nftKey classId id)).getD []
def getSupply (s : State) (classId : Bytes) : Nat := (s.supply.get classId).getD 0

/-- `address.MustLengthPrefix` panics for addresses longer than 255 bytes; decoded addresses never are. -/
def setOwner (s : State) (classId id owner : Bytes) : State :=
  { s with owners := s.owners.set (nftKey classId id) owner,
           ownerIdx := s.ownerIdx.set (ownerIdxKey owner classId id) () }

def deleteOwner (s : State) (classId id owner : Bytes) : State :=
  { s with owners := s.owners.del (nftKey classId id),
           ownerIdx := s.ownerIdx.del (ownerIdxKey owner classId id) }

/-! ## The PNFT view of a token -/

structure Pnft where
  denomId : Bytes
  id : Bytes
  name : Bytes
  description : Bytes
  uri : Bytes
  uriHash : Bytes
  data : Bytes
  creator : Bytes
  owner : Bytes      -- bech32 text rendered from the stored owner bytes ("" when none)
  createdAt : Int
  deriving Repr, DecidableEq

def ownerText (c : AddrCodec) (o : Bytes) : Bytes := if o = [] then [] else c.enc o

/-- `ownerId` is the token id the Go code passes to `GetOwner`: the requested id in `GetPNFT`, the stored
`n.Id` in the two listings. -/
def toPnft (c : AddrCodec) (s : State) (queryDenom ownerId : Bytes) (n : Nft) : Pnft :=
  { denomId := n.classId, id := n.id, name := n.name, description := n.description, uri := n.uri,
    uriHash := n.uriHash, data := n.data, creator := n.creator,
    owner := ownerText c (getOwner s queryDenom ownerId), createdAt := n.createdAt }

def getPNFT (c : AddrCodec) (s : State) (denomId id : Bytes) : Option Pnft :=
  (s.nfts.get (nftKey denomId id)).map (toPnft c s denomId id)

/-- `ValidateBasic` of the seven messages (re-run inside every handler). -/
def validateBasic (c : AddrCodec) (m : PnftMsg) : Outcome Unit := pnftValidateBasic c.dec m

def newClass (id name symbol description uri uriHash data creator : Bytes) : Class :=
  { id := id, name := name, symbol := symbol, description := description, uri := uri, uriHash := uriHash,
    owner := creator, data := data }

def newNft (classId id name description uri uriHash data creator : Bytes) (now : Int) : Nft :=
  { classId := classId, id := id, uri := uri, uriHash := uriHash, name := name, description := description,
    creator := creator, createdAt := now, data := data }

/-- Message server. `now` = `ctx.BlockTime()` in unix nanoseconds. -/
def handle (c : AddrCodec) (now : Int) (s : State) (m : PnftMsg) : Outcome State := do
  match validateBasic c m with
  | .ok () => pure ()
  | .err _ => .err "pnft:validate"
  | .panic p => .panic p
  match m with
  | .createDenom id name symbol description uri uriHash data creator =>
    if hasClass s id then .err "pnft/1:class-exists" else
    .ok { s with classes := s.classes.set id (newClass id name symbol description uri uriHash data creator) }
  | .updateDenom id name symbol description uri uriHash data updater =>
    match s.classes.get id with
    | none => .err "pnft/2:not-found"
    | some d =>
      if updater ≠ d.owner then .err "pnft/2:permission" else
      let pick (new old : Bytes) := if new ≠ [] then new else old
      let cl : Class := { d with name := pick name d.name, symbol := pick symbol d.symbol,
                                 description := pick description d.description, uri := pick uri d.uri,
                                 uriHash := pick uriHash d.uriHash, data := pick data d.data }
      .ok { s with classes := s.classes.set id cl }
  | .deleteDenom id remover =>
    match s.classes.get id with
    | none => .err "pnft/3:not-found"
    | some d =>
      if remover ≠ d.owner then .err "pnft/3:permission" else
      if getSupply s id ≠ 0 then .err "pnft/3:not-empty" else     -- fix for F8
      .ok { s with classes := s.classes.del id }
  | .transferDenom id sender receiver =>
    match s.classes.get id with
    | none => .err "pnft/4:not-found"
    | some d =>
      if sender ≠ d.owner then .err "pnft/4:permission" else
      .ok { s with classes := s.classes.set id { d with owner := receiver } }
  | .mintPNFT denomId id name description uri uriHash data creator =>
    match s.classes.get denomId with
    | none => .err "pnft/6:not-found"
    | some d =>
      if d.owner ≠ creator then .err "pnft/6:permission" else
      match c.dec creator with
      | none => .err "pnft/6:address"
      | some receiver =>
        if hasNFT s d.id id then .err "pnft/6:exists" else
        let s1 := { s with nfts := s.nfts.set (nftKey d.id id) (newNft d.id id name description uri uriHash data creator now) }
        let s2 := setOwner s1 d.id id receiver
        .ok { s2 with supply := s2.supply.set d.id (wrap64 (getSupply s2 d.id + 1)) }
  | .transferPNFT denomId id sender receiver =>
    match getPNFT c s denomId id with
    | none => .err "pnft/7:not-found"
    | some p =>
      if sender ≠ p.owner then .err "pnft/7:permission" else
      match c.dec receiver with
      | none => .err "pnft/7:address"
      | some r =>
        if !hasClass s denomId then .err "pnft/7:class" else
        let old := getOwner s denomId id
        .ok (setOwner (deleteOwner s denomId id old) denomId id r)
  | .burnPNFT denomId id burner =>
    match getPNFT c s denomId id with
    | none => .err "pnft/8:not-found"
    | some p =>
      if burner ≠ p.owner then .err "pnft/8:permission" else
      if !hasClass s denomId then .err "pnft/8:class" else
      let old := getOwner s denomId id
      let s1 := { s with nfts := s.nfts.del (nftKey denomId id) }
      let s2 := deleteOwner s1 denomId id old
      .ok { s2 with supply := s2.supply.set denomId (decU64 (getSupply s2 denomId)) }

/-! ## Queries -/

def queryDenom (s : State) (id : Bytes) : Option Class := s.classes.get id

/-- `Query/Denoms`: the classes, paginated over the `0x01` prefix store. -/
def queryDenoms (s : State) (req : Paginate.PageRequest) : Outcome (List Class × Paginate.PageResponse) := do
  let (items, page) ← Paginate.paginate s.classes req
  pure (items.map (·.2), page)

/-- `Query/DenomsByOwner` (repaired, F7): every denom whose owner is the requested address. -/
def queryDenomsByOwner (s : State) (owner : Bytes) : List Class :=
  (s.classes.filter (fun e => e.2.owner = owner)).map (·.2)

/-- `Query/PNFTs`: iterate the NFT store under `classID ‖ 0x00`. -/
def queryPNFTs (c : AddrCodec) (s : State) (denomId : Bytes) : List Pnft :=
  (s.nfts.prefixView (denomId ++ [0x00])).map (fun e => toPnft c s denomId e.2.id e.2)

/-- `Query/PNFTsByDenomOwner`: iterate the owner index, look every id up in the NFT store. -/
def queryPNFTsByDenomOwner (c : AddrCodec) (s : State) (denomId owner : Bytes) : Outcome (List Pnft) :=
  match c.dec owner with
  | none => .err "address"
  | some o =>
    .ok ((s.ownerIdx.prefixView (ownerIdxPrefix o denomId)).filterMap fun e => getPNFT c s denomId e.1)

def queryPNFT (c : AddrCodec) (s : State) (denomId id : Bytes) : Option Pnft := getPNFT c s denomId id

def step (c : AddrCodec) (s : State) (op : Int × PnftMsg) : State :=
  match handle c op.1 s op.2 with
  | .ok s' => s'
  | _ => s

def run (c : AddrCodec) (s : State) (ops : List (Int × PnftMsg)) : State := ops.foldl (step c) s

end Panacea.Pnft
