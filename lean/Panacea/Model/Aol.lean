import Panacea.Model.KV
import Panacea.Model.CompKey
import Panacea.Model.Paginate
/-!
# x/aol — keeper, message server and queries

One `Map` per key prefix (`0x00` owners, `0x01` topics, `0x02` writers, `0x03` records); map keys are the
composite-key bytes *without* the prefix byte (the prefix byte is put back by `fullKeys` for store dumps,
and `Properties/C01.tables_disjoint` states that the four tables cannot collide).
Handlers follow the Go statement order.  `uint64` counters wrap like Go's.
-/
namespace Panacea.Aol
open Panacea CompKey

structure Owner where
  totalTopics : Nat := 0
  deriving Repr, DecidableEq

structure Topic where
  description : Bytes := []
  totalRecords : Nat := 0
  totalWriters : Nat := 0
  deriving Repr, DecidableEq

structure Writer where
  moniker : Bytes := []
  description : Bytes := []
  nanoTimestamp : Int := 0
  deriving Repr, DecidableEq

structure Record where
  key : Bytes := []
  value : Bytes := []
  nanoTimestamp : Int := 0
  writerAddress : Bytes := []     -- the bech32 *text* of the message, stored verbatim
  deriving Repr, DecidableEq

structure State where
  owners : Map Owner := []
  topics : Map Topic := []
  writers : Map Writer := []
  records : Map Record := []
  deriving Repr, DecidableEq

/-- `compkey.MustEncode`: panics where `Encode` errors. -/
def mustEncode (comps : List Bytes) : Outcome Bytes :=
  match encode comps with
  | some b => .ok b
  | none => .panic "MustEncode"

def ownerKey (o : Bytes) : Outcome Bytes := mustEncode [o]
def topicKey (o t : Bytes) : Outcome Bytes := mustEncode [o, t]
def writerKey (o t w : Bytes) : Outcome Bytes := mustEncode [o, t, w]
def recordKey (o t : Bytes) (n : Nat) : Outcome Bytes := mustEncode [o, t, be64 n]

inductive Msg where
  | createTopic (topicName description ownerAddress : Bytes)
  | addWriter (topicName moniker description writerAddress ownerAddress : Bytes)
  | deleteWriter (topicName writerAddress ownerAddress : Bytes)
  | addRecord (topicName key value writerAddress ownerAddress feePayerAddress : Bytes)
  deriving Repr, DecidableEq

/-- What a successful handler returns (only `AddRecord` has a payload). -/
inductive Resp where
  | empty
  | addRecord (ownerAddress topicName : Bytes) (offset : Nat)
  deriving Repr, DecidableEq

def decAddr (c : AddrCodec) (s : Bytes) (what : String) : Outcome Bytes :=
  match c.dec s with
  | some a => .ok a
  | none => .err ("invalid-address:" ++ what)


/-- Message server.  `now` is `ctx.BlockTime().UnixNano()`. -/
def handle (c : AddrCodec) (now : Int) (s : State) : Msg → Outcome (State × Resp)
  | .createTopic topicName description ownerAddress => do
    let o ← decAddr c ownerAddress "owner"
    let tk ← topicKey o topicName
    if s.topics.has tk then .err "aol/5:topic-exists" else
    let ok ← ownerKey o
    let owner := (s.owners.get ok).getD {}
    let owners := s.owners.set ok { totalTopics := wrap64 (owner.totalTopics + 1) }
    let topics := s.topics.set tk { description := description }
    pure ({ s with owners := owners, topics := topics }, .empty)
  | .addWriter topicName moniker description writerAddress ownerAddress => do
    let o ← decAddr c ownerAddress "owner"
    let w ← decAddr c writerAddress "writer"
    let tk ← topicKey o topicName
    if !s.topics.has tk then .err "aol/7:topic-not-found" else
    let wk ← writerKey o topicName w
    if s.writers.has wk then .err "aol/6:writer-exists" else
    let topic := (s.topics.get tk).getD {}
    let topics := s.topics.set tk { topic with totalWriters := wrap64 (topic.totalWriters + 1) }
    let writers := s.writers.set wk { moniker := moniker, description := description, nanoTimestamp := now }
    pure ({ s with topics := topics, writers := writers }, .empty)
  | .deleteWriter topicName writerAddress ownerAddress => do
    let o ← decAddr c ownerAddress "owner"
    let w ← decAddr c writerAddress "writer"
    let wk ← writerKey o topicName w
    if !s.writers.has wk then .err "aol/8:writer-not-found" else
    let tk ← topicKey o topicName
    let topic := (s.topics.get tk).getD {}
    let topics := s.topics.set tk { topic with totalWriters := decU64 topic.totalWriters }
    let writers := s.writers.del wk
    pure ({ s with topics := topics, writers := writers }, .empty)
  | .addRecord topicName key value writerAddress ownerAddress _feePayer => do
    let o ← decAddr c ownerAddress "owner"
    let w ← decAddr c writerAddress "writer"
    let tk ← topicKey o topicName
    if !s.topics.has tk then .err "aol/7:topic-not-found" else
    let wk ← writerKey o topicName w
    if !s.writers.has wk then .err "aol/9:writer-not-authorized" else
    let topic := (s.topics.get tk).getD {}
    let offset := topic.totalRecords
    let topics := s.topics.set tk { topic with totalRecords := wrap64 (topic.totalRecords + 1) }
    let rk ← recordKey o topicName offset
    let records := s.records.set rk
      { key := key, value := value, nanoTimestamp := now, writerAddress := writerAddress }
    pure ({ s with topics := topics, records := records }, .addRecord ownerAddress topicName offset)

/-! ## Queries (gRPC `Query` service) -/

/-- The query handlers encode the key once with `compkey.Encode` and return `InvalidArgument` when a
component is too long (fix for F3: they used to reach `MustEncode` and panic). -/
def encodeQ (comps : List Bytes) : Outcome Bytes :=
  match encode comps with
  | some b => .ok b
  | none => .err "invalid-argument"

def queryRecord (c : AddrCodec) (s : State) (ownerAddress topicName : Bytes) (offset : Nat) : Outcome Record := do
  let o ← decAddr c ownerAddress "owner"
  let rk ← encodeQ [o, topicName, be64 offset]
  match s.records.get rk with
  | some r => .ok r
  | none => .err "not-found"

def queryTopic (c : AddrCodec) (s : State) (ownerAddress topicName : Bytes) : Outcome Topic := do
  let o ← decAddr c ownerAddress "owner"
  let tk ← encodeQ [o, topicName]
  match s.topics.get tk with
  | some t => .ok t
  | none => .err "not-found"

def queryWriter (c : AddrCodec) (s : State) (ownerAddress topicName writerAddress : Bytes) : Outcome Writer := do
  let o ← decAddr c ownerAddress "owner"
  let w ← decAddr c writerAddress "writer"
  let wk ← encodeQ [o, topicName, w]
  match s.writers.get wk with
  | some x => .ok x
  | none => .err "not-found"

/-- `onResult` of the two listings, applied to the page's entries in order: decode `prefix ++ rest` into
the typed key and project a component; the first failure aborts the query. -/
def decodeListed (k : Kind) (pfx : Bytes) (idx : Nat) : List (Bytes × α) → Outcome (List Bytes)
  | [] => .ok []
  | e :: rest =>
    match decodeTyped k (pfx ++ e.1) with
    | .ok comps =>
      match comps[idx]? with
      | some x =>
        match decodeListed k pfx idx rest with
        | .ok r => .ok (x :: r)
        | .err c => .err c
        | .panic p => .panic p
      | none => .err "decode"
    | .err c => .err c
    | .panic p => .panic p

/-- `Query/Topics`: topic names of an owner, paginated. -/
def queryTopics (c : AddrCodec) (s : State) (ownerAddress : Bytes) (req : Paginate.PageRequest) :
    Outcome (List Bytes × Paginate.PageResponse) := do
  let o ← decAddr c ownerAddress "owner"
  match partialEncode [o, []] 1 with
  | none => .err "internal"
  | some pfx =>
    let (items, page) ← Paginate.paginate (s.topics.prefixView pfx) req
    let names ← decodeListed .topic pfx 1 items
    pure (names, page)

/-- `Query/Writers`: writer addresses (raw bytes; the Go code renders them as bech32) of a topic, paginated. -/
def queryWriters (c : AddrCodec) (s : State) (ownerAddress topicName : Bytes) (req : Paginate.PageRequest) :
    Outcome (List Bytes × Paginate.PageResponse) := do
  let o ← decAddr c ownerAddress "owner"
  match partialEncode [o, topicName, []] 2 with
  | none => .err "internal"
  | some pfx =>
    let (items, page) ← Paginate.paginate (s.writers.prefixView pfx) req
    let ws ← decodeListed .writer pfx 2 items
    pure (ws, page)

end Panacea.Aol

namespace Panacea.Aol
open Panacea CompKey

/-! ## Histories -/

/-- One message applied to the state: a failing (or panicking) message leaves the state as it was —
this is what baseapp's per-transaction cache branch guarantees (see `Model/App.lean`). -/
def step (c : AddrCodec) (s : State) (op : Int × Msg) : State :=
  match handle c op.1 s op.2 with
  | .ok (s', _) => s'
  | _ => s

def run (c : AddrCodec) (s : State) (ops : List (Int × Msg)) : State := ops.foldl (step c) s

/-- `total_records` of topic `(o, t)` (0 when the topic does not exist). -/
def totalRecords (s : State) (o t : Bytes) : Nat :=
  match encode [o, t] with
  | some tk => ((s.topics.get tk).map (·.totalRecords)).getD 0
  | none => 0

end Panacea.Aol
