import Panacea.Model.KV
import Panacea.Model.Outcome
/-!
# `query.Paginate` (cosmos-sdk v0.47.12 `types/query/pagination.go`)

The function is modelled on an already materialised, ascending list of `(key, value)` pairs of the
prefix store.  `uint64` arithmetic (`end := offset + limit`) wraps as in Go.  `getIterator`'s reverse
branch keeps the SDK's `itr.Next(); end = itr.Key()` with its panic on an exhausted iterator (F14).
-/
namespace Panacea.Paginate

structure PageRequest where
  key : Bytes := []          -- empty = not supplied (protobuf decodes an absent/empty key as nil)
  offset : Nat := 0
  limit : Nat := 0
  countTotal : Bool := false
  reverse : Bool := false
  deriving Repr, DecidableEq

structure PageResponse where
  nextKey : Bytes := []
  total : Nat := 0
  deriving Repr, DecidableEq

def defaultLimit : Nat := 100

/-- The iteration order `getIterator(prefixStore, start, reverse)` yields. -/
def iterFrom {V} (items : List (Bytes × V)) (start : Bytes) (reverse : Bool) : Outcome (List (Bytes × V)) :=
  if !reverse then
    .ok (if start = [] then items else items.filter (fun e => !Bytes.lt e.1 start))
  else if start = [] then .ok items.reverse
  else
    match items.filter (fun e => !Bytes.lt e.1 start) with
    | [] => .ok items.reverse                         -- itr invalid: end stays nil
    | [_] => .panic "getIterator: itr.Key() on exhausted iterator"
    | _ :: e2 :: _ => .ok (items.filter (fun e => Bytes.lt e.1 e2.1)).reverse

/-- key of the `i`-th entry, `[]` (no `next_key`) when there is none -/
def keyAt {V} (l : List (Bytes × V)) (i : Nat) : Bytes := match l[i]? with | some e => e.1 | none => []

/-- The key branch of `Paginate` (`len(key) != 0`): `limit` entries from the iterator, `next_key` = key of
the following one. -/
def pageByKey {V} (items : List (Bytes × V)) (key : Bytes) (reverse : Bool) (limit : Nat) :
    Outcome (List (Bytes × V) × PageResponse) :=
  match iterFrom items key reverse with
  | .ok it => .ok (it.take limit, { nextKey := keyAt it limit, total := 0 })
  | .err c => .err c
  | .panic s => .panic s

/-- The offset branch: 1-based `count`; entries with `offset < count ≤ end` where `end := offset + limit`
in `uint64`; `next_key` is the entry with `count = end + 1` if the loop reaches it. -/
def pageByOffset {V} (items : List (Bytes × V)) (offset limit : Nat) (countTotal reverse : Bool) :
    Outcome (List (Bytes × V) × PageResponse) :=
  match iterFrom items [] reverse with
  | .ok it =>
    let endp := wrap64 (offset + limit)
    let res := (it.drop offset).take (endp - offset)
    let next : Bytes :=
      if endp + 1 < 18446744073709551616 ∧ offset < endp + 1 then
        keyAt it endp
      else []
    .ok (res, { nextKey := next, total := if countTotal then it.length else 0 })
  | .err c => .err c
  | .panic s => .panic s

/-- Result of `Paginate`: the entries handed to `onResult`, in order, and the page response. -/
def paginate {V} (items : List (Bytes × V)) (req : PageRequest) : Outcome (List (Bytes × V) × PageResponse) :=
  if req.offset > 0 ∧ req.key ≠ [] then .err "offset-and-key" else
  let limit := if req.limit = 0 then defaultLimit else req.limit
  let countTotal := if req.limit = 0 then true else req.countTotal
  if req.key ≠ [] then pageByKey items req.key req.reverse limit
  else pageByOffset items req.offset limit countTotal req.reverse

end Panacea.Paginate
