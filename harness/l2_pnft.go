package main

// Stream "pnft": the real x/pnft message server and query server (on top of the SDK x/nft keeper), on a cache
// branch of a real app, against the Lean model `Pnft.handle` / `Pnft.query*`, with raw store dumps.

import (
	"encoding/json"
	"fmt"
	"math/rand"
	"strings"
	"time"

	sdk "github.com/cosmos/cosmos-sdk/types"
	"github.com/cosmos/cosmos-sdk/types/query"
	"github.com/cosmos/cosmos-sdk/x/nft"
	pnftkeeper "github.com/medibloc/panacea-core/v2/x/pnft/keeper"
	pnfttypes "github.com/medibloc/panacea-core/v2/x/pnft/types"
)

type pnftEnv struct {
	c    *Chain
	ctx  sdk.Context
	ms   pnfttypes.MsgServer
	s    *Stream
	seen map[string]bool
}

func (e *pnftEnv) addr(text string) string {
	if !e.seen[text] {
		e.seen[text] = true
		emitAddr(e.s, text)
	}
	return hxs(text)
}

// begin / abort a discarded branch
func (e *pnftEnv) begin() func() {
	saved := e.ctx
	e.ctx, _ = e.ctx.CacheContext()
	inBranch = true
	e.s.Emit("pnft.begin", "-")
	return func() {
		e.ctx = saved.WithBlockTime(e.ctx.BlockTime())
		inBranch = false
		e.s.Emit("pnft.abort", "-")
	}
}

func (e *pnftEnv) reset() {
	e.ctx, _ = e.c.DeliverCtx().CacheContext()
	e.s.Emit("reset", "-")
}

func (e *pnftEnv) now(ns int64) {
	e.ctx = e.ctx.WithBlockTime(time.Unix(0, ns).UTC())
	e.s.Emit(fmt.Sprintf("now %d", ns), "-")
}

func (e *pnftEnv) msg(m sdk.Msg) bool {
	var op string
	var run func(g sdk.Context) error
	switch m := m.(type) {
	case *pnfttypes.MsgCreateDenomRequest:
		op = fmt.Sprintf("pnft.msg createDenom %s %s %s %s %s %s %s %s", hxs(m.Id), hxs(m.Name), hxs(m.Symbol), hxs(m.Description), hxs(m.Uri), hxs(m.UriHash), hxs(m.Data), e.addr(m.Creator))
		run = func(g sdk.Context) error { _, err := e.ms.CreateDenom(sdk.WrapSDKContext(g), m); return err }
	case *pnfttypes.MsgUpdateDenomRequest:
		op = fmt.Sprintf("pnft.msg updateDenom %s %s %s %s %s %s %s %s", hxs(m.Id), hxs(m.Name), hxs(m.Symbol), hxs(m.Description), hxs(m.Uri), hxs(m.UriHash), hxs(m.Data), e.addr(m.Updater))
		run = func(g sdk.Context) error { _, err := e.ms.UpdateDenom(sdk.WrapSDKContext(g), m); return err }
	case *pnfttypes.MsgDeleteDenomRequest:
		op = fmt.Sprintf("pnft.msg deleteDenom %s %s", hxs(m.Id), e.addr(m.Remover))
		run = func(g sdk.Context) error { _, err := e.ms.DeleteDenom(sdk.WrapSDKContext(g), m); return err }
	case *pnfttypes.MsgTransferDenomRequest:
		op = fmt.Sprintf("pnft.msg transferDenom %s %s %s", hxs(m.Id), e.addr(m.Sender), e.addr(m.Receiver))
		run = func(g sdk.Context) error { _, err := e.ms.TransferDenom(sdk.WrapSDKContext(g), m); return err }
	case *pnfttypes.MsgMintPNFTRequest:
		op = fmt.Sprintf("pnft.msg mintPNFT %s %s %s %s %s %s %s %s", hxs(m.DenomId), hxs(m.Id), hxs(m.Name), hxs(m.Description), hxs(m.Uri), hxs(m.UriHash), hxs(m.Data), e.addr(m.Creator))
		run = func(g sdk.Context) error { _, err := e.ms.MintPNFT(sdk.WrapSDKContext(g), m); return err }
	case *pnfttypes.MsgTransferPNFTRequest:
		op = fmt.Sprintf("pnft.msg transferPNFT %s %s %s %s", hxs(m.DenomId), hxs(m.Id), e.addr(m.Sender), e.addr(m.Receiver))
		run = func(g sdk.Context) error { _, err := e.ms.TransferPNFT(sdk.WrapSDKContext(g), m); return err }
	case *pnfttypes.MsgBurnPNFTRequest:
		op = fmt.Sprintf("pnft.msg burnPNFT %s %s %s", hxs(m.DenomId), hxs(m.Id), e.addr(m.Burner))
		run = func(g sdk.Context) error { _, err := e.ms.BurnPNFT(sdk.WrapSDKContext(g), m); return err }
	default:
		panic("pnft msg")
	}
	ans := guard(func() string {
		sub, write := e.ctx.CacheContext()
		if err := run(sub); err != nil {
			return errAns(err)
		}
		write()
		return "ok"
	})
	e.s.Emit(op, ans)
	return ans == "ok" && !inBranch
}

func classTok(d *pnfttypes.Denom) string {
	return strings.Join([]string{hxs(d.Id), hxs(d.Name), hxs(d.Symbol), hxs(d.Description), hxs(d.Uri), hxs(d.UriHash), hxs(d.Owner), hxs(d.Data)}, ",")
}

func pnftTok(p *pnfttypes.Pnft) string {
	return strings.Join([]string{hxs(p.DenomId), hxs(p.Id), hxs(p.Name), hxs(p.Description), hxs(p.Uri), hxs(p.UriHash), hxs(p.Data), hxs(p.Creator), hxs(p.Owner), fmt.Sprint(p.CreatedAt.UnixNano())}, ",")
}

func joinToks(ts []string) string {
	if len(ts) == 0 {
		return "~"
	}
	return strings.Join(ts, "|")
}

func (e *pnftEnv) q(op string, f func(g sdk.Context) (string, error)) {
	e.s.Emit(op, guard(func() string {
		r, err := f(e.ctx)
		if err != nil {
			return errAns(err)
		}
		return "ok " + r
	}))
}

func (e *pnftEnv) qDenom(id string) {
	k := e.c.App.PnftKeeper
	e.q("pnft.q denom "+hxs(id), func(g sdk.Context) (string, error) {
		r, err := k.Denom(sdk.WrapSDKContext(g), &pnfttypes.QueryDenomRequest{Id: id})
		if err != nil {
			return "", err
		}
		return classTok(r.Denom), nil
	})
}

func (e *pnftEnv) qDenoms(p *query.PageRequest) {
	k := e.c.App.PnftKeeper
	e.q("pnft.q denoms "+pageStr(p), func(g sdk.Context) (string, error) {
		r, err := k.Denoms(sdk.WrapSDKContext(g), &pnfttypes.QueryDenomsRequest{Pagination: p})
		if err != nil {
			return "", err
		}
		var ts []string
		for _, d := range r.Denoms {
			ts = append(ts, classTok(d))
		}
		return "items=" + joinToks(ts) + " " + pageAns(r.Pagination), nil
	})
}

func (e *pnftEnv) qDenomsByOwner(owner string) {
	k := e.c.App.PnftKeeper
	e.q("pnft.q denomsByOwner "+e.addr(owner), func(g sdk.Context) (string, error) {
		r, err := k.DenomsByOwner(sdk.WrapSDKContext(g), &pnfttypes.QueryDenomsByOwnerRequest{Owner: owner})
		if err != nil {
			return "", err
		}
		var ts []string
		for _, d := range r.Denoms {
			ts = append(ts, classTok(d))
		}
		return "items=" + joinToks(ts), nil
	})
}

func (e *pnftEnv) qPNFTs(denom string) {
	k := e.c.App.PnftKeeper
	e.q("pnft.q pnfts "+hxs(denom), func(g sdk.Context) (string, error) {
		r, err := k.PNFTs(sdk.WrapSDKContext(g), &pnfttypes.QueryPNFTsRequest{DenomId: denom})
		if err != nil {
			return "", err
		}
		var ts []string
		for _, d := range r.Pnfts {
			ts = append(ts, pnftTok(d))
		}
		return "items=" + joinToks(ts), nil
	})
}

func (e *pnftEnv) qPNFTsBy(denom, owner string) {
	k := e.c.App.PnftKeeper
	e.q("pnft.q pnftsBy "+hxs(denom)+" "+e.addr(owner), func(g sdk.Context) (string, error) {
		r, err := k.PNFTsByDenomOwner(sdk.WrapSDKContext(g), &pnfttypes.QueryPNFTsByDenomOwnerRequest{DenomId: denom, Owner: owner})
		if err != nil {
			return "", err
		}
		var ts []string
		for _, d := range r.Pnfts {
			ts = append(ts, pnftTok(d))
		}
		return "items=" + joinToks(ts), nil
	})
}

func (e *pnftEnv) qPNFT(denom, id string) {
	k := e.c.App.PnftKeeper
	e.q("pnft.q pnft "+hxs(denom)+" "+hxs(id), func(g sdk.Context) (string, error) {
		r, err := k.PNFT(sdk.WrapSDKContext(g), &pnfttypes.QueryPNFTRequest{DenomId: denom, Id: id})
		if err != nil {
			return "", err
		}
		return pnftTok(r.Pnft), nil
	})
}

// dump prints the raw pnft store: full keys, values decoded with the SDK/pnft codecs.
func (e *pnftEnv) dump() {
	e.s.Emit("pnft.dump", guard(func() string { return "ok " + pnftDump(e.c, e.ctx) }))
}

func pnftDump(c *Chain, ctx sdk.Context) string {
	store := ctx.KVStore(c.App.GetKey(pnfttypes.StoreKey))
	it := store.Iterator(nil, nil)
	defer it.Close()
	cdc := c.App.AppCodec()
	var parts []string
	for ; it.Valid(); it.Next() {
		k, v := it.Key(), it.Value()
		var val string
		switch k[0] {
		case 0x01:
			var cl nft.Class
			cdc.MustUnmarshal(v, &cl)
			d, err := pnfttypes.NewDenomFromClass(cdc, &cl)
			if err != nil {
				val = "?class"
			} else {
				val = classTok(d)
			}
		case 0x02:
			var n nft.NFT
			cdc.MustUnmarshal(v, &n)
			var meta pnfttypes.PNFTMeta
			if err := cdc.Unmarshal(n.Data.GetValue(), &meta); err != nil {
				val = "?nft"
			} else {
				val = strings.Join([]string{hxs(n.ClassId), hxs(n.Id), hxs(n.Uri), hxs(n.UriHash), hxs(meta.Name), hxs(meta.Description), hxs(meta.Creator), fmt.Sprint(meta.CreatedAt.UnixNano()), hxs(meta.Data)}, ",")
			}
		case 0x05:
			val = fmt.Sprint(sdk.BigEndianToUint64(v))
		default:
			val = hx(v)
		}
		parts = append(parts, hx(k)+"="+val)
	}
	if len(parts) == 0 {
		return "~"
	}
	return strings.Join(parts, ";")
}

// monC12GenesisNul evaluates C12's "distinct (denom, token) pairs never alias" on a chain started from a hand-written
// genesis whose identifiers contain the x/nft key delimiter 0x00: the module's genesis validation has to refuse it.
func monC12GenesisNul(s *Stream, c0 *Chain) {
	s.Emit("mon.c12.genesis-nul", guard(func() string {
		alice := sdk.AccAddress([]byte("pnft-genesis-alice--")).String()
		ts := time.Unix(1, 0).UTC()
		gs := pnfttypes.GenesisState{
			Denoms: []*pnfttypes.Denom{{Id: "a", Name: "n", Symbol: "s", Owner: alice}, {Id: "a\x00b", Name: "n2", Symbol: "s2", Owner: alice}},
			Pnfts:  []*pnfttypes.Pnft{{DenomId: "a", Id: "b\x00c", Name: "tok", Creator: alice, Owner: alice, CreatedAt: ts}},
		}
		if err := gs.ValidateBasic(); err != nil {
			return "pass #rejected-by-genesis-validation"
		}
		bz, err := c0.App.AppCodec().MarshalJSON(&gs)
		if err != nil {
			return "pass #not-encodable"
		}
		c2, err := NewChain(memDB(), tmpHome(), nil, 0, map[string]json.RawMessage{pnfttypes.ModuleName: bz})
		if err != nil {
			return "pass #rejected-by-init-genesis"
		}
		c2.Begin(c2.Time)
		g := sdk.WrapSDKContext(c2.DeliverCtx())
		r, err := c2.App.PnftKeeper.PNFT(g, &pnfttypes.QueryPNFTRequest{DenomId: "a\x00b", Id: "c"})
		if err == nil && r.Pnft != nil && r.Pnft.DenomId != "a\x00b" {
			return "fail #pair-(a\\0b,c)-answers-with-the-token-of-pair-(a,b\\0c)"
		}
		l, err := c2.App.PnftKeeper.PNFTs(g, &pnfttypes.QueryPNFTsRequest{DenomId: "a\x00b"})
		if err == nil {
			for _, t := range l.Pnfts {
				if t.DenomId != "a\x00b" {
					return "fail #listing-of-a-denom-returns-a-token-of-another-denom"
				}
			}
		}
		return "pass"
	}))
}

// monC12 evaluates parts of C12 directly on the implementation.
func (e *pnftEnv) monC12(denoms []string, owners []string) {
	k := e.c.App.PnftKeeper
	dl := make([][]byte, len(denoms))
	for i, d := range denoms {
		dl[i] = []byte(d)
	}
	ol := make([][]byte, len(owners))
	for i, o := range owners {
		ol[i] = []byte(o)
		e.addr(o)
	}
	e.s.Emit("mon.c12 "+hxList(dl)+" "+hxList(ol), guard(func() string {
		g := sdk.WrapSDKContext(e.ctx)
		// every listed token belongs to an existing denom; single-item view agrees with the listing
		for _, d := range denoms {
			r, err := k.PNFTs(g, &pnfttypes.QueryPNFTsRequest{DenomId: d})
			if err != nil {
				continue
			}
			_, derr := k.Denom(g, &pnfttypes.QueryDenomRequest{Id: d})
			if len(r.Pnfts) > 0 && derr != nil {
				return "fail #orphan-tokens " + hxs(d)
			}
			for _, p := range r.Pnfts {
				if p.DenomId != d {
					return "fail #foreign-token-listed " + hxs(d)
				}
				one, err := k.PNFT(g, &pnfttypes.QueryPNFTRequest{DenomId: d, Id: p.Id})
				if err != nil || pnftTok(one.Pnft) != pnftTok(p) {
					return "fail #listing-vs-single " + hxs(d)
				}
			}
		}
		// denoms by owner returns exactly the denoms owned
		for _, o := range owners {
			r, err := k.DenomsByOwner(g, &pnfttypes.QueryDenomsByOwnerRequest{Owner: o})
			if err != nil {
				continue
			}
			cnt := map[string]int{}
			for _, d := range r.Denoms {
				if d.Owner != o {
					return "fail #denomsByOwner-foreign"
				}
				cnt[d.Id]++
			}
			for _, d := range denoms {
				one, err := k.Denom(g, &pnfttypes.QueryDenomRequest{Id: d})
				if err != nil || one.Denom == nil {
					continue
				}
				if one.Denom.Owner == o && cnt[d] != 1 {
					return fmt.Sprintf("fail #denomsByOwner-misses-or-repeats %s (%d times)", hxs(d), cnt[d])
				}
			}
		}
		return "pass"
	}))
}

type pnftPools struct {
	addrs  []string
	denoms []string
	ids    []string
}

func pnftHistory(e *pnftEnv, rng *rand.Rand, p pnftPools, steps int) {
	e.reset()
	inBranch = false
	now := int64(1700000000000000000)
	e.now(now)
	pa := func() string {
		if rng.Intn(30) == 0 {
			return []string{"", "bad", strings.ToUpper(p.addrs[0])}[rng.Intn(3)]
		}
		return p.addrs[rng.Intn(len(p.addrs))]
	}
	pd := func() string { return p.denoms[rng.Intn(len(p.denoms))] }
	pi := func() string { return p.ids[rng.Intn(len(p.ids))] }
	opt := func() string { return []string{"", "", "x", "yy"}[rng.Intn(4)] }
	owner := map[string]string{} // believed denom owner (aiming only)
	type tk struct{ d, i string }
	tokOwner := map[tk]string{}
	tokCreator := map[tk]string{}
	pickTok := func() (tk, bool) {
		if len(tokOwner) == 0 {
			return tk{}, false
		}
		keys := make([]string, 0, len(tokOwner))
		for k := range tokOwner {
			keys = append(keys, k.d+"\x00\x00"+k.i)
		}
		sortStrings(keys)
		parts := strings.SplitN(keys[rng.Intn(len(keys))], "\x00\x00", 2)
		return tk{parts[0], parts[1]}, true
	}
	other := func(not string) string {
		for tries := 0; tries < 5; tries++ {
			a := p.addrs[rng.Intn(len(p.addrs))]
			if a != not {
				return a
			}
		}
		return p.addrs[0]
	}
	ghost := map[string]string{} // denom -> receiver of a hand-over that happened only on a discarded branch
	var abort func()
	left := 0
	for i := 0; i < steps; i++ {
		if rng.Intn(5) == 0 {
			now += int64(1 + rng.Intn(5000))
			e.now(now)
		}
		// now and then a few messages run on a branch that is then discarded
		if abort != nil {
			if left == 0 {
				abort()
				abort = nil
			} else {
				left--
			}
		} else if rng.Intn(8) == 0 {
			abort = e.begin()
			left = 1 + rng.Intn(3)
		}
		aim := rng.Intn(10) < 8
		if abort != nil && rng.Intn(2) == 0 && len(owner) > 0 {
			// aimed: hand a denom over on the discarded branch; later the intended receiver tries to use it
			ds := make([]string, 0, len(owner))
			for d := range owner {
				ds = append(ds, d)
			}
			sortStrings(ds)
			d := ds[rng.Intn(len(ds))]
			b := other(owner[d])
			e.msg(&pnfttypes.MsgTransferDenomRequest{Id: d, Sender: owner[d], Receiver: b})
			ghost[d] = b
			continue
		}
		if abort == nil && len(ghost) > 0 && rng.Intn(3) == 0 {
			ds := make([]string, 0, len(ghost))
			for d := range ghost {
				ds = append(ds, d)
			}
			sortStrings(ds)
			d := ds[rng.Intn(len(ds))]
			switch rng.Intn(3) {
			case 0:
				e.msg(&pnfttypes.MsgMintPNFTRequest{DenomId: d, Id: pi(), Name: "t", Creator: ghost[d]})
			case 1:
				e.msg(&pnfttypes.MsgUpdateDenomRequest{Id: d, Name: "stolen", Updater: ghost[d]})
			default:
				e.msg(&pnfttypes.MsgTransferDenomRequest{Id: d, Sender: ghost[d], Receiver: ghost[d]})
			}
			delete(ghost, d)
			continue
		}
		switch r := rng.Intn(26); {
		case r < 3:
			d, a := pd(), pa()
			if e.msg(&pnfttypes.MsgCreateDenomRequest{Id: d, Name: []string{"n", "n", "n", ""}[rng.Intn(4)], Symbol: "s", Description: opt(), Uri: opt(), UriHash: opt(), Data: opt(), Creator: a}) {
				owner[d] = a
			}
		case r < 5:
			d := pd()
			a := pa()
			if o, ok := owner[d]; ok && aim {
				a = o
			}
			e.msg(&pnfttypes.MsgUpdateDenomRequest{Id: d, Name: opt(), Symbol: opt(), Description: opt(), Uri: opt(), UriHash: opt(), Data: opt(), Updater: a})
		case r < 7:
			d := pd()
			a := pa()
			if o, ok := owner[d]; ok && aim {
				a = o
			}
			if e.msg(&pnfttypes.MsgDeleteDenomRequest{Id: d, Remover: a}) {
				delete(owner, d)
			}
		case r < 9:
			d := pd()
			a, b := pa(), pa()
			if o, ok := owner[d]; ok && aim {
				a = o
			}
			if e.msg(&pnfttypes.MsgTransferDenomRequest{Id: d, Sender: a, Receiver: b}) {
				owner[d] = b
			}
		case r < 14:
			d := pd()
			a := pa()
			if o, ok := owner[d]; ok && aim {
				a = o
			}
			id := pi()
			if e.msg(&pnfttypes.MsgMintPNFTRequest{DenomId: d, Id: id, Name: []string{"t", "t", "t", ""}[rng.Intn(4)], Description: opt(), Uri: opt(), UriHash: opt(), Data: opt(), Creator: a}) {
				tokOwner[tk{d, id}] = a
				tokCreator[tk{d, id}] = a
			}
		case r < 18:
			k, ok := pickTok()
			if !ok || !aim {
				k = tk{pd(), pi()}
			}
			snd := pa()
			if o, ok2 := tokOwner[k]; ok2 && rng.Intn(10) < 8 {
				snd = o
			}
			rcv := other(snd)
			if rng.Intn(15) == 0 {
				rcv = pa()
			}
			if e.msg(&pnfttypes.MsgTransferPNFTRequest{DenomId: k.d, Id: k.i, Sender: snd, Receiver: rcv}) {
				tokOwner[k] = rcv
			}
		case r < 21:
			k, ok := pickTok()
			if !ok || !aim {
				k = tk{pd(), pi()}
			}
			b := pa()
			switch rng.Intn(4) {
			case 0, 1:
				if o, ok2 := tokOwner[k]; ok2 {
					b = o
				}
			case 2: // the creator, who may no longer be the owner
				if c, ok2 := tokCreator[k]; ok2 {
					b = c
				}
			}
			if e.msg(&pnfttypes.MsgBurnPNFTRequest{DenomId: k.d, Id: k.i, Burner: b}) {
				delete(tokOwner, k)
				delete(tokCreator, k)
			}
		case r == 21:
			e.qDenom(pd())
		case r == 22:
			e.qDenoms(genPage(rng, nil))
		case r == 23:
			e.qDenomsByOwner(pa())
		case r == 24:
			e.qPNFTs(pd())
			e.qPNFTsBy(pd(), pa())
		default:
			e.qPNFT(pd(), pi())
		}
	}
	if abort != nil {
		abort()
	}
	for _, d := range p.denoms {
		e.qDenom(d)
		e.qPNFTs(d)
		for _, a := range p.addrs[:2] {
			e.qPNFTsBy(d, a)
		}
		// the other admissible spelling of the same account: the items must still carry the canonical owner text
		e.qPNFTsBy(d, strings.ToUpper(p.addrs[0]))
	}
	for _, a := range p.addrs {
		e.qDenomsByOwner(a)
	}
	e.qDenomsByOwner(strings.ToUpper(p.addrs[1]))
	e.qDenoms(&query.PageRequest{Limit: 2, CountTotal: true})
	e.dump()
	e.monC12(p.denoms, p.addrs)
}

func newPnftEnv(s *Stream) *pnftEnv {
	c, err := NewChain(memDB(), tmpHome(), nil, 0, nil)
	if err != nil {
		panic(err)
	}
	c.Begin(c.Time)
	return &pnftEnv{c: c, ms: pnftkeeper.NewMsgServerImpl(&c.App.PnftKeeper), s: s, seen: map[string]bool{}}
}

func init() {
	streams["pnft"] = func(dir string, rng *rand.Rand, n int, tier string) {
		s := NewStream(dir, "pnft")
		defer s.Close(dir, "pnft")
		e := newPnftEnv(s)
		mk := func(b string) string { return sdk.AccAddress([]byte(b)).String() }
		p := pnftPools{
			addrs:  []string{mk("owner-aaaaaaaaaaaaaa1"), mk("owner-bbbbbbbbbbbbbb2"), mk("c")},
			denoms: []string{"a", "ab", "a\x00b", "d1", "a/b"},
			ids:    []string{"1", "2", "b\x00c", "c", "x"},
		}
		monC12GenesisNul(s, e.c)
		for h := 0; h < n; h++ {
			pnftHistory(e, rng, p, 25+rng.Intn(40))
		}
		// more classes than one default page of the SDK's paginated listings (100): every listing that is built
		// on a paginated call without following next_key silently stops there
		e.reset()
		e.now(1700000000000000000)
		var many []string
		for i := 0; i < 104; i++ {
			id := fmt.Sprintf("m%03d", i)
			many = append(many, id)
			e.msg(&pnfttypes.MsgCreateDenomRequest{Id: id, Name: "n", Symbol: "s", Creator: p.addrs[i%2]})
		}
		e.msg(&pnfttypes.MsgMintPNFTRequest{DenomId: "m103", Id: "1", Name: "t", Creator: p.addrs[1]})
		e.msg(&pnfttypes.MsgTransferDenomRequest{Id: "m102", Sender: p.addrs[0], Receiver: p.addrs[2]})
		for _, a := range p.addrs {
			e.qDenomsByOwner(a)
		}
		e.monC12(many[98:], p.addrs)
	}
}
