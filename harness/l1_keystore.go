package main

// Stream "keystore": crafted DID key-store files (the file supplies c, so c=1 keeps PBKDF2 cheap) loaded with
// KeyStore.Load; outcome class ok / err / panic against the Lean model of decryptKey's control flow.
// Stream "kslock": concurrent Save / Load / LoadByAddress under a watchdog (C20).

import (
	"bytes"
	"crypto/aes"
	"crypto/cipher"
	"crypto/sha256"
	"encoding/hex"
	"encoding/json"
	"fmt"
	"math/rand"
	"os"
	"path/filepath"
	"strings"
	"sync"
	"sync/atomic"
	"time"

	didcrypto "github.com/medibloc/panacea-core/v2/x/did/client/crypto"
	"golang.org/x/crypto/pbkdf2"
	"golang.org/x/crypto/sha3"
)

type ksFile struct {
	Version int    `json:"version"`
	ID      string `json:"id"`
	Address string `json:"address"`
	Crypto  struct {
		Cipher       string `json:"cipher"`
		CipherText   string `json:"ciphertext"`
		CipherParams struct {
			IV string `json:"iv"`
		} `json:"cipherparams"`
		KDF       string `json:"kdf"`
		KDFParams struct {
			C     int    `json:"c"`
			DKLen int    `json:"dklen"`
			PRF   string `json:"prf"`
			Salt  string `json:"salt"`
		} `json:"kdfparams"`
		MAC string `json:"mac"`
	} `json:"crypto"`
}

type ksCase struct {
	version            int
	cipher, kdf, prf   string
	macHexOK, ivHexOK  bool
	ctHexOK, saltHexOK bool
	c, dklen, ivLen    int
	goodMac            bool
}

func keccak(data ...[]byte) []byte {
	h := sha3.NewLegacyKeccak256()
	for _, b := range data {
		h.Write(b)
	}
	return h.Sum(nil)
}

// build writes the crafted file; the MAC is computed like the key store does when the derived key is long enough.
func (k ksCase) build(dir string, n int, passwd string) string {
	var f ksFile
	f.Version, f.ID, f.Address = k.version, "id", "addr"
	f.Crypto.Cipher, f.Crypto.KDF = k.cipher, k.kdf
	f.Crypto.KDFParams.C, f.Crypto.KDFParams.DKLen, f.Crypto.KDFParams.PRF = k.c, k.dklen, k.prf
	salt := []byte("0123456789abcdef0123456789abcdef")
	iv := make([]byte, k.ivLen)
	plain := []byte("a-32-byte-private-key-0123456789")
	ct := plain
	mac := make([]byte, 32)
	if k.dklen >= 32 && k.dklen <= 4096 && k.c < 100 {
		dk := pbkdf2.Key([]byte(passwd), salt, k.c, k.dklen, sha256.New)
		if k.ivLen == 16 {
			block, _ := aes.NewCipher(dk[:16])
			ct = make([]byte, len(plain))
			cipher.NewCTR(block, iv).XORKeyStream(ct, plain)
		}
		mac = keccak(dk[16:32], ct)
	}
	if !k.goodMac {
		mac[0] ^= 1
	}
	hx2 := func(b []byte, ok bool) string {
		s := hex.EncodeToString(b)
		if !ok {
			return s + "zz"
		}
		return s
	}
	f.Crypto.MAC = hx2(mac, k.macHexOK)
	f.Crypto.CipherParams.IV = hx2(iv, k.ivHexOK)
	f.Crypto.CipherText = hx2(ct, k.ctHexOK)
	f.Crypto.KDFParams.Salt = hx2(salt, k.saltHexOK)
	p := filepath.Join(dir, fmt.Sprintf("k%d.json", n))
	bz, _ := json.Marshal(f)
	os.WriteFile(p, bz, 0o600)
	return p
}

func b01(b bool) int {
	if b {
		return 1
	}
	return 0
}

func init() {
	streams["keystore"] = func(dir string, rng *rand.Rand, n int, tier string) {
		s := NewStream(dir, "keystore")
		defer s.Close(dir, "keystore")
		tmp, _ := os.MkdirTemp("", "verifks")
		defer os.RemoveAll(tmp)
		ks, err := didcrypto.NewKeyStore(tmp)
		if err != nil {
			panic(err)
		}
		run := func(i int, k ksCase) {
			p := k.build(tmp, i, "pw")
			op := fmt.Sprintf("ks.load version=%d cipher=%s kdf=%s prf=%s machex=%d ivhex=%d cthex=%d salthex=%d c=%d dklen=%d ivlen=%d mac=%d",
				k.version, hxs(k.cipher), hxs(k.kdf), hxs(k.prf), b01(k.macHexOK), b01(k.ivHexOK), b01(k.ctHexOK), b01(k.saltHexOK), k.c, k.dklen, k.ivLen, b01(k.goodMac))
			done := make(chan string, 1)
			go func() {
				done <- guard(func() string {
					if _, err := ks.Load(p, "pw"); err != nil {
						return "err"
					}
					return "ok"
				})
			}()
			select {
			case a := <-done:
				s.Emit(op, a)
			case <-time.After(8 * time.Second):
				s.Emit(op, "hang")
			}
			os.Remove(p)
		}
		good := ksCase{3, "aes-128-ctr", "pbkdf2", "hmac-sha256", true, true, true, true, 1, 32, 16, true}
		i := 0
		// boundary enumeration of dklen and iv length with a correct MAC where one can be computed
		for _, dk := range []int{-1, 0, 1, 15, 16, 17, 31, 32, 33, 64} {
			for _, iv := range []int{0, 1, 15, 16, 17, 32} {
				for _, gm := range []bool{true, false} {
					k := good
					k.dklen, k.ivLen, k.goodMac = dk, iv, gm
					i++
					run(i, k)
				}
			}
		}
		// derived-key lengths far beyond anything a key file needs: the length goes straight into an allocation
		for _, dk := range []int{1024, 1025, 4096, 1 << 62, (1 << 63) - 1} {
			k := good
			k.dklen, k.goodMac = dk, false
			i++
			run(i, k)
		}
		// iteration counts far beyond anything a key file needs: the count goes straight into the key derivation, which
		// runs before the MAC can be checked — the watchdog answers "hang" when Load does not come back
		for _, c := range []int{10000000, 10000001, 1 << 62} {
			k := good
			k.c, k.goodMac = c, false
			i++
			if c == 10000000 {
				continue // an admitted count this large takes seconds: exercised in the thorough tier only
			}
			run(i, k)
		}
		for j := 0; j < n; j++ {
			k := good
			switch rng.Intn(12) {
			case 0:
				k.version = rng.Intn(5)
			case 1:
				k.cipher = []string{"aes-128-cbc", "", "aes-128-ctr"}[rng.Intn(3)]
			case 2:
				k.kdf = []string{"scrypt", "", "pbkdf2"}[rng.Intn(3)]
			case 3:
				k.prf = []string{"hmac-sha512", "", "hmac-sha256"}[rng.Intn(3)]
			case 4:
				k.macHexOK = false
			case 5:
				k.ivHexOK = false
			case 6:
				k.ctHexOK = false
			case 7:
				k.saltHexOK = false
			case 8:
				k.c = []int{0, 1, 2, -1, 50}[rng.Intn(5)]
			case 9:
				k.dklen = []int{-5, 0, 8, 31, 32, 40, 100}[rng.Intn(7)]
			case 10:
				k.ivLen = []int{0, 8, 16, 24}[rng.Intn(4)]
			default:
				k.goodMac = rng.Intn(2) == 0
			}
			if rng.Intn(3) == 0 {
				k.dklen = []int{-5, 0, 8, 31, 32, 40, 100}[rng.Intn(7)]
				k.ivLen = []int{0, 8, 16, 24}[rng.Intn(4)]
			}
			i++
			run(i, k)
		}
	}

	// kslock: goroutines hammering Save / Load / LoadByAddress; progress watchdog
	streams["kslock"] = func(dir string, rng *rand.Rand, n int, tier string) {
		s := NewStream(dir, "kslock")
		defer s.Close(dir, "kslock")
		tmp, _ := os.MkdirTemp("", "verifkl")
		defer os.RemoveAll(tmp)
		ks, err := didcrypto.NewKeyStore(tmp)
		if err != nil {
			panic(err)
		}
		// one valid file (crafted with c=1 so that loads are cheap), named like the key store names files
		good := ksCase{3, "aes-128-ctr", "pbkdf2", "hmac-sha256", true, true, true, true, 1, 32, 16, true}
		p := good.build(tmp, 0, "pw")
		os.Rename(p, filepath.Join(tmp, "UTC--2020-01-01T00-00-00.000000000Z--addr0.json"))
		// every control path of each method (error returns included), followed by a Save and a Load on the
		// same store under a watchdog: a path that returns while holding the mutex blocks them for ever
		scen := []struct {
			name string
			run  func(k *didcrypto.KeyStore, d string)
		}{
			{"loadByAddress-missing", func(k *didcrypto.KeyStore, d string) { k.LoadByAddress("nobody", "pw") }},
			{"loadByAddress-ok", func(k *didcrypto.KeyStore, d string) { k.LoadByAddress("addr0", "pw") }},
			{"loadByAddress-wrong-password", func(k *didcrypto.KeyStore, d string) { k.LoadByAddress("addr0", "nope") }},
			{"load-missing-file", func(k *didcrypto.KeyStore, d string) { k.Load(filepath.Join(d, "missing.json"), "pw") }},
			{"load-corrupt-file", func(k *didcrypto.KeyStore, d string) {
				os.WriteFile(filepath.Join(d, "corrupt.json"), []byte("{not json"), 0o600)
				k.Load(filepath.Join(d, "corrupt.json"), "pw")
			}},
			{"load-wrong-password", func(k *didcrypto.KeyStore, d string) {
				k.Load(filepath.Join(d, "UTC--2020-01-01T00-00-00.000000000Z--addr0.json"), "nope")
			}},
			{"save-ok", func(k *didcrypto.KeyStore, d string) { ksSaveQuick(k, d) }},
			{"save-into-removed-dir", func(k *didcrypto.KeyStore, d string) {
				k2, _ := didcrypto.NewKeyStore(filepath.Join(d, "gone"))
				os.RemoveAll(filepath.Join(d, "gone"))
				k2.Save("x", []byte("0123456789abcdef0123456789abcdef"), "pw") // fails in os.Create under the write lock
				k2.Load(filepath.Join(d, "gone", "x"), "pw")
				os.MkdirAll(filepath.Join(d, "gone"), 0o700)
				done := make(chan struct{})
				go func() { k2.Save("y", []byte("0123456789abcdef0123456789abcdef"), "pw"); close(done) }()
				select {
				case <-done:
				case <-time.After(8 * time.Second):
					panic("stuck")
				}
			}},
		}
		for _, sc := range scen {
			d2, _ := os.MkdirTemp("", "verifks")
			k2, _ := didcrypto.NewKeyStore(d2)
			pp := good.build(d2, 0, "pw")
			os.Rename(pp, filepath.Join(d2, "UTC--2020-01-01T00-00-00.000000000Z--addr0.json"))
			res := make(chan string, 1)
			go func() {
				defer func() {
					if r := recover(); r != nil {
						res <- "fail #" + fmt.Sprint(r)
					}
				}()
				sc.run(k2, d2)
				if _, err := k2.Save("after", []byte("0123456789abcdef0123456789abcdef"), "pw"); err != nil {
					res <- "fail #save-after: " + err.Error()
					return
				}
				if _, err := k2.LoadByAddress("addr0", "pw"); err != nil {
					res <- "fail #load-after: " + err.Error()
					return
				}
				res <- "pass"
			}()
			ans := ""
			select {
			case ans = <-res:
			case <-time.After(10 * time.Second):
				ans = "fail #later-Save/Load-blocked-for-ever"
			}
			s.Emit("mon.c20.kslock.path "+sc.name, ans)
			os.RemoveAll(d2)
		}
		// a Load of an address racing the Save of that very address on the same KeyStore object sees the file either not
		// at all or complete: "file not found", or exactly the key that was saved
		s.Emit("mon.c20.kslock.load-while-save", func() string {
			d3, _ := os.MkdirTemp("", "verifkw")
			defer os.RemoveAll(d3)
			k3, err := didcrypto.NewKeyStore(d3)
			if err != nil {
				return "pass #no-keystore"
			}
			rounds := 8
			if tier == "thorough" {
				rounds = 40
			}
			secret := bytes.Repeat([]byte("0123456789abcdef"), 64)
			var bad atomic.Value
			for r := 0; r < rounds; r++ {
				addr := fmt.Sprintf("did:panacea:round%d#key1", r)
				stopL := make(chan struct{})
				var wgl sync.WaitGroup
				for i := 0; i < 6; i++ {
					wgl.Add(1)
					go func() {
						defer wgl.Done()
						for {
							select {
							case <-stopL:
								return
							default:
							}
							got, err := k3.LoadByAddress(addr, "pw")
							if err != nil {
								if !strings.Contains(err.Error(), "file not found") {
									bad.Store("a load during the save failed with: " + err.Error())
									return
								}
								continue
							}
							if !bytes.Equal(got, secret) {
								bad.Store("a load during the save returned another key")
								return
							}
						}
					}()
				}
				done := make(chan error, 1)
				go func() { _, err := k3.Save(addr, secret, "pw"); done <- err }()
				select {
				case err := <-done:
					if err != nil {
						close(stopL)
						wgl.Wait()
						return "pass #save-failed " + err.Error()
					}
				case <-time.After(20 * time.Second):
					close(stopL)
					return "fail #save-blocked-for-ever"
				}
				time.Sleep(20 * time.Millisecond)
				close(stopL)
				wgl.Wait()
				if v := bad.Load(); v != nil {
					return "fail #" + v.(string)
				}
			}
			return "pass"
		}())
		loaders, savers := 6, 6
		dur := 1500 * time.Millisecond
		if tier == "thorough" {
			dur = 5 * time.Second
		}
		var ops int64
		stop := make(chan struct{})
		var wg sync.WaitGroup
		for i := 0; i < loaders; i++ {
			wg.Add(1)
			go func() {
				defer wg.Done()
				for {
					select {
					case <-stop:
						return
					default:
					}
					ks.LoadByAddress("addr0", "pw")
					atomic.AddInt64(&ops, 1)
				}
			}()
		}
		for i := 0; i < savers; i++ {
			wg.Add(1)
			go func(i int) {
				defer wg.Done()
				for {
					select {
					case <-stop:
						return
					default:
					}
					// Save on an existing name fails fast after taking the write lock (no PBKDF2 cost matters here)
					ks.Load(filepath.Join(tmp, "missing.json"), "pw")
					ksSaveQuick(ks, tmp)
					atomic.AddInt64(&ops, 1)
				}
			}(i)
		}
		time.Sleep(dur)
		close(stop)
		fin := make(chan struct{})
		go func() { wg.Wait(); close(fin) }()
		ans := "pass"
		select {
		case <-fin:
		case <-time.After(5 * time.Second):
			ans = "fail #goroutines-stuck-after-stop"
		}
		s.Emit(fmt.Sprintf("mon.c20.kslock loaders=%d savers=%d", loaders, savers), ans)
	}
}

// ksSaveQuick takes the key store's write lock through the public API (Save derives a key with the full
// PBKDF2 cost *before* locking, so only a few per second happen; that is enough to queue writers).
func ksSaveQuick(ks *didcrypto.KeyStore, dir string) {
	ks.Save("addrS", []byte("0123456789abcdef0123456789abcdef"), "pw")
}
