package main

// mon.c18.genesis-key-strings: the string form of composite keys, as the genesis export really uses it.  States whose
// key tuples are "close" in every way length-prefixing exists to keep apart — an owner address that is a proper prefix
// of another owner's, topic names that make up the difference, a writer address equal to an owner's — are built with
// validated messages; the export must list every stored key under its own string, each string must decode to exactly
// the stored tuple, the export must validate and import into a fresh chain that exports the same.

import (
	"bytes"
	"fmt"

	dbm "github.com/cometbft/cometbft-db"
	sdk "github.com/cosmos/cosmos-sdk/types"
	"github.com/medibloc/panacea-core/v2/types/compkey"
	"github.com/medibloc/panacea-core/v2/x/aol"
	aolkeeper "github.com/medibloc/panacea-core/v2/x/aol/keeper"
	aoltypes "github.com/medibloc/panacea-core/v2/x/aol/types"
)

func monC18GenesisKeyStrings(s *Stream) {
	s.Emit("mon.c18.genesis-key-strings", guard(func() string {
		c, err := NewChain(dbm.NewMemDB(), tmpHome(), nil, 0, nil)
		if err != nil {
			return "pass #no-chain"
		}
		c.Begin(c.Time)
		ctx := c.DeliverCtx()
		g := sdk.WrapSDKContext(ctx)
		ms := aolkeeper.NewMsgServerImpl(c.App.AolKeeper)
		base := bytes.Repeat([]byte{0x41}, 20)
		type ot struct {
			o []byte
			t string
		}
		pairs := []ot{
			{base, "xlog"}, {append(append([]byte{}, base...), 'x'), "log"}, // owner ‖ topic equal as raw concatenations
			{base, "log"}, {append(append([]byte{}, base...), 'x', 'l'), "og"},
			{base[:19], "Alog"}, {[]byte{0x41}, "t"}, {[]byte{0x41, 0x41}, "t"},
			{base, "."}, {base, ".."}, {base, "..."}, {base, "a.b"}, {base, "-"}, // names a path cleaner would rewrite
		}
		n := 0
		for _, p := range pairs {
			o := sdk.AccAddress(p.o).String()
			ct := &aoltypes.MsgCreateTopicRequest{TopicName: p.t, Description: "d", OwnerAddress: o}
			if ct.ValidateBasic() != nil {
				continue
			}
			if _, err := ms.CreateTopic(g, ct); err != nil {
				continue
			}
			for _, wb := range [][]byte{p.o, base, {0x41}} {
				w := sdk.AccAddress(wb).String()
				aw := &aoltypes.MsgAddWriterRequest{TopicName: p.t, Moniker: "m", WriterAddress: w, OwnerAddress: o}
				if aw.ValidateBasic() != nil {
					continue
				}
				if _, err := ms.AddWriter(g, aw); err != nil {
					continue
				}
				ar := &aoltypes.MsgAddRecordRequest{TopicName: p.t, Key: []byte("k"), Value: []byte(p.t), WriterAddress: w, OwnerAddress: o}
				if ar.ValidateBasic() == nil {
					if _, err := ms.AddRecord(g, ar); err == nil {
						n++
					}
				}
			}
		}
		if n < 6 {
			return fmt.Sprintf("pass #only-%d-records", n)
		}
		k := c.App.AolKeeper
		gs := aol.ExportGenesis(ctx, k)
		okeys, _ := k.GetAllOwners(ctx)
		tkeys, _ := k.GetAllTopics(ctx)
		wkeys, _ := k.GetAllWriters(ctx)
		rkeys, _ := k.GetAllRecords(ctx)
		if len(gs.Owners) != len(okeys) || len(gs.Topics) != len(tkeys) || len(gs.Writers) != len(wkeys) || len(gs.Records) != len(rkeys) {
			return fmt.Sprintf("fail #different-keys-exported-under-one-string owners %d/%d topics %d/%d writers %d/%d records %d/%d",
				len(gs.Owners), len(okeys), len(gs.Topics), len(tkeys), len(gs.Writers), len(wkeys), len(gs.Records), len(rkeys))
		}
		// every exported string decodes to a stored tuple, and its value is that tuple's value
		for str, v := range gs.Writers {
			var key aoltypes.WriterCompositeKey
			if err := compkey.DecodeFromString(str, aoltypes.GenesisKeySeparator, &key); err != nil {
				return "fail #exported-key-does-not-decode"
			}
			if !k.HasWriter(ctx, key) {
				return "fail #exported-key-decodes-to-a-tuple-that-is-not-stored"
			}
			if got := k.GetWriter(ctx, key); got.Moniker != v.Moniker || got.NanoTimestamp != v.NanoTimestamp {
				return "fail #exported-value-belongs-to-another-key"
			}
		}
		for str, v := range gs.Records {
			var key aoltypes.RecordCompositeKey
			if err := compkey.DecodeFromString(str, aoltypes.GenesisKeySeparator, &key); err != nil {
				return "fail #exported-key-does-not-decode"
			}
			if !k.HasRecord(ctx, key) {
				return "fail #exported-key-decodes-to-a-tuple-that-is-not-stored"
			}
			if got := k.GetRecord(ctx, key); !bytes.Equal(got.Value, v.Value) || got.WriterAddress != v.WriterAddress {
				return "fail #exported-value-belongs-to-another-key"
			}
		}
		if err := gs.Validate(); err != nil {
			return "fail #export-refused-by-genesis-validation " + err.Error()[:min(80, len(err.Error()))]
		}
		c2, err := NewChain(dbm.NewMemDB(), tmpHome(), nil, 0, nil)
		if err != nil {
			return "pass #no-chain"
		}
		c2.Begin(c2.Time)
		ctx2 := c2.DeliverCtx()
		var res string
		func() {
			defer func() {
				if r := recover(); r != nil {
					res = "fail #import-panics"
				}
			}()
			aol.InitGenesis(ctx2, c2.App.AolKeeper, *gs)
		}()
		if res != "" {
			return res
		}
		if aolDump(c, ctx) != aolDump(c2, ctx2) {
			return "fail #import-of-the-export-differs"
		}
		return fmt.Sprintf("pass #%d-records", n)
	}))
}
