package main

// L3 runtime scenarios on the real application (monitors: each op answers pass / fail #reason):
//   stream "restart"      (C10): one database, stop and re-open at every crash point, against an uninterrupted twin
//   stream "determinism"  (C09): twin applications with different GOMAXPROCS and CheckTx/Simulate/query noise;
//                                repeated import of an AOL genesis that spells one key in two ways (F12)
//   stream "upgrade"      (C19): the v2.2.1 plan crossing its height on a populated chain, restarts around it
//   stream "conc"         (C20): query goroutines against a per-height oracle while blocks execute

import (
	"bytes"
	"encoding/base64"
	"encoding/json"
	"fmt"
	aolkeeper "github.com/medibloc/panacea-core/v2/x/aol/keeper"
	"math/rand"
	"os"
	"runtime"
	"strings"
	"sync"
	"time"

	dbm "github.com/cometbft/cometbft-db"
	abci "github.com/cometbft/cometbft/abci/types"
	sdk "github.com/cosmos/cosmos-sdk/types"
	"github.com/cosmos/cosmos-sdk/types/module"
	upgradetypes "github.com/cosmos/cosmos-sdk/x/upgrade/types"
	"github.com/medibloc/panacea-core/v2/app"
	aoltypes "github.com/medibloc/panacea-core/v2/x/aol/types"
	didtypes "github.com/medibloc/panacea-core/v2/x/did/types"
	pnfttypes "github.com/medibloc/panacea-core/v2/x/pnft/types"
)

// block = list of signed transactions, built against a reference chain so that both twins get identical bytes
type rtEnv struct {
	accts []*Acct
	rng   *rand.Rand
}

func rtAccts() []*Acct {
	return []*Acct{newAcct("A", []byte("rt-A")), newAcct("B", []byte("rt-B")), newAcct("C", []byte("rt-C"))}
}

// genTxs builds a block of valid-ish custom-module transactions signed against chain c's current sequences.
func genTxs(c *Chain, accts []*Acct, rng *rand.Rand, n int) [][]byte {
	var txs [][]byte
	used := map[string]bool{}
	// the first blocks of a history lay a base state (topic t of the first account, everybody a writer), so
	// that the random traffic afterwards mostly succeeds
	{
		o := accts[0]
		var qctx sdk.Context
		if c.InBlock {
			qctx = c.DeliverCtx()
		} else {
			qctx = c.QueryCtx()
		}
		var m sdk.Msg
		if !c.App.AolKeeper.HasTopic(qctx, aoltypes.TopicCompositeKey{OwnerAddress: o.Addr, TopicName: "t"}) {
			m = &aoltypes.MsgCreateTopicRequest{TopicName: "t", Description: "d", OwnerAddress: o.Bech()}
		} else {
			for _, w := range accts {
				if !c.App.AolKeeper.HasWriter(qctx, aoltypes.WriterCompositeKey{OwnerAddress: o.Addr, TopicName: "t", WriterAddress: w.Addr}) {
					m = &aoltypes.MsgAddWriterRequest{TopicName: "t", Moniker: "m", WriterAddress: w.Bech(), OwnerAddress: o.Bech()}
					break
				}
			}
		}
		if m != nil {
			if bz, err := c.BuildTx(TxSpec{Msgs: []sdk.Msg{m}, Signers: []SignerSpec{{Acct: o}}, Fee: 1}); err == nil {
				txs = append(txs, bz)
				used[o.Name] = true
			}
		}
	}
	for i := 0; i < n; i++ {
		a := accts[rng.Intn(len(accts))]
		if used[a.Name] {
			continue // one tx per account per block keeps sequences simple
		}
		used[a.Name] = true
		var m sdk.Msg
		switch rng.Intn(6) {
		case 0:
			m = &aoltypes.MsgCreateTopicRequest{TopicName: []string{"t", "u", "v"}[rng.Intn(3)], Description: "d", OwnerAddress: a.Bech()}
		case 1:
			m = &aoltypes.MsgAddWriterRequest{TopicName: []string{"t", "u"}[rng.Intn(2)], Moniker: "m", WriterAddress: accts[rng.Intn(len(accts))].Bech(), OwnerAddress: a.Bech()}
		case 2, 3:
			m = &aoltypes.MsgAddRecordRequest{TopicName: []string{"t", "u"}[rng.Intn(2)], Key: []byte("k"), Value: smallBytes(rng), WriterAddress: a.Bech(), OwnerAddress: accts[[]int{0, 0, 0, 1, 2}[rng.Intn(5)]%len(accts)].Bech()}
		case 4:
			m = &pnfttypes.MsgCreateDenomRequest{Id: []string{"d1", "d2"}[rng.Intn(2)], Name: "n", Symbol: "s", Creator: a.Bech()}
		default:
			m = &pnfttypes.MsgMintPNFTRequest{DenomId: []string{"d1", "d2"}[rng.Intn(2)], Id: fmt.Sprint(rng.Intn(4)), Name: "n", Creator: a.Bech()}
		}
		msgs := []sdk.Msg{m}
		if rng.Intn(4) == 0 {
			// a multi-message transaction whose last message fails: the earlier messages' writes are rolled
			// back by the transaction layer and must leave no trace anywhere (store, keeper memory, caches)
			msgs = append(msgs, &aoltypes.MsgAddRecordRequest{TopicName: "no-such-topic", Key: []byte("k"), Value: []byte("v"), WriterAddress: a.Bech(), OwnerAddress: a.Bech()})
		}
		bz, err := c.BuildTx(TxSpec{Msgs: msgs, Signers: []SignerSpec{{Acct: a}}, Fee: int64(rng.Intn(3))})
		if err == nil {
			txs = append(txs, bz)
		} else if strings.Contains(err.Error(), "panic") {
			panic("BuildTx: " + err.Error()) // never silently run empty blocks
		}
	}
	return txs
}

func dumpsOf(c *Chain, ctx sdk.Context) string {
	return aolDump(c, ctx) + "#" + didDumpStr(c, ctx) + "#" + pnftDump(c, ctx)
}

func resultKey(r abci.ResponseDeliverTx) string {
	ev, _ := json.Marshal(r.Events)
	return fmt.Sprintf("%d|%x|%d|%d|%s|%s", r.Code, r.Data, r.GasUsed, r.GasWanted, r.Codespace, ev)
}

// delivery statistics since the last emitted monitor line (shown after " #", not part of the verdict)
var rtDelivered, rtOK, simOK int

func withStats(ans string) string {
	if !strings.Contains(ans, " #") {
		ans += fmt.Sprintf(" #delivered=%d ok=%d simulated-ok=%d", rtDelivered, rtOK, simOK)
	}
	rtDelivered, rtOK, simOK = 0, 0, 0
	return ans
}

// runBlock executes a whole block and returns the per-tx results and the app hash.
func runBlock(c *Chain, t time.Time, txs [][]byte) ([]string, []byte) {
	c.Begin(t)
	var rs []string
	for _, tx := range txs {
		r := c.Deliver(tx)
		rtDelivered++
		if r.Code == 0 {
			rtOK++
		}
		rs = append(rs, resultKey(r))
	}
	eb := c.End()
	evs, _ := json.Marshal(eb.Events)
	rs = append(rs, "endblock:"+string(evs))
	return rs, c.Commit()
}

// reopen builds a fresh application object on the same database (a node restart).
func reopen(c *Chain) *Chain {
	a := newAppOn(c.DB, c.Home)
	n := &Chain{App: a, DB: c.DB, Home: c.Home, Accts: c.Accts, TxCfg: a.TxConfig(), Time: c.Time, valSet: c.valSet}
	n.Height = a.LastBlockHeight()
	return n
}

func init() {
	streams["restart"] = func(dir string, rng *rand.Rand, n int, tier string) {
		s := NewStream(dir, "restart")
		defer s.Close(dir, "restart")
		for _, plan := range []string{"v2.2.0", "v2.2.1"} {
			monC10RestartAfterHandler(s, plan)
			monC10StaleUpgradeInfo(s, plan)
		}
		monC10RestartAfterParamChange(s)
		monC10RestartInsideUpgradeBlock(s)
		monC10RolledBackHandlerEffects(s)
		monC10RestartThenVerifyInvariant(s)
		for h := 0; h < n; h++ {
			accts := rtAccts()
			dbA, dbB := dbm.NewMemDB(), dbm.NewMemDB()
			a, err := NewChain(dbA, tmpHome(), accts, 100000, nil)
			if err != nil {
				panic(err)
			}
			b, _ := NewChain(dbB, tmpHome(), accts, 100000, nil) // uninterrupted twin
			t := a.Time
			blocks := 6 + rng.Intn(6)
			for bl := 0; bl < blocks; bl++ {
				t = t.Add(5 * time.Second)
				txs := genTxs(b, accts, rng, 3)
				crash := rng.Intn(5) // 0: none, 1: after BeginBlock, 2: after a tx prefix, 3: after EndBlock, 4: right after Commit
				ans := guard(func() string {
					committedDump := dumpsOf(a, a.QueryCtx())
					committedHash := a.App.LastCommitID().Hash
					committedHeight := a.App.LastBlockHeight()
					if crash >= 1 && crash <= 3 {
						a.Begin(t)
						if crash >= 2 {
							k := len(txs)
							if crash == 2 && k > 0 {
								k = rng.Intn(k + 1)
							}
							for _, tx := range txs[:k] {
								a.Deliver(tx)
							}
						}
						if crash == 3 {
							a.End()
						}
						a = reopen(a) // the process dies here; a new one starts on the same database
						if a.App.LastBlockHeight() != committedHeight {
							return fmt.Sprintf("fail #height %d != %d", a.App.LastBlockHeight(), committedHeight)
						}
						if !bytes.Equal(a.App.LastCommitID().Hash, committedHash) {
							return "fail #apphash-after-restart"
						}
						if dumpsOf(a, a.QueryCtx()) != committedDump {
							return "fail #uncommitted-work-left-a-trace"
						}
					}
					ra, ha := runBlock(a, t, txs)
					rb, hb := runBlock(b, t, txs)
					if crash == 4 {
						a = reopen(a)
						if !bytes.Equal(a.App.LastCommitID().Hash, ha) {
							return "fail #apphash-after-commit-restart"
						}
					}
					if strings.Join(ra, "\n") != strings.Join(rb, "\n") {
						return "fail #results-differ-from-uninterrupted-twin"
					}
					if !bytes.Equal(ha, hb) {
						return "fail #apphash-differs-from-uninterrupted-twin"
					}
					if dumpsOf(a, a.QueryCtx()) != dumpsOf(b, b.QueryCtx()) {
						return "fail #dumps-differ-from-uninterrupted-twin"
					}
					return "pass"
				})
				s.Emit(fmt.Sprintf("mon.c10.block history=%d block=%d crash=%d txs=%d", h, bl, crash, len(txs)), withStats(ans))
			}
		}
	}

	streams["determinism"] = func(dir string, rng *rand.Rand, n int, tier string) {
		s := NewStream(dir, "determinism")
		defer s.Close(dir, "determinism")
		monC09Parallelism(s)
		monC09ReadHistory(s)
		monC09NodeConfig(s)
		monC09UpgradeReplicas(s)
		monC09RestartEveryBlock(s)
		for h := 0; h < n; h++ {
			accts := rtAccts()
			a, err := NewChain(dbm.NewMemDB(), tmpHome(), accts, 100000, nil)
			if err != nil {
				panic(err)
			}
			b, _ := NewChain(dbm.NewMemDB(), tmpHome(), accts, 100000, nil)
			t := a.Time
			for bl := 0; bl < 8; bl++ {
				t = t.Add(5 * time.Second)
				txs := genTxs(a, accts, rng, 3)
				ans := guard(func() string {
					// replica b: different parallelism, and CheckTx / Simulate / query noise before and during the block
					old := runtime.GOMAXPROCS(1 + rng.Intn(4))
					defer runtime.GOMAXPROCS(old)
					for _, tx := range txs {
						// simulate first: CheckTx advances the check-state sequence, after which the same
						// bytes would fail the ante handler in a simulation and never reach the messages
						if _, res, err := b.App.Simulate(tx); err == nil && res != nil {
							simOK++
						}
						b.App.CheckTx(abci.RequestCheckTx{Tx: tx, Type: abci.CheckTxType_New})
					}
					b.App.Query(abci.RequestQuery{Path: "/panacea.aol.v2.Query/Topics", Data: nil})
					time.Sleep(time.Duration(rng.Intn(3)) * time.Millisecond)
					ra, ha := runBlock(a, t, txs)
					// replica b also lives in another time zone (process-local setting, like GOMAXPROCS)
					oldLocal := time.Local
					time.Local = time.FixedZone("KST", 9*3600)
					rb, hb := runBlock(b, t, txs)
					time.Local = oldLocal
					if strings.Join(ra, "\n") != strings.Join(rb, "\n") {
						return "fail #deliver-results-differ"
					}
					if !bytes.Equal(ha, hb) {
						return "fail #apphash-differs"
					}
					return "pass"
				})
				s.Emit(fmt.Sprintf("mon.c09.block history=%d block=%d txs=%d", h, bl, len(txs)), withStats(ans))
			}
			// "simulated, then the chain went another way": replica b alone simulates a transaction whose later
			// messages are valid only after its own first message; the block that is really delivered takes a
			// different first step. Nothing a replica has merely simulated may influence what it then delivers.
			{
				k1, k2 := newDidKey(fmt.Sprintf("det-%d-k1", h)), newDidKey(fmt.Sprintf("det-%d-k2", h))
				did := didtypes.NewDID(k1.pub)
				vmID := did + "#key1"
				docWith := func(k *didKey, svc string) *didtypes.DIDDocument {
					vm := &didtypes.VerificationMethod{Id: vmID, Type: didtypes.ES256K_2019, Controller: did, PublicKeyBase58: k.b58}
					d := didtypes.NewDIDDocument(did, didtypes.WithVerificationMethods([]*didtypes.VerificationMethod{vm}),
						didtypes.WithAuthentications([]didtypes.VerificationRelationship{rel(vmID)}))
					if svc != "" {
						d.Services = []*didtypes.Service{{Id: "s1", Type: "T", ServiceEndpoint: svc}}
					}
					return &d
				}
				sign := func(k *didKey, d *didtypes.DIDDocument, seq uint64) []byte {
					sg, err := didtypes.Sign(d, seq, k.priv)
					if err != nil {
						panic(err)
					}
					return sg
				}
				A := accts[0]
				tx := func(c *Chain, msgs ...sdk.Msg) []byte {
					bz, err := c.BuildTx(TxSpec{Msgs: msgs, Signers: []SignerSpec{{Acct: A}}, Fee: 1})
					if err != nil {
						panic(err)
					}
					return bz
				}
				d0 := docWith(k1, "")
				create := &didtypes.MsgCreateDIDRequest{Did: did, Document: d0, VerificationMethodId: vmID, Signature: sign(k1, d0, 0), FromAddress: A.Bech()}
				rot := docWith(k2, "")             // rotate k1 -> k2, signed by k1 at sequence 0
				keep := docWith(k1, "https://a")   // competing update keeping k1, signed by k1 at sequence 0
				follow := docWith(k2, "https://b") // signed by k2 at sequence 1: valid only after the rotation
				mRot := &didtypes.MsgUpdateDIDRequest{Did: did, Document: rot, VerificationMethodId: vmID, Signature: sign(k1, rot, 0), FromAddress: A.Bech()}
				mKeep := &didtypes.MsgUpdateDIDRequest{Did: did, Document: keep, VerificationMethodId: vmID, Signature: sign(k1, keep, 0), FromAddress: A.Bech()}
				mFollow := &didtypes.MsgUpdateDIDRequest{Did: did, Document: follow, VerificationMethodId: vmID, Signature: sign(k2, follow, 1), FromAddress: A.Bech()}
				ans := guard(func() string {
					// replica a runs the three blocks first, replica b afterwards: package-level state is shared by
					// the twins of this process, and in this order nothing b does can leak into a
					t1, t2, t3 := t.Add(5*time.Second), t.Add(10*time.Second), t.Add(15*time.Second)
					t = t3
					c1 := tx(a, create)
					ra1, ha1 := runBlock(a, t1, [][]byte{c1})
					x1 := tx(a, mKeep)
					ra2, ha2 := runBlock(a, t2, [][]byte{x1})
					x2 := tx(a, mFollow)
					ra3, ha3 := runBlock(a, t3, [][]byte{x2})
					rb1, hb1 := runBlock(b, t1, [][]byte{c1})
					// replica b only: simulate [rotate, follow-up] (succeeds in the simulation, is discarded)
					if _, res, err := b.App.Simulate(tx(b, mRot, mFollow)); err == nil && res != nil {
						simOK++
					}
					rb2, hb2 := runBlock(b, t2, [][]byte{x1})
					rb3, hb3 := runBlock(b, t3, [][]byte{x2})
					if strings.Join(ra1, "\n") != strings.Join(rb1, "\n") || !bytes.Equal(ha1, hb1) {
						return "fail #create-differs"
					}
					if strings.Join(ra2, "\n") != strings.Join(rb2, "\n") || !bytes.Equal(ha2, hb2) {
						return "fail #competing-update-differs"
					}
					if strings.Join(ra3, "\n") != strings.Join(rb3, "\n") {
						return "fail #deliver-results-differ-after-simulation-on-one-replica"
					}
					if !bytes.Equal(ha3, hb3) {
						return "fail #apphash-differs-after-simulation-on-one-replica"
					}
					return "pass"
				})
				s.Emit(fmt.Sprintf("mon.c09.block history=%d scenario=simulated-then-diverged", h), withStats(ans))
			}
		}
		// F12: an AOL genesis that spells one store key in two ways, imported repeatedly
		s.Emit("mon.c09.genesis-spellings", guard(func() string {
			addr := sdk.AccAddress(bytes.Repeat([]byte{7}, 20)).String()
			gen := fmt.Sprintf(`{"owners":{},"topics":{"%s/t":{"description":"lower","total_records":"0","total_writers":"0"},"%s/t":{"description":"UPPER","total_records":"0","total_writers":"0"}},"writers":{},"records":{}}`,
				addr, strings.ToUpper(addr))
			var gs aoltypes.GenesisState
			probe, _ := NewChain(dbm.NewMemDB(), tmpHome(), nil, 0, nil)
			if err := probe.App.AppCodec().UnmarshalJSON([]byte(gen), &gs); err != nil {
				return "pass #genesis-not-decodable"
			}
			if err := gs.Validate(); err != nil {
				return "pass #rejected-by-validate"
			}
			seen := map[string]bool{}
			for i := 0; i < 24; i++ {
				c, err := NewChain(dbm.NewMemDB(), tmpHome(), nil, 0, map[string]json.RawMessage{aoltypes.ModuleName: json.RawMessage(gen)})
				if err != nil {
					return "fail #import"
				}
				seen[aolDump(c, c.QueryCtx())] = true
			}
			if len(seen) > 1 {
				return fmt.Sprintf("fail #%d-different-states-from-one-valid-genesis", len(seen))
			}
			return "pass"
		}))
		// a valid AOL genesis whose records are not all below their topic's counter (validation does not relate the two),
		// imported repeatedly and followed by one append: the state and the acknowledged offset must not depend on the
		// order in which the import visits the genesis maps
		s.Emit("mon.c09.genesis-order", guard(func() string {
			o := sdk.AccAddress(bytes.Repeat([]byte{7}, 20)).String()
			w := sdk.AccAddress(bytes.Repeat([]byte{8}, 20)).String()
			rec := func(off int, k string) string {
				return fmt.Sprintf(`"%s/t/%d":{"key":"%s","value":"dg==","nano_timestamp":"5","writer_address":"%s"}`, o, off, k, w)
			}
			gen := fmt.Sprintf(`{"owners":{"%s":{"total_topics":"1"}},"topics":{"%s/t":{"description":"d","total_records":"2","total_writers":"1"}},"writers":{"%s/t/%s":{"moniker":"m","description":"","nano_timestamp":"1"}},"records":{%s,%s,%s,%s,%s}}`,
				o, o, o, w, rec(0, "YQ=="), rec(1, "Yg=="), rec(5, "Yw=="), rec(9, "ZA=="), rec(12, "ZQ=="))
			var gs aoltypes.GenesisState
			probe, _ := NewChain(dbm.NewMemDB(), tmpHome(), nil, 0, nil)
			if err := probe.App.AppCodec().UnmarshalJSON([]byte(gen), &gs); err != nil {
				return "pass #genesis-not-decodable " + err.Error()
			}
			if err := gs.Validate(); err != nil {
				return "pass #rejected-by-validate"
			}
			seen := map[string]bool{}
			for i := 0; i < 16; i++ {
				c, err := NewChain(dbm.NewMemDB(), tmpHome(), nil, 0, map[string]json.RawMessage{aoltypes.ModuleName: json.RawMessage(gen)})
				if err != nil {
					return "fail #import"
				}
				c.Begin(c.Time.Add(time.Second))
				ms := aolkeeper.NewMsgServerImpl(c.App.AolKeeper)
				r, err := ms.AddRecord(sdk.WrapSDKContext(c.DeliverCtx()), &aoltypes.MsgAddRecordRequest{TopicName: "t", Key: []byte("n"), Value: []byte("v"), WriterAddress: w, OwnerAddress: o})
				off := "err"
				if err == nil {
					off = fmt.Sprint(r.Offset)
				}
				seen[off+"|"+aolDump(c, c.DeliverCtx())] = true
			}
			if len(seen) > 1 {
				return fmt.Sprintf("fail #%d-different-states-from-one-valid-genesis", len(seen))
			}
			return "pass"
		}))
	}

	streams["upgrade"] = func(dir string, rng *rand.Rand, n int, tier string) {
		s := NewStream(dir, "upgrade")
		defer s.Close(dir, "upgrade")
		monC19UpgradePathDatabase(s)
		monC19StartAtUpgradeHeight(s)
		monC19GenesisWithoutUpgradeSection(s)
		for h := 0; h < n; h++ {
			accts := rtAccts()
			a, err := NewChain(dbm.NewMemDB(), tmpHome(), accts, 100000, nil)
			if err != nil {
				panic(err)
			}
			t := a.Time
			for bl := 0; bl < 4; bl++ {
				t = t.Add(5 * time.Second)
				runBlock(a, t, genTxs(a, accts, rng, 3))
			}
			planHeight := a.Height + 2                          // scheduled inside block a.Height+1: the new binary must meet the plan at the very next block
			restartAt := []int{1, 0, 2, 3}[(h+rng.Intn(2)*0)%4] // every kind in turn; 0: none, 1: before, 2: at (after the upgrade block committed), 3: after
			s.Inflight(fmt.Sprintf("mon.c19.upgrade history=%d name=v2.2.1 height=%d restart=%d", h, planHeight, restartAt))
			s.Emit(fmt.Sprintf("mon.c19.upgrade history=%d name=v2.2.1 height=%d restart=%d", h, planHeight, restartAt), func() (ans string) {
				defer func() {
					if r := recover(); r != nil {
						ans = "fail #panic " + strings.ReplaceAll(fmt.Sprint(r), "\n", " ")
						if len(ans) > 200 {
							ans = ans[:200]
						}
					}
				}()
				return func() string {
					a.Begin(t.Add(time.Second))
					if err := a.App.UpgradeKeeper.ScheduleUpgrade(a.DeliverCtx(), upgradetypes.Plan{Name: "v2.2.1", Height: planHeight}); err != nil {
						return "fail #schedule " + err.Error()
					}
					// the version map of a node that came through the releases in order still has the records of modules that later
					// releases removed (x/upgrade never prunes): every store a descriptor deletes had a module once
					stale := module.VersionMap{}
					for _, u := range app.Upgrades {
						for _, d := range u.StoreUpgrades.Deleted {
							stale[d] = 1
						}
					}
					a.App.UpgradeKeeper.SetModuleVersionMap(a.DeliverCtx(), stale)
					a.End()
					a.Commit()
					t = t.Add(time.Second)
					before := ""
					for a.Height < planHeight+2 {
						t = t.Add(5 * time.Second)
						if a.Height+1 == planHeight {
							before = dumpsOf(a, a.QueryCtx())
							if restartAt == 1 {
								// what an operator's node does: the old binary halts in front of the upgrade block and leaves
								// upgrade-info.json in its home; the binary started next reads it and applies the release's
								// store upgrades before loading the stores
								if err := a.App.UpgradeKeeper.DumpUpgradeInfoToDisk(planHeight, upgradetypes.Plan{Name: "v2.2.1", Height: planHeight}); err != nil {
									return "fail #dump-upgrade-info " + err.Error()
								}
								a = reopen(a)
							}
						}
						var txs [][]byte
						if a.Height+1 != planHeight {
							txs = genTxs(a, accts, rng, 2)
						}
						runBlock(a, t, txs) // a panic here (e.g. "UPGRADE NEEDED", missing handler) is caught by guard
						if a.Height == planHeight {
							if dumpsOf(a, a.QueryCtx()) != before {
								return "fail #custom-data-changed-by-upgrade"
							}
							ctx := a.QueryCtx()
							if a.App.UpgradeKeeper.GetDoneHeight(ctx, "v2.2.1") != planHeight {
								return "fail #done-height-not-recorded"
							}
							vm := a.App.UpgradeKeeper.GetModuleVersionMap(ctx)
							for _, m := range []string{"aol", "did", "burn", "pnft"} {
								if vm[m] != 1 {
									return fmt.Sprintf("fail #module-version %s=%d", m, vm[m])
								}
							}
							if restartAt == 2 {
								hash := a.App.LastCommitID().Hash
								a = reopen(a)
								if !bytes.Equal(a.App.LastCommitID().Hash, hash) || dumpsOf(a, a.QueryCtx()) != before {
									return "fail #restart-at-upgrade-height"
								}
							}
						}
						if a.Height == planHeight+1 && restartAt == 3 {
							d := dumpsOf(a, a.QueryCtx())
							a = reopen(a)
							if dumpsOf(a, a.QueryCtx()) != d {
								return "fail #restart-after-upgrade"
							}
						}
					}
					return "pass"
				}()
			}())
		}
	}

	streams["conc"] = func(dir string, rng *rand.Rand, n int, tier string) {
		s := NewStream(dir, "conc")
		defer s.Close(dir, "conc")
		monC20ConcurrentValidation(s)
		monC20LargeClassListing(s)
		accts := rtAccts()
		a, err := NewChain(dbm.NewMemDB(), tmpHome(), accts, 100000, nil)
		if err != nil {
			panic(err)
		}
		owner := accts[0].Bech()
		ownerB := accts[1].Bech()
		// reads: listings (store iterators) of two different owners and of a topic's writers — served by different
		// goroutines at the same time, as the gRPC server does — and a single item (store Get)
		kinds := []string{"listing", "listing-b", "writers", "item", "did", "denoms"}
		// the DID the "did" reads resolve: created in the first block, updated in every later one; what a height holds
		// is known by construction (sequence = number of updates, service endpoint names the block), so this kind's
		// oracle does not come from asking the application
		dk := newDidKey("conc-did")
		cdid := didtypes.NewDID(dk.pub)
		cvm := cdid + "#key1"
		cdoc := func(bl int) *didtypes.DIDDocument {
			vm := &didtypes.VerificationMethod{Id: cvm, Type: didtypes.ES256K_2019, Controller: cdid, PublicKeyBase58: dk.b58}
			d := didtypes.NewDIDDocument(cdid, didtypes.WithVerificationMethods([]*didtypes.VerificationMethod{vm}),
				didtypes.WithAuthentications([]didtypes.VerificationRelationship{rel(cvm)}))
			d.Services = []*didtypes.Service{{Id: "s1", Type: "T", ServiceEndpoint: fmt.Sprintf("https://e/%d", bl)}}
			return &d
		}
		didAns := func(code uint32, seq uint64, ep string) string { return fmt.Sprintf("%d:seq=%d:%s", code, seq, ep) }
		q := func(kind string, height int64) string {
			var r abci.ResponseQuery
			if kind == "did" {
				req := didtypes.QueryDIDRequest{DidBase64: base64.StdEncoding.EncodeToString([]byte(cdid))}
				bz, _ := req.Marshal()
				r = a.App.Query(abci.RequestQuery{Path: "/panacea.did.v2.Query/DID", Data: bz, Height: height})
				var resp didtypes.QueryDIDResponse
				if r.Code != 0 || resp.Unmarshal(r.Value) != nil || resp.DidDocumentWithSeq == nil || resp.DidDocumentWithSeq.Document == nil || len(resp.DidDocumentWithSeq.Document.Services) == 0 {
					return fmt.Sprintf("%d:%x", r.Code, r.Value)
				}
				return didAns(r.Code, resp.DidDocumentWithSeq.Sequence, resp.DidDocumentWithSeq.Document.Services[0].ServiceEndpoint)
			}
			if kind == "denoms" {
				// the owner creates one denom per block: what a height holds is known by construction
				req := pnfttypes.QueryDenomsByOwnerRequest{Owner: owner}
				bz, _ := req.Marshal()
				r = a.App.Query(abci.RequestQuery{Path: "/panacea.pnft.v2.Query/DenomsByOwner", Data: bz, Height: height})
				var resp pnfttypes.QueryDenomsByOwnerResponse
				if r.Code != 0 || resp.Unmarshal(r.Value) != nil {
					return fmt.Sprintf("%d:%x", r.Code, r.Value)
				}
				return fmt.Sprintf("%d:n=%d", r.Code, len(resp.Denoms))
			}
			if kind == "listing" || kind == "listing-b" {
				req := aoltypes.QueryTopicsRequest{OwnerAddress: owner}
				if kind == "listing-b" {
					req.OwnerAddress = ownerB
				}
				bz, _ := req.Marshal()
				r = a.App.Query(abci.RequestQuery{Path: "/panacea.aol.v2.Query/Topics", Data: bz, Height: height})
			} else if kind == "writers" {
				req := aoltypes.QueryWritersRequest{OwnerAddress: owner, TopicName: "t0"}
				bz, _ := req.Marshal()
				r = a.App.Query(abci.RequestQuery{Path: "/panacea.aol.v2.Query/Writers", Data: bz, Height: height})
			} else {
				req := aoltypes.QueryTopicRequest{OwnerAddress: owner, TopicName: "t0"}
				bz, _ := req.Marshal()
				r = a.App.Query(abci.RequestQuery{Path: "/panacea.aol.v2.Query/Topic", Data: bz, Height: height})
			}
			return fmt.Sprintf("%d:%x", r.Code, r.Value)
		}
		type obs struct {
			kind string
			h    int64
			got  string
		}
		var mu sync.Mutex
		oracle := map[string]string{} // kind@height -> answer recorded right after that height was committed
		var heights []int64
		var wrong []obs
		nq := 0
		stop := make(chan struct{})
		var wg sync.WaitGroup
		for g := 0; g < 6; g++ {
			wg.Add(1)
			go func(g int) {
				defer wg.Done()
				r := rand.New(rand.NewSource(int64(g)))
				for {
					select {
					case <-stop:
						return
					default:
					}
					mu.Lock()
					hs := append([]int64{}, heights...)
					mu.Unlock()
					if len(hs) == 0 {
						continue
					}
					// mostly the most recent heights (where readers and the committing writer meet), sometimes any
					h := hs[len(hs)-1-r.Intn(min(2, len(hs)))]
					if r.Intn(3) == 0 {
						h = hs[r.Intn(len(hs))]
					}
					kind := kinds[r.Intn(len(kinds))]
					got := q(kind, h)
					mu.Lock()
					nq++
					if want := oracle[fmt.Sprintf("%s@%d", kind, h)]; got != want {
						wrong = append(wrong, obs{kind, h, got})
					}
					mu.Unlock()
				}
			}(g)
		}
		t := a.Time
		for bl := 0; bl < 12*n; bl++ {
			t = t.Add(5 * time.Second)
			msgs := []sdk.Msg{&aoltypes.MsgCreateTopicRequest{TopicName: fmt.Sprintf("t%d", bl), Description: fmt.Sprintf("d%d", bl), OwnerAddress: owner}}
			if bl > 0 {
				// also rewrite the item the item query reads (total_writers changes every block)
				w := newAcct("w", []byte(fmt.Sprintf("conc-w-%d", bl)))
				msgs = append(msgs, &aoltypes.MsgAddWriterRequest{TopicName: "t0", Moniker: "m", WriterAddress: w.Bech(), OwnerAddress: owner})
			}
			msgs = append(msgs, &pnfttypes.MsgCreateDenomRequest{Id: fmt.Sprintf("conc-denom-%03d", bl), Name: "n", Symbol: "s", Creator: owner})
			{
				d := cdoc(bl)
				if bl == 0 {
					sg, _ := didtypes.Sign(d, 0, dk.priv)
					msgs = append(msgs, &didtypes.MsgCreateDIDRequest{Did: cdid, Document: d, VerificationMethodId: cvm, Signature: sg, FromAddress: owner})
				} else {
					sg, _ := didtypes.Sign(d, uint64(bl-1), dk.priv)
					msgs = append(msgs, &didtypes.MsgUpdateDIDRequest{Did: cdid, Document: d, VerificationMethodId: cvm, Signature: sg, FromAddress: owner})
				}
			}
			bz, err := a.BuildTx(TxSpec{Msgs: msgs, Signers: []SignerSpec{{Acct: accts[0]}}, Fee: 1})
			if err != nil {
				panic(err)
			}
			bzB, err := a.BuildTx(TxSpec{Msgs: []sdk.Msg{&aoltypes.MsgCreateTopicRequest{TopicName: fmt.Sprintf("b-topic-%d", bl), Description: "b", OwnerAddress: ownerB}}, Signers: []SignerSpec{{Acct: accts[1]}}, Fee: 1})
			if err != nil {
				panic(err)
			}
			a.App.CheckTx(abci.RequestCheckTx{Tx: bz, Type: abci.CheckTxType_New})
			a.App.Simulate(bz)
			a.Begin(t)
			if r := a.Deliver(bz); r.Code != 0 {
				panic("conc: tx failed: " + r.Log)
			}
			if r := a.Deliver(bzB); r.Code != 0 {
				panic("conc: tx B failed: " + r.Log)
			}
			time.Sleep(time.Millisecond)
			a.End()
			a.Commit()
			// a reader right after the commit, at the new height and at the previous one
			if got := q("did", a.Height); got != didAns(0, uint64(bl), fmt.Sprintf("https://e/%d", bl)) {
				mu.Lock()
				wrong = append(wrong, obs{"did", a.Height, got})
				mu.Unlock()
			}
			mu.Lock()
			for _, k := range kinds {
				if k == "did" {
					oracle[fmt.Sprintf("%s@%d", k, a.Height)] = didAns(0, uint64(bl), fmt.Sprintf("https://e/%d", bl))
					continue
				}
				if k == "denoms" {
					oracle[fmt.Sprintf("%s@%d", k, a.Height)] = fmt.Sprintf("0:n=%d", bl+1)
					continue
				}
				oracle[fmt.Sprintf("%s@%d", k, a.Height)] = q(k, a.Height)
			}
			heights = append(heights, a.Height)
			mu.Unlock()
		}
		close(stop)
		wg.Wait()
		// classify what the readers saw that differs from the committed snapshot of the height they asked for
		for _, kind := range kinds {
			ans := "pass"
			for _, o := range wrong {
				if o.kind != kind {
					continue
				}
				if o.got == oracle[fmt.Sprintf("%s@%d", kind, o.h+1)] {
					if !strings.HasPrefix(ans, "fail #not-a-committed") {
						ans = fmt.Sprintf("fail #query-at-height-saw-the-next-committed-height (asked %d)", o.h)
					}
				} else {
					ans = fmt.Sprintf("fail #not-a-committed-state (asked %d, got %.80s)", o.h, o.got)
				}
			}
			if ans == "pass" {
				ans = fmt.Sprintf("pass #queries=%d blocks=%d", nq, 12*n)
			}
			s.Emit("mon.c20.snapshots kind="+kind, ans)
		}
	}
	_ = os.Getenv
}
