package main

// Stream "validate": ValidateBasic of all 14 custom messages (and GetSigners after a successful validation)
// on boundary-exhaustive and random field values, against the Lean model.

import (
	"bytes"

	"fmt"
	"github.com/cosmos/cosmos-sdk/types/bech32"
	"math/rand"
	"strings"

	sdk "github.com/cosmos/cosmos-sdk/types"
	aoltypes "github.com/medibloc/panacea-core/v2/x/aol/types"
	didtypes "github.com/medibloc/panacea-core/v2/x/did/types"
	pnfttypes "github.com/medibloc/panacea-core/v2/x/pnft/types"
)

type vbEnv struct {
	s    *Stream
	seen map[string]bool
}

func (e *vbEnv) addr(text string) string {
	if !e.seen[text] {
		e.seen[text] = true
		emitAddr(e.s, text)
	}
	return hxs(text)
}

func vbRun(m sdk.Msg) string {
	return guard(func() string {
		if err := m.ValidateBasic(); err != nil {
			return errAns(err)
		}
		sg := m.GetSigners()
		bz := make([][]byte, len(sg))
		for i, a := range sg {
			bz[i] = a
		}
		return "ok signers=" + hxList(bz)
	})
}

func (e *vbEnv) aol(m sdk.Msg) {
	var op string
	switch m := m.(type) {
	case *aoltypes.MsgCreateTopicRequest:
		op = fmt.Sprintf("vb.aol createTopic %s %s %s", hxs(m.TopicName), hxs(m.Description), e.addr(m.OwnerAddress))
	case *aoltypes.MsgAddWriterRequest:
		op = fmt.Sprintf("vb.aol addWriter %s %s %s %s %s", hxs(m.TopicName), hxs(m.Moniker), hxs(m.Description), e.addr(m.WriterAddress), e.addr(m.OwnerAddress))
	case *aoltypes.MsgDeleteWriterRequest:
		op = fmt.Sprintf("vb.aol deleteWriter %s %s %s", hxs(m.TopicName), e.addr(m.WriterAddress), e.addr(m.OwnerAddress))
	case *aoltypes.MsgAddRecordRequest:
		op = fmt.Sprintf("vb.aol addRecord %s %s %s %s %s %s", hxs(m.TopicName), hx(m.Key), hx(m.Value), e.addr(m.WriterAddress), e.addr(m.OwnerAddress), e.addr(m.FeePayerAddress))
	}
	e.s.Emit(op, vbRun(m))
}

func (e *vbEnv) pnft(m sdk.Msg) {
	var op string
	switch m := m.(type) {
	case *pnfttypes.MsgCreateDenomRequest:
		op = fmt.Sprintf("vb.pnft createDenom %s %s %s %s %s %s %s %s", hxs(m.Id), hxs(m.Name), hxs(m.Symbol), hxs(m.Description), hxs(m.Uri), hxs(m.UriHash), hxs(m.Data), e.addr(m.Creator))
	case *pnfttypes.MsgUpdateDenomRequest:
		op = fmt.Sprintf("vb.pnft updateDenom %s %s %s %s %s %s %s %s", hxs(m.Id), hxs(m.Name), hxs(m.Symbol), hxs(m.Description), hxs(m.Uri), hxs(m.UriHash), hxs(m.Data), e.addr(m.Updater))
	case *pnfttypes.MsgDeleteDenomRequest:
		op = fmt.Sprintf("vb.pnft deleteDenom %s %s", hxs(m.Id), e.addr(m.Remover))
	case *pnfttypes.MsgTransferDenomRequest:
		op = fmt.Sprintf("vb.pnft transferDenom %s %s %s", hxs(m.Id), e.addr(m.Sender), e.addr(m.Receiver))
	case *pnfttypes.MsgMintPNFTRequest:
		op = fmt.Sprintf("vb.pnft mintPNFT %s %s %s %s %s %s %s %s", hxs(m.DenomId), hxs(m.Id), hxs(m.Name), hxs(m.Description), hxs(m.Uri), hxs(m.UriHash), hxs(m.Data), e.addr(m.Creator))
	case *pnfttypes.MsgTransferPNFTRequest:
		op = fmt.Sprintf("vb.pnft transferPNFT %s %s %s %s", hxs(m.DenomId), hxs(m.Id), e.addr(m.Sender), e.addr(m.Receiver))
	case *pnfttypes.MsgBurnPNFTRequest:
		op = fmt.Sprintf("vb.pnft burnPNFT %s %s %s", hxs(m.DenomId), hxs(m.Id), e.addr(m.Burner))
	}
	e.s.Emit(op, vbRun(m))
}

func (e *vbEnv) didCreate(m *didtypes.MsgCreateDIDRequest) {
	m = roundTripCreate(m)
	op := fmt.Sprintf("vb.did create %s %s %s %s %s %s", hxs(m.Did), docTok(m.Document), hx(docBytes(m.Document)), hxs(m.VerificationMethodId), hx(m.Signature), e.addr(m.FromAddress))
	e.s.Emit(op, vbRun(m))
}
func (e *vbEnv) didUpdate(m *didtypes.MsgUpdateDIDRequest) {
	m = roundTripUpdate(m)
	op := fmt.Sprintf("vb.did update %s %s %s %s %s %s", hxs(m.Did), docTok(m.Document), hx(docBytes(m.Document)), hxs(m.VerificationMethodId), hx(m.Signature), e.addr(m.FromAddress))
	e.s.Emit(op, vbRun(m))
}
func (e *vbEnv) didDeactivate(m *didtypes.MsgDeactivateDIDRequest) {
	op := fmt.Sprintf("vb.did deactivate %s %s %s %s", hxs(m.Did), hxs(m.VerificationMethodId), hx(m.Signature), e.addr(m.FromAddress))
	e.s.Emit(op, vbRun(m))
}

var boundaryLens = []int{0, 1, 2, 69, 70, 71, 72, 127, 128, 129, 255, 256, 257, 4999, 5000, 5001, 6000}

func rep(c string, n int) string { return strings.Repeat(c, n) }

// strOfLen builds a string of exactly n bytes from the name alphabet.
func nameOfLen(rng *rand.Rand, n int) string {
	const al = "ABCXYZabcxyz0189._-"
	b := make([]byte, n)
	for i := range b {
		b[i] = al[rng.Intn(len(al))]
	}
	return string(b)
}

func init() {
	streams["validate"] = func(dir string, rng *rand.Rand, n int, tier string) {
		setConfigOnce()
		s := NewStream(dir, "validate")
		defer s.Close(dir, "validate")
		monC16StoredWithinLimits(s)
		e := &vbEnv{s: s, seen: map[string]bool{}}
		good := sdk.AccAddress([]byte("a-20-byte-address-xx")).String()
		good2 := sdk.AccAddress([]byte("b")).String() // 1-byte address
		// right prefix and checksum, but a payload no address can have: 0 bytes, 256 bytes (and the longest admitted, 255)
		emptyPayload, _ := bech32.ConvertAndEncode("panacea", []byte{})
		longPayload, _ := bech32.ConvertAndEncode("panacea", bytes.Repeat([]byte{7}, 256))
		maxPayload, _ := bech32.ConvertAndEncode("panacea", bytes.Repeat([]byte{7}, 255))
		addrs := []string{good, good2, strings.ToUpper(good), "", " ", "x", good + "x", " " + good, "cosmos1qypqxpq9qcrsszg2pvxq6rs0zqg3yyc5lzv7xu", good[:len(good)-1],
			emptyPayload, longPayload, maxPayload}
		pickA := func() string {
			if rng.Intn(3) == 0 {
				return addrs[rng.Intn(len(addrs))]
			}
			return good
		}

		// ---- AOL: every boundary length for every field, alone
		for _, l := range boundaryLens {
			t := nameOfLen(rng, l)
			e.aol(&aoltypes.MsgCreateTopicRequest{TopicName: t, Description: "d", OwnerAddress: good})
			e.aol(&aoltypes.MsgCreateTopicRequest{TopicName: "t", Description: rep("d", l), OwnerAddress: good})
			e.aol(&aoltypes.MsgAddWriterRequest{TopicName: "t", Moniker: nameOfLen(rng, l), Description: "", WriterAddress: good, OwnerAddress: good2})
			e.aol(&aoltypes.MsgAddWriterRequest{TopicName: "t", Moniker: "", Description: rep("\x00", l), WriterAddress: good, OwnerAddress: good2})
			e.aol(&aoltypes.MsgAddRecordRequest{TopicName: "t", Key: []byte(rep("k", l)), Value: nil, WriterAddress: good, OwnerAddress: good2})
			e.aol(&aoltypes.MsgAddRecordRequest{TopicName: "t", Key: nil, Value: []byte(rep("\xff", l)), WriterAddress: good, OwnerAddress: good2, FeePayerAddress: good})
			e.aol(&aoltypes.MsgDeleteWriterRequest{TopicName: t, WriterAddress: good, OwnerAddress: good2})
			// multi-byte runes straddling the limits: l bytes made of 2-byte and 3-byte characters
			if l >= 2 {
				mb := rep("é", l/2) + rep("x", l%2)
				e.aol(&aoltypes.MsgCreateTopicRequest{TopicName: "t", Description: mb, OwnerAddress: good})
				e.aol(&aoltypes.MsgAddWriterRequest{TopicName: "t", Moniker: "m", Description: mb, WriterAddress: good, OwnerAddress: good2})
				e.aol(&aoltypes.MsgAddRecordRequest{TopicName: "t", Key: []byte(mb), Value: []byte(mb), WriterAddress: good, OwnerAddress: good2})
			}
			if l >= 3 {
				mb := rep("가", l/3) + rep("x", l%3)
				e.aol(&aoltypes.MsgCreateTopicRequest{TopicName: "t", Description: mb, OwnerAddress: good})
			}
		}
		// all 256 byte values at first / middle / last position of topic name and moniker
		for c := 0; c < 256; c++ {
			ch := string([]byte{byte(c)})
			for _, t := range []string{ch, ch + "ab", "a" + ch + "b", "ab" + ch} {
				e.aol(&aoltypes.MsgCreateTopicRequest{TopicName: t, Description: "", OwnerAddress: good})
				e.aol(&aoltypes.MsgAddWriterRequest{TopicName: "t", Moniker: t, Description: "", WriterAddress: good, OwnerAddress: good2})
			}
		}
		// a valid 70-char name with one bad character at each position
		for pos := 0; pos < 70; pos += 7 {
			b := []byte(nameOfLen(rng, 70))
			b[pos] = '/'
			e.aol(&aoltypes.MsgCreateTopicRequest{TopicName: string(b), Description: "", OwnerAddress: good})
			b[pos] = '\n'
			e.aol(&aoltypes.MsgAddRecordRequest{TopicName: string(b), WriterAddress: good, OwnerAddress: good})
		}
		e.aol(&aoltypes.MsgCreateTopicRequest{TopicName: "topic\n", OwnerAddress: good})
		// addresses
		for _, a := range addrs {
			e.aol(&aoltypes.MsgCreateTopicRequest{TopicName: "t", OwnerAddress: a})
			e.aol(&aoltypes.MsgAddWriterRequest{TopicName: "t", WriterAddress: a, OwnerAddress: good})
			e.aol(&aoltypes.MsgAddWriterRequest{TopicName: "t", WriterAddress: good, OwnerAddress: a})
			e.aol(&aoltypes.MsgDeleteWriterRequest{TopicName: "t", WriterAddress: a, OwnerAddress: good})
			e.aol(&aoltypes.MsgAddRecordRequest{TopicName: "t", WriterAddress: a, OwnerAddress: good})
			e.aol(&aoltypes.MsgAddRecordRequest{TopicName: "t", WriterAddress: good, OwnerAddress: a})
			e.aol(&aoltypes.MsgAddRecordRequest{TopicName: "t", WriterAddress: good, OwnerAddress: good2, FeePayerAddress: a})
			// PNFT actors
			e.pnft(&pnfttypes.MsgCreateDenomRequest{Id: "d", Name: "n", Symbol: "s", Creator: a})
			e.pnft(&pnfttypes.MsgUpdateDenomRequest{Id: "d", Updater: a})
			e.pnft(&pnfttypes.MsgDeleteDenomRequest{Id: "d", Remover: a})
			e.pnft(&pnfttypes.MsgTransferDenomRequest{Id: "d", Sender: a, Receiver: good})
			e.pnft(&pnfttypes.MsgTransferDenomRequest{Id: "d", Sender: good, Receiver: a})
			e.pnft(&pnfttypes.MsgMintPNFTRequest{DenomId: "d", Id: "i", Name: "n", Creator: a})
			e.pnft(&pnfttypes.MsgTransferPNFTRequest{DenomId: "d", Id: "i", Sender: a, Receiver: good})
			e.pnft(&pnfttypes.MsgTransferPNFTRequest{DenomId: "d", Id: "i", Sender: good, Receiver: a})
			e.pnft(&pnfttypes.MsgBurnPNFTRequest{DenomId: "d", Id: "i", Burner: a})
		}
		// ---- PNFT: presence of each required field, odd identifiers
		ids := []string{"", "d", "a\x00b", "a/b", rep("x", 300), " ", "é"}
		for _, id := range ids {
			for _, other := range []string{"", "x"} {
				e.pnft(&pnfttypes.MsgCreateDenomRequest{Id: id, Name: other, Symbol: "s", Creator: good})
				e.pnft(&pnfttypes.MsgCreateDenomRequest{Id: "d", Name: "n", Symbol: other, Description: id, Uri: id, UriHash: id, Data: id, Creator: good})
				e.pnft(&pnfttypes.MsgUpdateDenomRequest{Id: id, Name: other, Updater: good})
				e.pnft(&pnfttypes.MsgDeleteDenomRequest{Id: id, Remover: good})
				e.pnft(&pnfttypes.MsgTransferDenomRequest{Id: id, Sender: good, Receiver: good2})
				e.pnft(&pnfttypes.MsgMintPNFTRequest{DenomId: id, Id: other, Name: "n", Creator: good})
				e.pnft(&pnfttypes.MsgMintPNFTRequest{DenomId: "d", Id: id, Name: other, Creator: good})
				e.pnft(&pnfttypes.MsgTransferPNFTRequest{DenomId: id, Id: other, Sender: good, Receiver: good2})
				e.pnft(&pnfttypes.MsgBurnPNFTRequest{DenomId: other, Id: id, Burner: good})
			}
		}
		// ---- DID: documents at and around every documented limit
		ids3, _ := mkIdents()
		it := ids3[0]
		base, _ := genDoc(rand.New(rand.NewSource(7)), it.did, it)
		sig := []byte{1}
		didIDs := []string{it.did, "", "did:panacea:", "did:panacea:" + rep("1", 31), "did:panacea:" + rep("1", 32), "did:panacea:" + rep("z", 44),
			"did:panacea:" + rep("z", 45), "did:panacea:" + rep("1", 31) + "0", "did:panacea:" + rep("1", 31) + "O", "did:panacea:" + rep("1", 31) + "I",
			"did:panacea:" + rep("1", 31) + "l", "did:other:" + rep("1", 32), "DID:panacea:" + rep("1", 32), it.did + "\n", " " + it.did, it.did + "é"}
		for _, d := range didIDs {
			doc := *base
			e.didCreate(&didtypes.MsgCreateDIDRequest{Did: d, Document: &doc, VerificationMethodId: "x", Signature: sig, FromAddress: good})
			doc2, _ := genDoc(rng, d, it)
			e.didCreate(&didtypes.MsgCreateDIDRequest{Did: d, Document: doc2, VerificationMethodId: "x", Signature: sig, FromAddress: good})
			e.didUpdate(&didtypes.MsgUpdateDIDRequest{Did: d, Document: doc2, VerificationMethodId: "x", Signature: sig, FromAddress: good})
			e.didDeactivate(&didtypes.MsgDeactivateDIDRequest{Did: d, VerificationMethodId: "x", Signature: sig, FromAddress: good})
		}
		// method-id suffixes: every length around 128 and every byte value
		mk := func(vmid string, pk string, typ string) *didtypes.DIDDocument {
			vm := &didtypes.VerificationMethod{Id: vmid, Type: typ, Controller: it.did, PublicKeyBase58: pk}
			d := didtypes.NewDIDDocument(it.did, didtypes.WithVerificationMethods([]*didtypes.VerificationMethod{vm}),
				didtypes.WithAuthentications([]didtypes.VerificationRelationship{rel(vmid)}))
			return &d
		}
		// the verdict on a method id depends on the DID it is used under, and on nothing the process validated before:
		// the same id first under its own DID then under a foreign one, and another id in the opposite order
		{
			it2 := ids3[1]
			mk2 := func(did, vmid string) *didtypes.DIDDocument {
				vm := &didtypes.VerificationMethod{Id: vmid, Type: didtypes.ES256K_2019, Controller: did, PublicKeyBase58: it.keys[0].b58}
				d := didtypes.NewDIDDocument(did, didtypes.WithVerificationMethods([]*didtypes.VerificationMethod{vm}),
					didtypes.WithAuthentications([]didtypes.VerificationRelationship{rel(vmid)}))
				return &d
			}
			for _, step := range [][2]string{{it2.did, it2.did + "#kA"}, {it.did, it2.did + "#kA"}, {it.did, it2.did + "#kB"}, {it2.did, it2.did + "#kB"}, {it2.did, it2.did + "#kA"}} {
				e.didCreate(&didtypes.MsgCreateDIDRequest{Did: step[0], Document: mk2(step[0], step[1]), VerificationMethodId: step[1], Signature: sig, FromAddress: good})
			}
		}
		for _, l := range []int{0, 1, 127, 128, 129, 300} {
			e.didCreate(&didtypes.MsgCreateDIDRequest{Did: it.did, Document: mk(it.did+"#"+rep("k", l), it.keys[0].b58, didtypes.ES256K_2019), VerificationMethodId: "x", Signature: sig, FromAddress: good})
		}
		for c := 0; c < 256; c++ {
			e.didCreate(&didtypes.MsgCreateDIDRequest{Did: it.did, Document: mk(it.did+"#k"+string([]byte{byte(c)})+"1", it.keys[0].b58, didtypes.ES256K_2019), VerificationMethodId: "x", Signature: sig, FromAddress: good})
			e.didCreate(&didtypes.MsgCreateDIDRequest{Did: it.did, Document: mk(it.did+"#k1", "2"+string([]byte{byte(c)}), didtypes.ES256K_2019), VerificationMethodId: "x", Signature: sig, FromAddress: good})
		}
		for _, vmid := range []string{it.did, it.did + "#", "#k1", it.did[:len(it.did)-1] + "#k1", it.did + "x#k1", "k1"} {
			e.didCreate(&didtypes.MsgCreateDIDRequest{Did: it.did, Document: mk(vmid, it.keys[0].b58, didtypes.ES256K_2019), VerificationMethodId: "x", Signature: sig, FromAddress: good})
		}
		for _, typ := range []string{"", "x", didtypes.ED25519_2018, didtypes.JSONWEBKEY_2020} {
			e.didCreate(&didtypes.MsgCreateDIDRequest{Did: it.did, Document: mk(it.did+"#k1", it.keys[0].b58, typ), VerificationMethodId: "x", Signature: sig, FromAddress: good})
			e.didCreate(&didtypes.MsgCreateDIDRequest{Did: it.did, Document: mk(it.did+"#k1", "", typ), VerificationMethodId: "x", Signature: sig, FromAddress: good})
		}
		// relationships: a plain reference must resolve in `verificationMethod` — not in a dedicated method of the same
		// or another relationship list, in whichever order they appear
		{
			listed := &didtypes.VerificationMethod{Id: it.did + "#k1", Type: didtypes.ES256K_2019, Controller: it.did, PublicKeyBase58: it.keys[0].b58}
			dedVM := didtypes.VerificationMethod{Id: it.did + "#x", Type: didtypes.ES256K_2019, Controller: it.did, PublicKeyBase58: it.keys[1].b58}
			shapes := [][]didtypes.VerificationRelationship{
				{rel(it.did + "#x")},             // dangling
				{ded(dedVM), rel(it.did + "#x")}, // dedicated, then a reference to it
				{rel(it.did + "#x"), ded(dedVM)}, // reference first
				{ded(dedVM)},                     // dedicated alone
				{ded(dedVM), rel(it.did + "#k1")},
				{rel(it.did + "#k1"), rel(it.did + "#k1")},
			}
			for which := 0; which < 5; which++ {
				for _, sh := range shapes {
					for _, other := range [][]didtypes.VerificationRelationship{nil, {ded(dedVM)}} {
						d := didtypes.NewDIDDocument(it.did, didtypes.WithVerificationMethods([]*didtypes.VerificationMethod{listed}),
							didtypes.WithAuthentications([]didtypes.VerificationRelationship{rel(it.did + "#k1")}))
						lists := []*[]didtypes.VerificationRelationship{&d.Authentications, &d.AssertionMethods, &d.KeyAgreements, &d.CapabilityInvocations, &d.CapabilityDelegations}
						*lists[which] = sh
						if other != nil {
							*lists[(which+1)%5] = other
						}
						dd := d
						e.didCreate(&didtypes.MsgCreateDIDRequest{Did: it.did, Document: &dd, VerificationMethodId: "x", Signature: sig, FromAddress: good})
					}
				}
			}
		}
		// random valid / mutated documents, missing pieces, addresses
		for i := 0; i < n; i++ {
			idt := ids3[rng.Intn(len(ids3))]
			doc, _ := genDoc(rng, idt.did, idt)
			if rng.Intn(2) == 0 {
				doc = mutateDoc(rng, doc)
			}
			if rng.Intn(3) == 0 {
				doc = mutateDoc(rng, doc)
			}
			sg := sig
			if rng.Intn(10) == 0 {
				sg = nil
			}
			did := idt.did
			if rng.Intn(10) == 0 {
				did = didIDs[rng.Intn(len(didIDs))]
			}
			switch rng.Intn(3) {
			case 0:
				m := &didtypes.MsgCreateDIDRequest{Did: did, Document: doc, VerificationMethodId: "x", Signature: sg, FromAddress: pickA()}
				if rng.Intn(20) == 0 {
					m.Document = nil
				}
				e.didCreate(m)
			case 1:
				m := &didtypes.MsgUpdateDIDRequest{Did: did, Document: doc, VerificationMethodId: "x", Signature: sg, FromAddress: pickA()}
				if rng.Intn(20) == 0 {
					m.Document = nil
				}
				e.didUpdate(m)
			default:
				e.didDeactivate(&didtypes.MsgDeactivateDIDRequest{Did: did, VerificationMethodId: "x", Signature: sg, FromAddress: pickA()})
			}
			// random AOL combination
			e.aol(&aoltypes.MsgAddRecordRequest{TopicName: nameOfLen(rng, boundaryLens[rng.Intn(7)]), Key: []byte(rep("k", boundaryLens[rng.Intn(8)])),
				Value: []byte(rep("v", boundaryLens[rng.Intn(len(boundaryLens))])), WriterAddress: pickA(), OwnerAddress: pickA(), FeePayerAddress: []string{"", pickA()}[rng.Intn(2)]})
			e.aol(&aoltypes.MsgAddWriterRequest{TopicName: nameOfLen(rng, boundaryLens[rng.Intn(7)]), Moniker: nameOfLen(rng, boundaryLens[rng.Intn(7)]),
				Description: rep("d", boundaryLens[rng.Intn(len(boundaryLens))]), WriterAddress: pickA(), OwnerAddress: pickA()})
		}
	}
}
