package main

// mon.c09.read-history: two replicas execute the same blocks; between the blocks only replica b serves read-only
// traffic (Denom / Denoms queries about *other* denoms, a simulation).  What a node has merely read may not influence
// what it then delivers: results (codes, data, gas, events), application hashes and the answers about the touched
// denom must be the same on both.  The denom that is transferred and updated carries no optional attributes, the one
// that is only read carries all of them.

import (
	"bytes"
	"fmt"
	"sort"
	"strings"
	"time"

	dbm "github.com/cometbft/cometbft-db"
	abci "github.com/cometbft/cometbft/abci/types"
	sdk "github.com/cosmos/cosmos-sdk/types"
	authtypes "github.com/cosmos/cosmos-sdk/x/auth/types"
	upgradetypes "github.com/cosmos/cosmos-sdk/x/upgrade/types"
	"github.com/medibloc/panacea-core/v2/app"
	aoltypes "github.com/medibloc/panacea-core/v2/x/aol/types"
	pnfttypes "github.com/medibloc/panacea-core/v2/x/pnft/types"
)

func monC09ReadHistory(s *Stream) {
	s.Emit("mon.c09.read-history", guard(func() string {
		accts := rtAccts()
		a, err := NewChain(dbm.NewMemDB(), tmpHome(), accts, 100000, nil)
		if err != nil {
			return "pass #no-chain"
		}
		b, _ := NewChain(dbm.NewMemDB(), tmpHome(), accts, 100000, nil)
		A, B, C := accts[0], accts[1], accts[2]
		tx := func(c *Chain, signer *Acct, m sdk.Msg) []byte {
			bz, err := c.BuildTx(TxSpec{Msgs: []sdk.Msg{m}, Signers: []SignerSpec{{Acct: signer}}, Fee: 1})
			if err != nil {
				panic(err)
			}
			return bz
		}
		denomOf := func(c *Chain, id string) string {
			bz, _ := (&pnfttypes.QueryDenomRequest{Id: id}).Marshal()
			r := c.App.Query(abci.RequestQuery{Path: "/panacea.pnft.v2.Query/Denom", Data: bz})
			return fmt.Sprintf("%d|%x", r.Code, r.Value)
		}
		t := a.Time
		step := func(name string, noise func(), txs func(c *Chain) [][]byte) string {
			t = t.Add(5 * time.Second)
			// replica a first, replica b (with its read traffic) afterwards: package-level state is shared by the twins of
			// this process, and in this order nothing b reads can leak into a
			ta := txs(a)
			ra, ha := runBlock(a, t, ta)
			if noise != nil {
				noise()
			}
			rb, hb := runBlock(b, t, txs(b))
			if strings.Join(ra, "\n") != strings.Join(rb, "\n") {
				return "fail #deliver-results-differ in " + name
			}
			if !bytes.Equal(ha, hb) {
				return "fail #apphash-differs in " + name
			}
			return ""
		}
		if r := step("setup", nil, func(c *Chain) [][]byte {
			return [][]byte{
				tx(c, A, &pnfttypes.MsgCreateDenomRequest{Id: "rich", Name: "n", Symbol: "s", Description: "a description", Uri: "ipfs://rich", UriHash: "hash-of-rich", Data: "payload of the rich denom", Creator: A.Bech()}),
				tx(c, B, &pnfttypes.MsgCreateDenomRequest{Id: "plain", Name: "n", Symbol: "s", Creator: B.Bech()}),
			}
		}); r != "" {
			return r
		}
		readRich := func() {
			for i := 0; i < 4; i++ {
				denomOf(b, "rich")
				b.App.Query(abci.RequestQuery{Path: "/panacea.pnft.v2.Query/Denoms", Data: nil})
			}
			if _, res, err := b.App.Simulate(tx(b, A, &pnfttypes.MsgUpdateDenomRequest{Id: "rich", Name: "m", Updater: A.Bech()})); err == nil && res != nil {
				simOK++
			}
		}
		if r := step("transfer", readRich, func(c *Chain) [][]byte {
			return [][]byte{tx(c, B, &pnfttypes.MsgTransferDenomRequest{Id: "plain", Sender: B.Bech(), Receiver: C.Bech()})}
		}); r != "" {
			return r
		}
		if r := step("update", readRich, func(c *Chain) [][]byte {
			return [][]byte{tx(c, C, &pnfttypes.MsgUpdateDenomRequest{Id: "plain", Name: "renamed", Updater: C.Bech()})}
		}); r != "" {
			return r
		}
		if da, db := denomOf(a, "plain"), denomOf(b, "plain"); da != db {
			return "fail #replicas-answer-differently-about-the-denom"
		}
		return "pass"
	}))
}

// mon.c09.node-config: two replicas that differ only in node-local configuration — the operator's `minimum-gas-prices`,
// which is a mempool (CheckTx) setting — execute the same blocks, with fees below, at and above the stricter node's
// minimum.  Results, hashes and the committed state must be the same.
func monC09NodeConfig(s *Stream) {
	s.Emit("mon.c09.node-config", guard(func() string {
		accts := rtAccts()
		a, err := NewChain(dbm.NewMemDB(), tmpHome(), accts, 100000000, nil)
		if err != nil {
			return "pass #no-chain"
		}
		nodeLocalMinGasPrices = "5" + feeDenom
		b, err := NewChain(dbm.NewMemDB(), tmpHome(), accts, 100000000, nil)
		nodeLocalMinGasPrices = ""
		if err != nil {
			return "pass #no-chain"
		}
		t := a.Time
		for bl, fees := range [][]int64{{0, 1, 2000000}, {10000000, 3, 0}, {1, 1, 1}} {
			t = t.Add(5 * time.Second)
			var txs [][]byte
			for i, fee := range fees {
				m := &aoltypes.MsgCreateTopicRequest{TopicName: fmt.Sprintf("t%d%d", bl, i), Description: "d", OwnerAddress: accts[i].Bech()}
				bz, err := a.BuildTx(TxSpec{Msgs: []sdk.Msg{m}, Signers: []SignerSpec{{Acct: accts[i]}}, Fee: fee, Gas: 1000000})
				if err != nil {
					return "pass #cannot-build"
				}
				txs = append(txs, bz)
			}
			ra, ha := runBlock(a, t, txs)
			rb, hb := runBlock(b, t, txs)
			if strings.Join(ra, "\n") != strings.Join(rb, "\n") {
				return fmt.Sprintf("fail #deliver-results-differ in block %d", bl+1)
			}
			if !bytes.Equal(ha, hb) {
				return fmt.Sprintf("fail #apphash-differs in block %d", bl+1)
			}
		}
		if dumpsOf(a, a.QueryCtx()) != dumpsOf(b, b.QueryCtx()) {
			return "fail #committed-state-differs"
		}
		return "pass"
	}))
}

// mon.c09.upgrade-replicas: several replicas execute the same blocks across the latest software upgrade (the handler
// runs in every process).  Application hashes, block results and the account listing (addresses with their account
// numbers) must be the same on all of them at every height.
func monC09UpgradeReplicas(s *Stream) {
	s.Emit("mon.c09.upgrade-replicas", guard(func() string {
		accts := rtAccts()
		const n = 5
		var cs []*Chain
		for i := 0; i < n; i++ {
			c, err := NewChain(dbm.NewMemDB(), tmpHome(), accts, 100000, nil)
			if err != nil {
				return "pass #no-chain"
			}
			cs = append(cs, c)
		}
		plan := app.Upgrades[len(app.Upgrades)-1].UpgradeName
		t := cs[0].Time
		accountsOf := func(c *Chain) string {
			var parts []string
			c.App.AccountKeeper.IterateAccounts(c.QueryCtx(), func(a authtypes.AccountI) bool {
				parts = append(parts, fmt.Sprintf("%s#%d", a.GetAddress().String(), a.GetAccountNumber()))
				return false
			})
			sort.Strings(parts)
			return strings.Join(parts, ",")
		}
		planHeight := cs[0].Height + 2 // scheduled inside the next block: the binary must meet the plan at the block after it
		for bl := 0; bl < 5; bl++ {
			t = t.Add(5 * time.Second)
			var ref []string
			var refHash []byte
			refAccts := ""
			for i, c := range cs {
				var rs []string
				var h []byte
				if bl == 0 {
					c.Begin(t)
					if err := c.App.UpgradeKeeper.ScheduleUpgrade(c.DeliverCtx(), upgradetypes.Plan{Name: plan, Height: planHeight}); err != nil {
						return "pass #cannot-schedule " + err.Error()
					}
					c.End()
					h = c.Commit()
				} else {
					rs, h = runBlock(c, t, nil) // a halt in the upgrade block is a panic, caught by guard
				}
				ac := accountsOf(c)
				if i == 0 {
					ref, refHash, refAccts = rs, h, ac
					continue
				}
				if strings.Join(rs, "\n") != strings.Join(ref, "\n") {
					return fmt.Sprintf("fail #block-results-differ between replicas at height %d", c.Height)
				}
				if !bytes.Equal(h, refHash) {
					return fmt.Sprintf("fail #apphash-differs between replicas at height %d", c.Height)
				}
				if ac != refAccts {
					return fmt.Sprintf("fail #account-listing-differs between replicas at height %d", c.Height)
				}
			}
		}
		if cs[0].App.UpgradeKeeper.GetDoneHeight(cs[0].QueryCtx(), plan) != planHeight {
			return "pass #upgrade-did-not-run"
		}
		return "pass"
	}))
}
