package main

// mon.c19.database-of-the-upgrade-path: a node that upgraded through the releases in order has, in its database,
// exactly the stores the descriptors declare: those of the release before the first descriptor, plus every Added,
// minus every Deleted.  The in-process chain is born on this binary, so its database has whatever this binary
// mounts; here the root commit record of the latest version is rewritten to list only the declared stores — the
// database such a node really has — and the binary must still open it and go on.  (On a tree where every mounted
// store is declared nothing is removed.)  A start that dies is attributed to this op by the in-flight marker.

import (
	"bytes"
	"encoding/json"
	"fmt"
	"math/rand"
	"time"

	dbm "github.com/cometbft/cometbft-db"
	storetypes "github.com/cosmos/cosmos-sdk/store/types"
	upgradetypes "github.com/cosmos/cosmos-sdk/x/upgrade/types"
	"github.com/medibloc/panacea-core/v2/app"
)

// stores of the release before the first upgrade descriptor (history, not derivable from the tree; the same
// constant as `baseline` in lean/Panacea/Properties/C19.lean)
var upgradeBaseline = []string{"acc", "bank", "staking", "mint", "distribution", "slashing", "gov", "params", "upgrade", "evidence",
	"capability", "ibc", "transfer", "aol", "did", "burn", "token", "wasm"}

func monC19UpgradePathDatabase(s *Stream) {
	name := "mon.c19.database-of-the-upgrade-path"
	s.Inflight(name)
	s.Emit(name, guard(func() string {
		declared := map[string]bool{}
		for _, st := range upgradeBaseline {
			declared[st] = true
		}
		for _, u := range app.Upgrades {
			for _, d := range u.StoreUpgrades.Deleted {
				delete(declared, d)
			}
			for _, a := range u.StoreUpgrades.Added {
				declared[a] = true
			}
		}
		accts := rtAccts()
		db := dbm.NewMemDB()
		a, err := NewChain(db, tmpHome(), accts, 100000, nil)
		if err != nil {
			return "fail #genesis " + err.Error()
		}
		t := a.Time
		for i := 0; i < 3; i++ {
			t = t.Add(5 * time.Second)
			runBlock(a, t, nil)
		}
		height, hash := a.App.LastBlockHeight(), a.App.LastCommitID().Hash
		key := []byte(fmt.Sprintf("s/%d", height))
		bz, err := db.Get(key)
		if err != nil || bz == nil {
			return "fail #no-commit-info"
		}
		var ci storetypes.CommitInfo
		if err := ci.Unmarshal(bz); err != nil {
			return "fail #commit-info " + err.Error()
		}
		var kept []storetypes.StoreInfo
		dropped := ""
		for _, si := range ci.StoreInfos {
			if declared[si.Name] {
				kept = append(kept, si)
			} else {
				dropped += " " + si.Name
			}
		}
		if dropped != "" {
			ci.StoreInfos = kept
			nb, _ := ci.Marshal()
			if err := db.SetSync(key, nb); err != nil {
				return "fail #rewrite " + err.Error()
			}
		}
		a = reopen(a) // exits the process when the stores cannot be loaded
		if a.App.LastBlockHeight() != height {
			return "fail #did-not-open-the-database-of-the-upgrade-path (undeclared:" + dropped + ")"
		}
		if dropped == "" && !bytes.Equal(a.App.LastCommitID().Hash, hash) {
			return "fail #apphash-after-reopen"
		}
		t = t.Add(5 * time.Second)
		runBlock(a, t, nil)
		if dropped != "" {
			return "fail #binary-mounts-stores-no-descriptor-declares:" + dropped
		}
		return "pass"
	}))
}

// mon.c19.genesis-without-upgrade-section: x/upgrade has no genesis state of its own (its default section is `{}`), so
// a genesis file may leave the section out.  The chain started from such a file must still have its module versions
// recorded, and the scheduled upgrade must run through on it without halting.
func monC19GenesisWithoutUpgradeSection(s *Stream) {
	name := "mon.c19.genesis-without-upgrade-section"
	s.Inflight(name)
	s.Emit(name, guard(func() string {
		accts := rtAccts()
		a, err := NewChain(dbm.NewMemDB(), tmpHome(), accts, 100000, map[string]json.RawMessage{"upgrade": nil})
		if err != nil {
			return "fail #genesis-without-upgrade-section-does-not-start " + err.Error()[:min(80, len(err.Error()))]
		}
		t := a.Time
		rng := rand.New(rand.NewSource(19))
		for i := 0; i < 3; i++ {
			t = t.Add(5 * time.Second)
			runBlock(a, t, genTxs(a, accts, rng, 2))
		}
		want := a.App.ModuleManager.GetVersionMap()
		got := a.App.UpgradeKeeper.GetModuleVersionMap(a.QueryCtx())
		for m, v := range want {
			if got[m] != v {
				return fmt.Sprintf("fail #module-version-not-recorded %s: stored %d, binary %d", m, got[m], v)
			}
		}
		planHeight := a.Height + 2
		t = t.Add(5 * time.Second)
		a.Begin(t)
		if err := a.App.UpgradeKeeper.ScheduleUpgrade(a.DeliverCtx(), upgradetypes.Plan{Name: "v2.2.1", Height: planHeight}); err != nil {
			return "fail #schedule " + err.Error()
		}
		a.End()
		a.Commit()
		before := ""
		for a.Height < planHeight+1 {
			t = t.Add(5 * time.Second)
			if a.Height+1 == planHeight {
				before = dumpsOf(a, a.QueryCtx())
			}
			runBlock(a, t, nil) // a halt in the upgrade block is a panic, caught by guard
		}
		if a.App.UpgradeKeeper.GetDoneHeight(a.QueryCtx(), "v2.2.1") != planHeight {
			return "fail #done-height-not-recorded"
		}
		if dumpsOf(a, a.QueryCtx()) != before {
			return "fail #custom-data-changed-by-upgrade"
		}
		return "pass"
	}))
}
