package main

// mon.c19.database-of-the-upgrade-path: a node that upgraded through the releases in order has, in its database,
// exactly the stores the descriptors declare: those of the release before the first descriptor, plus every Added,
// minus every Deleted.  The in-process chain is born on this binary, so its database has whatever this binary
// mounts; here the root commit record of the latest version is rewritten to list only the declared stores — the
// database such a node really has — and the binary must still open it and go on.  (On a tree where every mounted
// store is declared nothing is removed.)  A start that dies is attributed to this op by the in-flight marker.

import (
	"bytes"
	"fmt"
	"time"

	dbm "github.com/cometbft/cometbft-db"
	storetypes "github.com/cosmos/cosmos-sdk/store/types"
	"github.com/medibloc/panacea-core/v2/app"
)

// stores of the release before the first upgrade descriptor (history, not derivable from the tree; the same
// constant as `baseline` in lean/Panacea/Properties/C19.lean)
var upgradeBaseline = []string{"acc", "bank", "staking", "mint", "distribution", "slashing", "gov", "params", "upgrade", "evidence",
	"capability", "ibc", "transfer", "aol", "did", "burn", "token", "wasm"}

func monC19UpgradePathDatabase(s *Stream) {
	name := "mon.c19.database-of-the-upgrade-path"
	s.Inflight(name)
	s.Emit(name, guard(func() string {
		declared := map[string]bool{}
		for _, st := range upgradeBaseline {
			declared[st] = true
		}
		for _, u := range app.Upgrades {
			for _, d := range u.StoreUpgrades.Deleted {
				delete(declared, d)
			}
			for _, a := range u.StoreUpgrades.Added {
				declared[a] = true
			}
		}
		accts := rtAccts()
		db := dbm.NewMemDB()
		a, err := NewChain(db, tmpHome(), accts, 100000, nil)
		if err != nil {
			return "fail #genesis " + err.Error()
		}
		t := a.Time
		for i := 0; i < 3; i++ {
			t = t.Add(5 * time.Second)
			runBlock(a, t, nil)
		}
		height, hash := a.App.LastBlockHeight(), a.App.LastCommitID().Hash
		key := []byte(fmt.Sprintf("s/%d", height))
		bz, err := db.Get(key)
		if err != nil || bz == nil {
			return "fail #no-commit-info"
		}
		var ci storetypes.CommitInfo
		if err := ci.Unmarshal(bz); err != nil {
			return "fail #commit-info " + err.Error()
		}
		var kept []storetypes.StoreInfo
		dropped := ""
		for _, si := range ci.StoreInfos {
			if declared[si.Name] {
				kept = append(kept, si)
			} else {
				dropped += " " + si.Name
			}
		}
		if dropped != "" {
			ci.StoreInfos = kept
			nb, _ := ci.Marshal()
			if err := db.SetSync(key, nb); err != nil {
				return "fail #rewrite " + err.Error()
			}
		}
		a = reopen(a) // exits the process when the stores cannot be loaded
		if a.App.LastBlockHeight() != height {
			return "fail #did-not-open-the-database-of-the-upgrade-path (undeclared:" + dropped + ")"
		}
		if dropped == "" && !bytes.Equal(a.App.LastCommitID().Hash, hash) {
			return "fail #apphash-after-reopen"
		}
		t = t.Add(5 * time.Second)
		runBlock(a, t, nil)
		if dropped != "" {
			return "fail #binary-mounts-stores-no-descriptor-declares:" + dropped
		}
		return "pass"
	}))
}
