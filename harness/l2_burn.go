package main

// Stream "burn": coins of several denominations reach the burn address by plain sends and by vesting-account
// creation (locked coins); every block's real EndBlock/Commit runs the x/burn end-blocker; balances, spendable
// amounts and supply deltas are dumped after every block and the crisis invariants are asserted.
// Against the Lean model `Bank.burnEndBlock`.

import (
	"fmt"
	"math/rand"
	"strings"
	"time"

	"github.com/cosmos/cosmos-sdk/crypto/keys/secp256k1"
	sdk "github.com/cosmos/cosmos-sdk/types"
	authtypes "github.com/cosmos/cosmos-sdk/x/auth/types"
	"github.com/cosmos/cosmos-sdk/x/auth/vesting"
	vestingtypes "github.com/cosmos/cosmos-sdk/x/auth/vesting/types"
	banktypes "github.com/cosmos/cosmos-sdk/x/bank/types"
	distrtypes "github.com/cosmos/cosmos-sdk/x/distribution/types"
	govtypes "github.com/cosmos/cosmos-sdk/x/gov/types"
	govv1 "github.com/cosmos/cosmos-sdk/x/gov/types/v1"
	burntypes "github.com/medibloc/panacea-core/v2/x/burn/types"
)

var burnDenoms = []string{"aaa", feeDenom, "zzz"}

type burnEnv struct {
	c       *Chain
	s       *Stream
	accts   []*Acct
	burn    sdk.AccAddress
	module  sdk.AccAddress
	supply0 map[string]sdk.Int
	tracked []sdk.AccAddress
}

func newBurnEnv(s *Stream) *burnEnv {
	genesisExtraCoins = sdk.NewCoins(sdk.NewInt64Coin("aaa", 100000), sdk.NewCoin("zzz", hugeInt("1000000000000000000000000000000")))
	defer func() { genesisExtraCoins = nil }()
	accts := []*Acct{newAcct("A", []byte("burn-A")), newAcct("B", []byte("burn-B"))}
	c, err := NewChain(memDB(), tmpHome(), accts, 100000, nil)
	if err != nil {
		panic(err)
	}
	c.Begin(c.Time.Add(time.Second))
	e := &burnEnv{c: c, s: s, accts: accts, burn: sdk.MustAccAddressFromBech32(burntypes.BurnAddress),
		module: authtypes.NewModuleAddress(burntypes.ModuleName), supply0: map[string]sdk.Int{}}
	for _, d := range burnDenoms {
		e.supply0[d] = c.App.BankKeeper.GetSupply(c.DeliverCtx(), d).Amount
	}
	e.tracked = []sdk.AccAddress{accts[0].Addr, accts[1].Addr, e.burn, e.module}
	return e
}

func (e *burnEnv) header() {
	e.s.Emit("reset", "-")
	var dl [][]byte
	for _, d := range burnDenoms {
		dl = append(dl, []byte(d))
	}
	var parts []string
	ctx := e.c.DeliverCtx()
	for _, a := range e.tracked {
		for _, d := range burnDenoms {
			parts = append(parts, fmt.Sprintf("%s:%s:%s", hx(a), hxs(d), e.c.App.BankKeeper.GetBalance(ctx, a, d).Amount.String()))
		}
	}
	e.s.Emit(fmt.Sprintf("bank.genesis burn=%s module=%s denoms=%s bals=%s", hx(e.burn), hx(e.module), hxList(dl), strings.Join(parts, ",")), "-")
}

func hugeInt(dec string) sdk.Int {
	v, ok := sdk.NewIntFromString(dec)
	if !ok {
		panic("bad int " + dec)
	}
	return v
}

func (e *burnEnv) send(from, to sdk.AccAddress, d string, amts string) {
	amt := hugeInt(amts)
	op := fmt.Sprintf("bank.send %s %s %s %s", hx(from), hx(to), hxs(d), amts)
	e.s.Emit(op, guard(func() string {
		sub, write := e.c.DeliverCtx().CacheContext()
		if err := e.c.App.BankKeeper.SendCoins(sub, from, to, sdk.NewCoins(sdk.NewCoin(d, amt))); err != nil {
			return errAns(err)
		}
		write()
		return "ok"
	}))
}

// vest creates a delayed vesting account at `to` funded by `from` (all coins locked until far in the future).
func (e *burnEnv) vest(from *Acct, to sdk.AccAddress, d string, amt int64) bool {
	sub, write := e.c.DeliverCtx().CacheContext()
	ms := vesting.NewMsgServerImpl(e.c.App.AccountKeeper, e.c.App.BankKeeper)
	msg := vestingtypes.NewMsgCreateVestingAccount(from.Addr, to, sdk.NewCoins(sdk.NewInt64Coin(d, amt)), e.c.Time.Add(100000*time.Hour).Unix(), true)
	if _, err := ms.CreateVestingAccount(sdk.WrapSDKContext(sub), msg); err != nil {
		return false
	}
	write()
	e.s.Emit(fmt.Sprintf("bank.vest %s %s %s %d", hx(from.Addr), hx(to), hxs(d), amt), "-")
	return true
}

func (e *burnEnv) endBlock() {
	e.s.Emit("endblock", guard(func() string {
		e.c.End()
		e.c.Commit()
		e.c.Begin(e.c.Time.Add(5 * time.Second))
		return "ok"
	}))
}

func (e *burnEnv) state() {
	e.s.Emit("bank.state", guard(func() string {
		ctx := e.c.DeliverCtx()
		var parts []string
		for _, a := range e.tracked {
			for _, d := range burnDenoms {
				parts = append(parts, e.c.App.BankKeeper.GetBalance(ctx, a, d).Amount.String())
			}
		}
		var sp, ds []string
		spend := e.c.App.BankKeeper.SpendableCoins(ctx, e.burn)
		for _, d := range burnDenoms {
			sp = append(sp, spend.AmountOf(d).String())
			ds = append(ds, e.supply0[d].Sub(e.c.App.BankKeeper.GetSupply(ctx, d).Amount).String())
		}
		return fmt.Sprintf("ok bals=%s burnSpendable=%s burned=%s", strings.Join(parts, ","), strings.Join(sp, ","), strings.Join(ds, ","))
	}))
}

// monInvariants: the registered chain invariants (bank total supply, ...) hold.
func (e *burnEnv) monInvariants() {
	e.s.Emit("mon.c07.inv", guard(func() string {
		failed := ""
		func() {
			defer func() {
				if r := recover(); r != nil {
					failed = fmt.Sprint(r)
				}
			}()
			e.c.App.CrisisKeeper.AssertInvariants(e.c.DeliverCtx())
		}()
		if failed != "" {
			return "fail #" + strings.ReplaceAll(failed, "\n", " ")[:120]
		}
		return "pass"
	}))
}

// monEndBlockMovers: coins that reach the burn address while the block is being ended (here: a passed governance
// proposal spending part of the community pool to the burn address, executed by x/gov's end-blocker) are burned in
// that same block — the burn has to run after every end-blocker that can move coins.
func monEndBlockMovers(s *Stream) {
	s.Emit("mon.c07.endblock-movers", guard(func() string {
		old := genesisExtraCoins
		genesisExtraCoins = nil
		defer func() { genesisExtraCoins = old }()
		accts := []*Acct{newAcct("A", []byte("gov-A"))}
		c, err := NewChain(memDB(), tmpHome(), accts, 1000000000, nil)
		if err != nil {
			return "pass #no-chain " + err.Error()
		}
		burnAddr := sdk.MustAccAddressFromBech32(burntypes.BurnAddress)
		del := sdk.AccAddress(secp256k1.GenPrivKeyFromSecret([]byte("verif-delegator")).PubKey().Address())
		t0 := c.Time.Add(5 * time.Second)
		c.Begin(t0)
		ctx := c.DeliverCtx()
		if err := c.App.DistrKeeper.FundCommunityPool(ctx, sdk.NewCoins(sdk.NewInt64Coin(feeDenom, 1000)), accts[0].Addr); err != nil {
			return "pass #cannot-fund-pool " + err.Error()
		}
		spend := &distrtypes.MsgCommunityPoolSpend{Authority: authtypes.NewModuleAddress(govtypes.ModuleName).String(),
			Recipient: burntypes.BurnAddress, Amount: sdk.NewCoins(sdk.NewInt64Coin(feeDenom, 400))}
		prop, err := c.App.GovKeeper.SubmitProposal(ctx, []sdk.Msg{spend}, "", "burn part of the community pool", "spend to the burn address", del)
		if err != nil {
			return "pass #cannot-submit " + err.Error()
		}
		started, err := c.App.GovKeeper.AddDeposit(ctx, prop.Id, del, c.App.GovKeeper.GetParams(ctx).MinDeposit)
		if err != nil || !started {
			return fmt.Sprintf("pass #no-voting-period started=%v err=%v", started, err)
		}
		if err := c.App.GovKeeper.AddVote(ctx, prop.Id, del, govv1.NewNonSplitVoteOption(govv1.OptionYes), ""); err != nil {
			return "pass #cannot-vote " + err.Error()
		}
		c.End()
		c.Commit()
		vp := *c.App.GovKeeper.GetParams(c.QueryCtx()).VotingPeriod
		c.Begin(t0.Add(vp + time.Minute))
		ctx = c.DeliverCtx()
		sup0 := c.App.BankKeeper.GetSupply(ctx, feeDenom).Amount
		c.End()
		ctx = c.DeliverCtx()
		p2, ok := c.App.GovKeeper.GetProposal(ctx, prop.Id)
		if !ok || p2.Status != govv1.StatusPassed {
			return fmt.Sprintf("pass #proposal-not-passed status=%v", p2.Status)
		}
		if left := c.App.BankKeeper.SpendableCoins(ctx, burnAddr); !left.IsZero() {
			return "fail #burn-address-not-empty-at-end-of-block " + left.String()
		}
		if got := sup0.Sub(c.App.BankKeeper.GetSupply(ctx, feeDenom).Amount); !got.Equal(sdk.NewInt(400)) {
			return "fail #supply-did-not-shrink-by-what-reached-the-burn-address shrank=" + got.String()
		}
		c.Commit()
		return "pass"
	}))
}

// monModuleAccountRecipient: on a chain that has never burnt anything, an ordinary signed MsgSend to the burn *module*
// account (the transit account of the end-blocker, created lazily by the first burn) is either refused, or harmless:
// the blocks that follow, with coins sent to the burn address, still end (no halt), leave the burn address empty and
// shrink the supply by exactly what was sent there.
func monModuleAccountRecipient(s *Stream, name string) {
	s.Emit(name, guard(func() string {
		old := genesisExtraCoins
		genesisExtraCoins = nil
		defer func() { genesisExtraCoins = old }()
		accts := []*Acct{newAcct("A", []byte("macc-A"))}
		c, err := NewChain(memDB(), tmpHome(), accts, 1000000, nil)
		if err != nil {
			return "pass #no-chain " + err.Error()
		}
		burnAddr := sdk.MustAccAddressFromBech32(burntypes.BurnAddress)
		module := authtypes.NewModuleAddress(burntypes.ModuleName)
		send := func(to sdk.AccAddress, amt int64) (uint32, string) {
			tx, err := c.BuildTx(TxSpec{Msgs: []sdk.Msg{banktypes.NewMsgSend(accts[0].Addr, to, sdk.NewCoins(sdk.NewInt64Coin(feeDenom, amt)))},
				Signers: []SignerSpec{{Acct: accts[0]}}, Fee: 1})
			if err != nil {
				return 1, err.Error()
			}
			r := c.Deliver(tx)
			return r.Code, r.Log
		}
		t := c.Time.Add(5 * time.Second)
		c.Begin(t)
		code, _ := send(module, 1)
		c.End()
		c.Commit()
		t = t.Add(5 * time.Second)
		c.Begin(t)
		sup0 := c.App.BankKeeper.GetSupply(c.DeliverCtx(), feeDenom).Amount
		if code2, log := send(burnAddr, 500); code2 != 0 {
			return "pass #send-to-burn-address-refused " + log
		}
		c.End() // a panic here is a halted chain: caught by guard, reported as a failure
		ctx := c.DeliverCtx()
		if left := c.App.BankKeeper.SpendableCoins(ctx, burnAddr); !left.IsZero() {
			return "fail #burn-address-not-empty-at-end-of-block " + left.String()
		}
		if got := sup0.Sub(c.App.BankKeeper.GetSupply(ctx, feeDenom).Amount); !got.Equal(sdk.NewInt(500)) {
			return "fail #supply-did-not-shrink-by-what-reached-the-burn-address shrank=" + got.String()
		}
		c.Commit()
		if code == 0 {
			return "pass #module-account-accepted-the-transfer"
		}
		return "pass"
	}))
}

// monInvariantCheckPeriod: a node run with --inv-check-period asserts the registered invariants at the start of
// EndBlock (crisis is the first end-blocker, before the burn), and every node asserts them at the end of InitGenesis.
// Neither may halt because coins are waiting at the burn address: (a) a genesis that funds the burn address starts and
// block 1 burns the coins, (b) in a block that carries a transfer to the burn address the invariants hold before
// the end-blockers run.
func monInvariantCheckPeriod(s *Stream) {
	s.Emit("mon.c07.invariant-check-period", guard(func() string {
		old := genesisExtraCoins
		genesisExtraCoins = nil
		defer func() { genesisExtraCoins = old }()
		burnAddr := sdk.MustAccAddressFromBech32(burntypes.BurnAddress)
		A := newAcct("A", []byte("inv-A"))
		c, err := NewChain(memDB(), tmpHome(), []*Acct{A, {Name: "burn", Addr: burnAddr}}, 1000000, nil)
		if err != nil {
			return "fail #a-genesis-that-funds-the-burn-address-does-not-start " + strings.ReplaceAll(err.Error(), "\n", " ")[:min(100, len(err.Error()))]
		}
		t := c.Time.Add(5 * time.Second)
		c.Begin(t)
		sup0 := c.App.BankKeeper.GetSupply(c.DeliverCtx(), feeDenom).Amount
		c.End()
		ctx := c.DeliverCtx()
		if left := c.App.BankKeeper.SpendableCoins(ctx, burnAddr); !left.IsZero() {
			return "fail #burn-address-not-empty-after-block-1 " + left.String()
		}
		if got := sup0.Sub(c.App.BankKeeper.GetSupply(ctx, feeDenom).Amount); !got.Equal(sdk.NewInt(1000000)) {
			return "fail #supply-did-not-shrink-by-the-genesis-allocation shrank=" + got.String()
		}
		c.Commit()
		t = t.Add(5 * time.Second)
		c.Begin(t)
		if err := c.App.BankKeeper.SendCoins(c.DeliverCtx(), A.Addr, burnAddr, sdk.NewCoins(sdk.NewInt64Coin(feeDenom, 5))); err != nil {
			return "pass #cannot-send " + err.Error()
		}
		failed := ""
		func() {
			defer func() {
				if r := recover(); r != nil {
					failed = fmt.Sprint(r)
				}
			}()
			c.App.CrisisKeeper.AssertInvariants(c.DeliverCtx()) // what crisis.EndBlocker does every inv-check-period blocks
		}()
		if failed != "" {
			return "fail #invariant-check-before-the-end-blockers-halts " + strings.ReplaceAll(failed, "\n", " ")[:min(100, len(failed))]
		}
		c.End()
		c.Commit()
		return "pass"
	}))
}

func burnHistory(s *Stream, rng *rand.Rand, steps int, allowVest bool) {
	e := newBurnEnv(s)
	e.header()
	A, B := e.accts[0], e.accts[1]
	vested := false
	for i := 0; i < steps; i++ {
		d := burnDenoms[rng.Intn(3)]
		amt := []string{"1", "1", "7", "100", "99999", "1000000"}[rng.Intn(6)]
		if d == "zzz" && rng.Intn(2) == 0 {
			// huge amounts: around 2^63 (int64 boundary), 2^64, 18-decimals vouchers
			amt = []string{"9223372036854775807", "9223372036854775808", "18446744073709551616", "10000000000000000000", "123456789012345678901234567"}[rng.Intn(5)]
		}
		switch r := rng.Intn(12); {
		case r < 5:
			from := []*Acct{A, B}[rng.Intn(2)]
			e.send(from.Addr, e.burn, d, amt)
		case r < 7:
			e.send(A.Addr, B.Addr, d, amt)
		case r == 7 && allowVest && !vested:
			// vesting account creation at the burn address: only possible while no account exists there
			if e.vest(A, e.burn, d, []int64{5, 777}[rng.Intn(2)]) {
				vested = true
			}
		default:
			e.endBlock()
			e.state()
		}
	}
	e.endBlock()
	e.state()
	e.monInvariants()
}

// monSendDisabled: the bank's send switch (per denomination and the default) guards bank *messages* only; coins still
// reach the burn address by other routes (module payouts such as withdrawn rewards, keeper-level transfers, genesis
// balances).  With transfers of the denomination switched off the burn address must still be a sink: empty at the end
// of the block, the supply smaller by what arrived.
func monSendDisabled(s *Stream) {
	for _, how := range []string{"denom-switch", "default-switch"} {
		how := how
		s.Emit("mon.c07.send-disabled "+how, guard(func() string {
			old := genesisExtraCoins
			genesisExtraCoins = nil
			defer func() { genesisExtraCoins = old }()
			burnAddr := sdk.MustAccAddressFromBech32(burntypes.BurnAddress)
			A := newAcct("A", []byte("sw-A"))
			c, err := NewChain(memDB(), tmpHome(), []*Acct{A}, 1000000, nil)
			if err != nil {
				return "pass #no-chain"
			}
			t := c.Time.Add(5 * time.Second)
			c.Begin(t)
			ctx := c.DeliverCtx()
			if how == "denom-switch" {
				c.App.BankKeeper.SetSendEnabled(ctx, feeDenom, false)
			} else {
				p := c.App.BankKeeper.GetParams(ctx)
				p.DefaultSendEnabled = false
				if err := c.App.BankKeeper.SetParams(ctx, p); err != nil {
					return "pass #cannot-set-params"
				}
			}
			if c.App.BankKeeper.IsSendEnabledDenom(ctx, feeDenom) {
				return "pass #switch-not-off"
			}
			c.End()
			c.Commit()
			t = t.Add(5 * time.Second)
			c.Begin(t)
			ctx = c.DeliverCtx()
			sup0 := c.App.BankKeeper.GetSupply(ctx, feeDenom).Amount
			if err := c.App.BankKeeper.SendCoins(ctx, A.Addr, burnAddr, sdk.NewCoins(sdk.NewInt64Coin(feeDenom, 7))); err != nil {
				return "pass #cannot-send " + err.Error()
			}
			c.End()
			ctx = c.DeliverCtx()
			if left := c.App.BankKeeper.SpendableCoins(ctx, burnAddr); !left.IsZero() {
				return "fail #burn-address-not-empty-at-end-of-block " + left.String()
			}
			if got := sup0.Sub(c.App.BankKeeper.GetSupply(ctx, feeDenom).Amount); !got.Equal(sdk.NewInt(7)) {
				return "fail #supply-did-not-shrink-by-what-reached-the-burn-address shrank=" + got.String()
			}
			c.Commit()
			return "pass"
		}))
	}
}

// monWholeSupply: the whole remaining supply of a denomination arrives at the burn address (the last units of a voucher,
// a denomination with a single holder): it is burned like any other amount — burn address empty, supply zero.
func monWholeSupply(s *Stream) {
	s.Emit("mon.c07.whole-supply", guard(func() string {
		old := genesisExtraCoins
		genesisExtraCoins = nil
		defer func() { genesisExtraCoins = old }()
		burnAddr := sdk.MustAccAddressFromBech32(burntypes.BurnAddress)
		A := newAcct("A", []byte("ws-A"))
		c, err := NewChain(memDB(), tmpHome(), []*Acct{A}, 1000000, nil)
		if err != nil {
			return "pass #no-chain"
		}
		const voucher = "ibc/27394FB092D2ECCD56123C74F36E4C1F926001CEADA9CA97EA622B25F41E5EB2"
		t := c.Time.Add(5 * time.Second)
		c.Begin(t)
		ctx := c.DeliverCtx()
		coins := sdk.NewCoins(sdk.NewInt64Coin(voucher, 1000))
		if err := c.App.BankKeeper.MintCoins(ctx, "mint", coins); err != nil {
			return "pass #cannot-mint " + err.Error()
		}
		if err := c.App.BankKeeper.SendCoinsFromModuleToAccount(ctx, "mint", A.Addr, coins); err != nil {
			return "pass #cannot-fund " + err.Error()
		}
		c.End()
		c.Commit()
		for _, part := range []int64{400, 600} { // a part, then everything that is left
			t = t.Add(5 * time.Second)
			c.Begin(t)
			ctx = c.DeliverCtx()
			sup0 := c.App.BankKeeper.GetSupply(ctx, voucher).Amount
			fee0 := c.App.BankKeeper.GetSupply(ctx, feeDenom).Amount
			if err := c.App.BankKeeper.SendCoins(ctx, A.Addr, burnAddr, sdk.NewCoins(sdk.NewInt64Coin(voucher, part), sdk.NewInt64Coin(feeDenom, 9))); err != nil {
				return "pass #cannot-send " + err.Error()
			}
			c.End()
			ctx = c.DeliverCtx()
			if left := c.App.BankKeeper.SpendableCoins(ctx, burnAddr); !left.IsZero() {
				return "fail #burn-address-not-empty-at-end-of-block " + left.String()
			}
			if got := sup0.Sub(c.App.BankKeeper.GetSupply(ctx, voucher).Amount); !got.Equal(sdk.NewInt(part)) {
				return "fail #supply-did-not-shrink-by-what-reached-the-burn-address shrank=" + got.String()
			}
			if got := fee0.Sub(c.App.BankKeeper.GetSupply(ctx, feeDenom).Amount); !got.Equal(sdk.NewInt(9)) {
				return "fail #supply-did-not-shrink-by-what-reached-the-burn-address"
			}
			c.Commit()
		}
		return "pass"
	}))
}

// monManyDenominations: many denominations reach the burn address in one block (one multi-denomination send, several
// vouchers): the end-blocker's work is not bounded by anything but the block — all of them are burned.
func monManyDenominations(s *Stream) {
	s.Emit("mon.c07.many-denominations", guard(func() string {
		old := genesisExtraCoins
		genesisExtraCoins = nil
		defer func() { genesisExtraCoins = old }()
		burnAddr := sdk.MustAccAddressFromBech32(burntypes.BurnAddress)
		A := newAcct("A", []byte("md-A"))
		c, err := NewChain(memDB(), tmpHome(), []*Acct{A}, 1000000, nil)
		if err != nil {
			return "pass #no-chain"
		}
		t := c.Time.Add(5 * time.Second)
		c.Begin(t)
		ctx := c.DeliverCtx()
		var coins sdk.Coins
		for i := 0; i < 150; i++ {
			coins = coins.Add(sdk.NewInt64Coin(fmt.Sprintf("ibc/%064X", i+1), int64(10+i)))
		}
		if err := c.App.BankKeeper.MintCoins(ctx, "mint", coins); err != nil {
			return "pass #cannot-mint " + err.Error()
		}
		if err := c.App.BankKeeper.SendCoinsFromModuleToAccount(ctx, "mint", A.Addr, coins); err != nil {
			return "pass #cannot-fund"
		}
		c.End()
		c.Commit()
		t = t.Add(5 * time.Second)
		c.Begin(t)
		ctx = c.DeliverCtx()
		sent := coins.Add(sdk.NewInt64Coin(feeDenom, 5))
		if err := c.App.BankKeeper.SendCoins(ctx, A.Addr, burnAddr, sent); err != nil {
			return "pass #cannot-send " + err.Error()
		}
		c.End()
		ctx = c.DeliverCtx()
		if left := c.App.BankKeeper.SpendableCoins(ctx, burnAddr); !left.IsZero() {
			return fmt.Sprintf("fail #burn-address-not-empty-at-end-of-block (%d denominations left)", len(left))
		}
		for _, cn := range coins {
			if !c.App.BankKeeper.GetSupply(ctx, cn.Denom).Amount.IsZero() {
				return "fail #supply-did-not-shrink-by-what-reached-the-burn-address " + cn.Denom
			}
		}
		c.Commit()
		return "pass"
	}))
}

func init() {
	streams["burn"] = func(dir string, rng *rand.Rand, n int, tier string) {
		s := NewStream(dir, "burn")
		defer s.Close(dir, "burn")
		monEndBlockMovers(s)
		monModuleAccountRecipient(s, "mon.c07.module-account-recipient")
		monInvariantCheckPeriod(s)
		monSendDisabled(s)
		monWholeSupply(s)
		monManyDenominations(s)
		for h := 0; h < n; h++ {
			burnHistory(s, rng, 10+rng.Intn(25), true)
		}
	}
}
