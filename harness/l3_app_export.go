package main

// mon.c08.app-export: the application's own export entry point (app/export.go, what `panacead export` calls) on a
// committed state that holds entries of every custom module, with a validator set: the export at height and the
// zero-height export must both succeed, carry the same custom-module sections as the module manager's export, and the
// zero-height genesis must initialise a fresh chain on which the custom sections are exported identically.

import (
	"bytes"
	"encoding/json"
	"fmt"
	"time"

	sdk "github.com/cosmos/cosmos-sdk/types"
	aolkeeper "github.com/medibloc/panacea-core/v2/x/aol/keeper"
	aoltypes "github.com/medibloc/panacea-core/v2/x/aol/types"
	didkeeper "github.com/medibloc/panacea-core/v2/x/did/keeper"
	didtypes "github.com/medibloc/panacea-core/v2/x/did/types"
	pnftkeeper "github.com/medibloc/panacea-core/v2/x/pnft/keeper"
	pnfttypes "github.com/medibloc/panacea-core/v2/x/pnft/types"
)

func monC08AppExport(s *Stream) {
	s.Emit("mon.c08.app-export", guard(func() string {
		c, err := NewChain(memDB(), tmpHome(), nil, 0, nil)
		if err != nil {
			return "pass #no-chain"
		}
		c.Begin(c.Time.Add(time.Second))
		g := sdk.WrapSDKContext(c.DeliverCtx())
		o := sdk.AccAddress([]byte("export-owner-address")).String()
		w := sdk.AccAddress([]byte("export-writer-addres")).String()
		am := aolkeeper.NewMsgServerImpl(c.App.AolKeeper)
		if _, err := am.CreateTopic(g, &aoltypes.MsgCreateTopicRequest{TopicName: "t", Description: "d", OwnerAddress: o}); err != nil {
			return "pass #setup-aol"
		}
		if _, err := am.AddWriter(g, &aoltypes.MsgAddWriterRequest{TopicName: "t", Moniker: "m", WriterAddress: w, OwnerAddress: o}); err != nil {
			return "pass #setup-aol"
		}
		if _, err := am.AddRecord(g, &aoltypes.MsgAddRecordRequest{TopicName: "t", Key: []byte("k"), Value: []byte("v"), WriterAddress: w, OwnerAddress: o}); err != nil {
			return "pass #setup-aol"
		}
		dm := didkeeper.NewMsgServerImpl(c.App.DidKeeper)
		for i, name := range []string{"export-did-a", "export-did-b"} {
			k := newDidKey(name)
			did := didtypes.NewDID(k.pub)
			vmID := did + "#key1"
			vm := &didtypes.VerificationMethod{Id: vmID, Type: didtypes.ES256K_2019, Controller: did, PublicKeyBase58: k.b58}
			d := didtypes.NewDIDDocument(did, didtypes.WithVerificationMethods([]*didtypes.VerificationMethod{vm}),
				didtypes.WithAuthentications([]didtypes.VerificationRelationship{rel(vmID)}))
			sig, _ := didtypes.Sign(&d, didtypes.InitialSequence, k.priv)
			if _, err := dm.CreateDID(g, &didtypes.MsgCreateDIDRequest{Did: did, Document: &d, VerificationMethodId: vmID, Signature: sig, FromAddress: o}); err != nil {
				return "pass #setup-did"
			}
			if i == 1 {
				sig, _ := didtypes.Sign(&didtypes.DIDDocument{Id: did}, didtypes.InitialSequence, k.priv)
				if _, err := dm.DeactivateDID(g, &didtypes.MsgDeactivateDIDRequest{Did: did, VerificationMethodId: vmID, Signature: sig, FromAddress: o}); err != nil {
					return "pass #setup-did"
				}
			}
		}
		pm := pnftkeeper.NewMsgServerImpl(&c.App.PnftKeeper)
		if _, err := pm.CreateDenom(g, &pnfttypes.MsgCreateDenomRequest{Id: "exportdenom", Name: "n", Symbol: "s", Creator: o}); err != nil {
			return "pass #setup-pnft"
		}
		if _, err := pm.MintPNFT(g, &pnfttypes.MsgMintPNFTRequest{DenomId: "exportdenom", Id: "tok1", Name: "n", Creator: o}); err != nil {
			return "pass #setup-pnft"
		}
		c.End()
		c.Commit()
		viaManager := exportCustom(c, c.QueryCtx())
		for k, v := range viaManager {
			var b bytes.Buffer
			if err := json.Compact(&b, v); err != nil {
				return "fail #export-is-not-json"
			}
			viaManager[k] = b.Bytes()
		}
		sections := func(zero bool) (all map[string]json.RawMessage, res string) {
			defer func() {
				if r := recover(); r != nil {
					res = fmt.Sprintf("fail #export-panics zero-height=%v: %.60s", zero, fmt.Sprint(r))
				}
			}()
			ex, err := c.App.ExportAppStateAndValidators(zero, nil, nil)
			if err != nil {
				return nil, fmt.Sprintf("fail #export-fails zero-height=%v", zero)
			}
			if err := json.Unmarshal(ex.AppState, &all); err != nil {
				return nil, "fail #export-is-not-json"
			}
			for k, v := range all { // the entry point indents the whole document; compare modulo white space
				var b bytes.Buffer
				if err := json.Compact(&b, v); err != nil {
					return nil, "fail #export-is-not-json"
				}
				all[k] = b.Bytes()
			}
			if len(ex.Validators) == 0 {
				return nil, fmt.Sprintf("fail #export-without-validators zero-height=%v", zero)
			}
			return all, ""
		}
		atHeight, res := sections(false)
		if res != "" {
			return res
		}
		if !sameGenesis(viaManager, atHeight) {
			return "fail #export-at-height-differs-from-the-modules-export"
		}
		zero, res := sections(true) // prepares the state for height zero: done last, on a chain that is dropped
		if res != "" {
			return res
		}
		if !sameGenesis(viaManager, zero) {
			return "fail #zero-height-export-changes-custom-sections"
		}
		c2, err := NewChain(memDB(), tmpHome(), nil, 0, zero)
		if err != nil {
			return "fail #zero-height-export-does-not-import " + err.Error()[:min(80, len(err.Error()))]
		}
		c2.Begin(c2.Time.Add(time.Second))
		again := exportCustom(c2, c2.DeliverCtx())
		for k, v := range again {
			var b bytes.Buffer
			if err := json.Compact(&b, v); err != nil {
				return "fail #export-is-not-json"
			}
			again[k] = b.Bytes()
		}
		if !sameGenesis(viaManager, again) {
			return "fail #re-export-differs"
		}
		return "pass"
	}))
}
