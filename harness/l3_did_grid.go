package main

// mon.c17.did-handlers-total: the three DID message handlers on every combination of key type name, key length and
// proof length that stateless validation admits — create directly, update and deactivate on a stored document that
// lists such a key under authentication next to a proper one.  Every call returns (an error, mostly); none panics.

import (
	"bytes"
	"fmt"

	"github.com/btcsuite/btcutil/base58"
	sdk "github.com/cosmos/cosmos-sdk/types"
	didkeeper "github.com/medibloc/panacea-core/v2/x/did/keeper"
	didtypes "github.com/medibloc/panacea-core/v2/x/did/types"
)

func monC17DidHandlerGrid(s *Stream) {
	s.Emit("mon.c17.did-handlers-total", func() (ans string) {
		c, err := NewChain(memDB(), tmpHome(), nil, 0, nil)
		if err != nil {
			return "pass #no-chain"
		}
		c.Begin(c.Time)
		ms := didkeeper.NewMsgServerImpl(c.App.DidKeeper)
		from := sdk.AccAddress([]byte("relayer-1-address-xx")).String()
		calls, refused := 0, 0
		try := func(what string, f func() error) string {
			var out string
			func() {
				defer func() {
					if r := recover(); r != nil {
						out = fmt.Sprintf("fail #%s panics: %.80s", what, fmt.Sprint(r))
					}
				}()
				calls++
				if f() != nil {
					refused++
				}
			}()
			return out
		}
		n := 0
		for _, typ := range []string{didtypes.ES256K_2019, didtypes.ES256K_2018, didtypes.ED25519_2018, didtypes.BLS1281G1_2020, "SomethingElse2020"} {
			for _, klen := range []int{1, 31, 32, 33, 64, 65} {
				for _, slen := range []int{0, 1, 63, 64, 65} {
					n++
					good := newDidKey(fmt.Sprintf("grid-%d", n))
					did := didtypes.NewDID(good.pub)
					goodID, oddID := did+"#key1", did+"#key2"
					odd := &didtypes.VerificationMethod{Id: oddID, Type: typ, Controller: did, PublicKeyBase58: base58.Encode(bytes.Repeat([]byte{byte(n)}, klen))}
					proper := &didtypes.VerificationMethod{Id: goodID, Type: didtypes.ES256K_2019, Controller: did, PublicKeyBase58: good.b58}
					sig := bytes.Repeat([]byte{7}, slen)
					g := sdk.WrapSDKContext(c.DeliverCtx())
					// create with the odd key alone as the proving key
					d1 := didtypes.NewDIDDocument(did, didtypes.WithVerificationMethods([]*didtypes.VerificationMethod{odd}),
						didtypes.WithAuthentications([]didtypes.VerificationRelationship{rel(oddID)}))
					m1 := &didtypes.MsgCreateDIDRequest{Did: did, Document: &d1, VerificationMethodId: oddID, Signature: sig, FromAddress: from}
					if m1.ValidateBasic() == nil {
						if r := try(fmt.Sprintf("CreateDID type=%s keyLen=%d sigLen=%d", typ, klen, slen), func() error { _, err := ms.CreateDID(g, m1); return err }); r != "" {
							return r
						}
					}
					// a stored document that lists the odd key next to a proper one; then update / deactivate through the odd key
					d2 := didtypes.NewDIDDocument(did, didtypes.WithVerificationMethods([]*didtypes.VerificationMethod{proper, odd}),
						didtypes.WithAuthentications([]didtypes.VerificationRelationship{rel(goodID), rel(oddID)}))
					psig, _ := didtypes.Sign(&d2, 0, good.priv)
					m2 := &didtypes.MsgCreateDIDRequest{Did: did, Document: &d2, VerificationMethodId: goodID, Signature: psig, FromAddress: from}
					if m2.ValidateBasic() != nil {
						continue
					}
					if _, err := ms.CreateDID(g, m2); err != nil {
						continue
					}
					m3 := &didtypes.MsgUpdateDIDRequest{Did: did, Document: &d2, VerificationMethodId: oddID, Signature: sig, FromAddress: from}
					if m3.ValidateBasic() == nil {
						if r := try(fmt.Sprintf("UpdateDID type=%s keyLen=%d sigLen=%d", typ, klen, slen), func() error { _, err := ms.UpdateDID(g, m3); return err }); r != "" {
							return r
						}
					}
					m4 := &didtypes.MsgDeactivateDIDRequest{Did: did, VerificationMethodId: oddID, Signature: sig, FromAddress: from}
					if m4.ValidateBasic() == nil {
						if r := try(fmt.Sprintf("DeactivateDID type=%s keyLen=%d sigLen=%d", typ, klen, slen), func() error { _, err := ms.DeactivateDID(g, m4); return err }); r != "" {
							return r
						}
					}
				}
			}
		}
		// controllers in every state: registered, deactivated, never registered, the document's own id, empty strings
		{
			g := sdk.WrapSDKContext(c.DeliverCtx())
			mk := func(seed string) (*didKey, string, *didtypes.DIDDocument) {
				k := newDidKey(seed)
				did := didtypes.NewDID(k.pub)
				vmID := did + "#key1"
				d := didtypes.NewDIDDocument(did, didtypes.WithVerificationMethods([]*didtypes.VerificationMethod{{Id: vmID, Type: didtypes.ES256K_2019, Controller: did, PublicKeyBase58: k.b58}}),
					didtypes.WithAuthentications([]didtypes.VerificationRelationship{rel(vmID)}))
				return k, did, &d
			}
			kr, dr, docr := mk("grid-ctl-registered")
			sr, _ := didtypes.Sign(docr, 0, kr.priv)
			ms.CreateDID(g, &didtypes.MsgCreateDIDRequest{Did: dr, Document: docr, VerificationMethodId: dr + "#key1", Signature: sr, FromAddress: from})
			kd, dd, docd := mk("grid-ctl-deactivated")
			sd, _ := didtypes.Sign(docd, 0, kd.priv)
			ms.CreateDID(g, &didtypes.MsgCreateDIDRequest{Did: dd, Document: docd, VerificationMethodId: dd + "#key1", Signature: sd, FromAddress: from})
			sdd, _ := didtypes.Sign(&didtypes.DIDDocument{Id: dd}, 0, kd.priv)
			ms.DeactivateDID(g, &didtypes.MsgDeactivateDIDRequest{Did: dd, VerificationMethodId: dd + "#key1", Signature: sdd, FromAddress: from})
			_, dn, _ := mk("grid-ctl-never-registered")
			for i, ctl := range [][]string{{dr}, {dd}, {dn}, {dn, dr}, {""}, {"", ""}} {
				k, did, doc := mk(fmt.Sprintf("grid-ctl-subject-%d", i))
				cl := didtypes.JSONStringOrStrings(append([]string{}, ctl...))
				doc.Controller = &cl
				sig, _ := didtypes.Sign(doc, 0, k.priv)
				m := &didtypes.MsgCreateDIDRequest{Did: did, Document: doc, VerificationMethodId: did + "#key1", Signature: sig, FromAddress: from}
				if m.ValidateBasic() == nil {
					if r := try(fmt.Sprintf("CreateDID with controller list #%d", i), func() error { _, err := ms.CreateDID(g, m); return err }); r != "" {
						return r
					}
				}
				cl2 := didtypes.JSONStringOrStrings(append([]string{did}, ctl...))
				doc2 := *doc
				doc2.Controller = &cl2
				seq := c.App.DidKeeper.GetDIDDocument(c.DeliverCtx(), did).Sequence
				sig2, _ := didtypes.Sign(&doc2, seq, k.priv)
				m2 := &didtypes.MsgUpdateDIDRequest{Did: did, Document: &doc2, VerificationMethodId: did + "#key1", Signature: sig2, FromAddress: from}
				if m2.ValidateBasic() == nil {
					if r := try(fmt.Sprintf("UpdateDID with controller list #%d", i), func() error { _, err := ms.UpdateDID(g, m2); return err }); r != "" {
						return r
					}
				}
			}
		}
		if calls < 100 {
			return fmt.Sprintf("pass #only-%d-calls", calls)
		}
		return fmt.Sprintf("pass #%d-calls-%d-refused", calls, refused)
	}())
}
