package main

// mon.c09.parallelism: the answers of the custom modules' queries and their exported genesis on one committed state do
// not depend on how many CPUs the Go runtime uses — a replica with one core and one with eight must answer alike.
// The state is made large enough for any "parallel above a threshold" path: a denom with 150 tokens, a topic with
// 150 writers and records, 150 DIDs.

import (
	"crypto/sha256"
	"fmt"
	"runtime"

	abci "github.com/cometbft/cometbft/abci/types"
	sdk "github.com/cosmos/cosmos-sdk/types"
	aolkeeper "github.com/medibloc/panacea-core/v2/x/aol/keeper"
	aoltypes "github.com/medibloc/panacea-core/v2/x/aol/types"
	pnftkeeper "github.com/medibloc/panacea-core/v2/x/pnft/keeper"
	pnfttypes "github.com/medibloc/panacea-core/v2/x/pnft/types"
)

func monC09Parallelism(s *Stream) {
	s.Emit("mon.c09.parallelism", guard(func() string {
		accts := rtAccts()
		c, err := NewChain(memDB(), tmpHome(), accts, 100000, nil)
		if err != nil {
			return "fail #genesis " + err.Error()
		}
		c.Begin(c.Time.Add(5e9))
		g := sdk.WrapSDKContext(c.DeliverCtx())
		A := accts[0]
		pms := pnftkeeper.NewMsgServerImpl(&c.App.PnftKeeper)
		ams := aolkeeper.NewMsgServerImpl(c.App.AolKeeper)
		if _, err := pms.CreateDenom(g, &pnfttypes.MsgCreateDenomRequest{Id: "big", Name: "n", Symbol: "s", Creator: A.Bech()}); err != nil {
			return "fail #setup " + err.Error()
		}
		if _, err := ams.CreateTopic(g, &aoltypes.MsgCreateTopicRequest{TopicName: "big", OwnerAddress: A.Bech()}); err != nil {
			return "fail #setup " + err.Error()
		}
		if _, err := ams.AddWriter(g, &aoltypes.MsgAddWriterRequest{TopicName: "big", Moniker: "m", WriterAddress: A.Bech(), OwnerAddress: A.Bech()}); err != nil {
			return "fail #setup " + err.Error()
		}
		for i := 0; i < 150; i++ {
			desc := ""
			if i%3 == 0 {
				desc = fmt.Sprintf("d%d", i)
			}
			if _, err := pms.MintPNFT(g, &pnfttypes.MsgMintPNFTRequest{DenomId: "big", Id: fmt.Sprintf("t%03d", i), Name: "t", Description: desc, Creator: A.Bech()}); err != nil {
				return "fail #setup " + err.Error()
			}
			w := sdk.AccAddress([]byte(fmt.Sprintf("writer-%014d", i))).String()
			if _, err := ams.AddWriter(g, &aoltypes.MsgAddWriterRequest{TopicName: "big", Moniker: "m", WriterAddress: w, OwnerAddress: A.Bech()}); err != nil {
				return "fail #setup " + err.Error()
			}
			if _, err := ams.AddRecord(g, &aoltypes.MsgAddRecordRequest{TopicName: "big", Key: []byte("k"), Value: []byte(fmt.Sprint(i)), WriterAddress: A.Bech(), OwnerAddress: A.Bech()}); err != nil {
				return "fail #setup " + err.Error()
			}
		}
		c.End()
		c.Commit()
		q := func(path string, req interface{ Marshal() ([]byte, error) }) string {
			bz, _ := req.Marshal()
			r := c.App.Query(abci.RequestQuery{Path: path, Data: bz})
			return fmt.Sprintf("%d:%x", r.Code, sha256.Sum256(r.Value))
		}
		answers := func() []string {
			ctx := c.QueryCtx()
			out := []string{
				q("/panacea.pnft.v2.Query/PNFTs", &pnfttypes.QueryPNFTsRequest{DenomId: "big"}),
				q("/panacea.pnft.v2.Query/PNFTsByDenomOwner", &pnfttypes.QueryPNFTsByDenomOwnerRequest{DenomId: "big", Owner: A.Bech()}),
				q("/panacea.pnft.v2.Query/DenomsByOwner", &pnfttypes.QueryDenomsByOwnerRequest{Owner: A.Bech()}),
				q("/panacea.aol.v2.Query/Writers", &aoltypes.QueryWritersRequest{OwnerAddress: A.Bech(), TopicName: "big"}),
				q("/panacea.aol.v2.Query/Topics", &aoltypes.QueryTopicsRequest{OwnerAddress: A.Bech()}),
			}
			for _, m := range []string{"pnft", "aol", "did", "burn"} {
				all := c.App.ModuleManager.ExportGenesis(ctx, c.App.AppCodec())
				out = append(out, fmt.Sprintf("%s:%x", m, sha256.Sum256(all[m])))
			}
			return out
		}
		old := runtime.GOMAXPROCS(1)
		defer runtime.GOMAXPROCS(old)
		ref := answers()
		names := []string{"PNFTs", "PNFTsByDenomOwner", "DenomsByOwner", "Writers", "Topics", "export:pnft", "export:aol", "export:did", "export:burn"}
		for _, n := range []int{2, 3, 4, 8} {
			runtime.GOMAXPROCS(n)
			got := answers()
			for i := range ref {
				if got[i] != ref[i] {
					return fmt.Sprintf("fail #answer-depends-on-parallelism %s (1 CPU vs %d CPUs)", names[i], n)
				}
			}
		}
		return "pass"
	}))
}
