package main

// Two monitors added in round 10 of the seeded changes.
//
// mon.c20.large-class-listing: a class of 300 tokens (every third one transferred away) is committed at height H;
// while block H+1 mints further tokens of the class, several goroutines repeat the PNFTs and PNFTsByDenomOwner
// queries at height H.  Every answer must be the same bytes as the first one, and must hold exactly the tokens of
// height H as the item query (PNFT) gives them, one by one.
//
// mon.c09.restart-every-block: two replicas execute the same blocks; one of them is stopped and started again before
// every block.  Coins reach the burn address in some of the blocks.  What a node keeps in process memory between
// blocks may not influence what it computes: results, end-of-block events and application hashes must agree at every
// height.

import (
	"bytes"
	"fmt"
	"sort"
	"strings"
	"sync"
	"time"

	dbm "github.com/cometbft/cometbft-db"
	abci "github.com/cometbft/cometbft/abci/types"
	sdk "github.com/cosmos/cosmos-sdk/types"
	banktypes "github.com/cosmos/cosmos-sdk/x/bank/types"
	aoltypes "github.com/medibloc/panacea-core/v2/x/aol/types"
	burntypes "github.com/medibloc/panacea-core/v2/x/burn/types"
	pnftkeeper "github.com/medibloc/panacea-core/v2/x/pnft/keeper"
	pnfttypes "github.com/medibloc/panacea-core/v2/x/pnft/types"
)

func monC20LargeClassListing(s *Stream) {
	s.Emit("mon.c20.large-class-listing", guard(func() string {
		accts := rtAccts()
		c, err := NewChain(dbm.NewMemDB(), tmpHome(), accts, 100000, nil)
		if err != nil {
			return "pass #no-chain"
		}
		A, B := accts[0], accts[1]
		const n = 300
		c.Begin(c.Time.Add(5 * time.Second))
		g := sdk.WrapSDKContext(c.DeliverCtx())
		pms := pnftkeeper.NewMsgServerImpl(&c.App.PnftKeeper)
		if _, err := pms.CreateDenom(g, &pnfttypes.MsgCreateDenomRequest{Id: "large", Name: "n", Symbol: "s", Creator: A.Bech()}); err != nil {
			return "fail #setup " + err.Error()
		}
		id := func(i int) string { return fmt.Sprintf("token%04d", i) }
		for i := 0; i < n; i++ {
			if _, err := pms.MintPNFT(g, &pnfttypes.MsgMintPNFTRequest{DenomId: "large", Id: id(i), Name: "t", Description: fmt.Sprint("d", i), Creator: A.Bech()}); err != nil {
				return "fail #setup " + err.Error()
			}
			if i%3 == 0 {
				if _, err := pms.TransferPNFT(g, &pnfttypes.MsgTransferPNFTRequest{DenomId: "large", Id: id(i), Sender: A.Bech(), Receiver: B.Bech()}); err != nil {
					return "fail #setup " + err.Error()
				}
			}
		}
		c.End()
		c.Commit()
		h := c.Height
		q := func(path string, req interface{ Marshal() ([]byte, error) }) abci.ResponseQuery {
			bz, _ := req.Marshal()
			return c.App.Query(abci.RequestQuery{Path: path, Data: bz, Height: h})
		}
		// the committed state of height h, token by token
		item := map[string]string{}
		ofA := map[string]bool{}
		for i := 0; i < n; i++ {
			r := q("/panacea.pnft.v2.Query/PNFT", &pnfttypes.QueryPNFTRequest{DenomId: "large", Id: id(i)})
			var resp pnfttypes.QueryPNFTResponse
			if r.Code != 0 || resp.Unmarshal(r.Value) != nil || resp.Pnft == nil {
				return fmt.Sprintf("fail #item-query-of-a-committed-token code=%d", r.Code)
			}
			bz, _ := resp.Pnft.Marshal()
			item[id(i)] = string(bz)
			ofA[id(i)] = resp.Pnft.Owner == A.Bech()
		}
		check := func(label string, r abci.ResponseQuery, ps []*pnfttypes.Pnft, want func(string) bool) string {
			seen := map[string]bool{}
			for _, p := range ps {
				bz, _ := p.Marshal()
				if item[p.Id] != string(bz) || seen[p.Id] || !want(p.Id) {
					return "fail #" + label + "-holds-an-entry-that-is-not-the-committed-token " + p.Id
				}
				seen[p.Id] = true
			}
			for k := range item {
				if want(k) && !seen[k] {
					return "fail #" + label + "-misses-a-committed-token " + k
				}
			}
			return ""
		}
		ask := func() (string, string, string) {
			r1 := q("/panacea.pnft.v2.Query/PNFTs", &pnfttypes.QueryPNFTsRequest{DenomId: "large"})
			var a1 pnfttypes.QueryPNFTsResponse
			if r1.Code != 0 || a1.Unmarshal(r1.Value) != nil {
				return "", "", fmt.Sprintf("fail #listing-refused code=%d", r1.Code)
			}
			if f := check("listing", r1, a1.Pnfts, func(string) bool { return true }); f != "" {
				return "", "", f
			}
			r2 := q("/panacea.pnft.v2.Query/PNFTsByDenomOwner", &pnfttypes.QueryPNFTsByDenomOwnerRequest{DenomId: "large", Owner: A.Bech()})
			var a2 pnfttypes.QueryPNFTsByDenomOwnerResponse
			if r2.Code != 0 || a2.Unmarshal(r2.Value) != nil {
				return "", "", fmt.Sprintf("fail #owner-listing-refused code=%d", r2.Code)
			}
			if f := check("owner-listing", r2, a2.Pnfts, func(k string) bool { return ofA[k] }); f != "" {
				return "", "", f
			}
			return string(r1.Value), string(r2.Value), ""
		}
		first1, first2, f := ask()
		if f != "" {
			return f
		}
		// block h+1 is executed (not committed) while the readers ask about height h
		c.Begin(c.Time.Add(5 * time.Second))
		g2 := sdk.WrapSDKContext(c.DeliverCtx())
		var wg sync.WaitGroup
		fails := make([]string, 4)
		for w := 0; w < 4; w++ {
			wg.Add(1)
			go func(w int) {
				defer wg.Done()
				defer func() {
					if r := recover(); r != nil {
						fails[w] = fmt.Sprint("fail #reader-panicked ", r)
					}
				}()
				for round := 0; round < 8 && fails[w] == ""; round++ {
					g1, g2, f := ask()
					if f != "" {
						fails[w] = f
					} else if g1 != first1 {
						fails[w] = "fail #two-answers-of-the-listing-at-one-height-differ"
					} else if g2 != first2 {
						fails[w] = "fail #two-answers-of-the-owner-listing-at-one-height-differ"
					}
				}
			}(w)
		}
		for i := n; i < n+40; i++ {
			if _, err := pms.MintPNFT(g2, &pnfttypes.MsgMintPNFTRequest{DenomId: "large", Id: id(i), Name: "t", Creator: A.Bech()}); err != nil {
				wg.Wait()
				return "fail #mint-in-the-next-block " + err.Error()
			}
		}
		wg.Wait()
		c.End()
		c.Commit()
		sort.Strings(fails)
		if last := fails[len(fails)-1]; last != "" {
			return last
		}
		return "pass"
	}))
}

func monC09RestartEveryBlock(s *Stream) {
	s.Emit("mon.c09.restart-every-block", guard(func() string {
		accts := rtAccts()
		a, err := NewChain(dbm.NewMemDB(), tmpHome(), accts, 100000, nil)
		if err != nil {
			return "pass #no-chain"
		}
		b, _ := NewChain(dbm.NewMemDB(), tmpHome(), accts, 100000, nil)
		A, B := accts[0], accts[1]
		tx := func(c *Chain, signer *Acct, m sdk.Msg) []byte {
			bz, err := c.BuildTx(TxSpec{Msgs: []sdk.Msg{m}, Signers: []SignerSpec{{Acct: signer}}, Fee: 1})
			if err != nil {
				panic(err)
			}
			return bz
		}
		toBurn := func(from *Acct, amt int64) func(c *Chain) [][]byte {
			return func(c *Chain) [][]byte {
				return [][]byte{tx(c, from, &banktypes.MsgSend{FromAddress: from.Bech(), ToAddress: burntypes.BurnAddress, Amount: sdk.NewCoins(sdk.NewInt64Coin(feeDenom, amt))})}
			}
		}
		none := func(c *Chain) [][]byte { return nil }
		topic := func(c *Chain) [][]byte {
			return [][]byte{tx(c, A, &aoltypes.MsgCreateTopicRequest{TopicName: "t", OwnerAddress: A.Bech()})}
		}
		// empty blocks first (end-of-block processing finds nothing to do), then coins reach the burn address one, two
		// and several blocks later
		blocks := []func(c *Chain) [][]byte{none, toBurn(A, 7), none, topic, toBurn(B, 11), toBurn(A, 3), none, none, none, toBurn(B, 5), none, none, toBurn(A, 2), none}
		t := a.Time
		for i, txs := range blocks {
			t = t.Add(5 * time.Second)
			ra, ha := runBlock(a, t, txs(a))
			b = reopen(b) // replica b is a new process in every block
			rb, hb := runBlock(b, t, txs(b))
			if strings.Join(ra, "\n") != strings.Join(rb, "\n") {
				return fmt.Sprintf("fail #results-or-endblock-events-differ-on-the-restarted-replica block=%d", i+1)
			}
			if !bytes.Equal(ha, hb) {
				return fmt.Sprintf("fail #apphash-differs-on-the-restarted-replica block=%d", i+1)
			}
		}
		return "pass"
	}))
}
