package main

// Stream "aol": the real x/aol message server and query server, called on a cache branch of the deliver
// state of a real app (one branch per history, never written back), against the Lean model `Aol.handle`
// and `Aol.query*`.  ValidateBasic is *not* run here (that is the tx stream), so handler-level panics
// and unvalidated inputs are reachable.

import (
	"fmt"
	"math/rand"
	"strconv"
	"strings"
	"time"

	errorsmod "cosmossdk.io/errors"
	"github.com/cosmos/cosmos-sdk/store/prefix"
	sdk "github.com/cosmos/cosmos-sdk/types"
	"github.com/cosmos/cosmos-sdk/types/query"
	aolkeeper "github.com/medibloc/panacea-core/v2/x/aol/keeper"
	aoltypes "github.com/medibloc/panacea-core/v2/x/aol/types"
	"google.golang.org/grpc/status"
)

func errAns(err error) string {
	if st, ok := status.FromError(err); ok && st.Code() != 2 { // grpc status (not Unknown)
		return "err #grpc/" + st.Code().String()
	}
	cs, code, _ := errorsmod.ABCIInfo(err, false)
	return fmt.Sprintf("err #%s/%d", cs, code)
}

type aolEnv struct {
	c   *Chain
	ctx sdk.Context
	ms  aoltypes.MsgServer
	s   *Stream
	// addresses already announced to the model
	seen map[string]bool
}

func (e *aolEnv) addr(text string) string {
	if !e.seen[text] {
		e.seen[text] = true
		emitAddr(e.s, text)
	}
	return hxs(text)
}

// begin / abort a discarded branch
func (e *aolEnv) begin() func() {
	saved := e.ctx
	e.ctx, _ = e.ctx.CacheContext()
	inBranch = true
	e.s.Emit("aol.begin", "-")
	return func() {
		e.ctx = saved.WithBlockTime(e.ctx.BlockTime())
		inBranch = false
		e.s.Emit("aol.abort", "-")
	}
}

func (e *aolEnv) reset() {
	e.ctx, _ = e.c.DeliverCtx().CacheContext()
	e.s.Emit("reset", "-")
}

func (e *aolEnv) now(ns int64) {
	e.ctx = e.ctx.WithBlockTime(time.Unix(0, ns).UTC())
	e.s.Emit(fmt.Sprintf("now %d", ns), "-")
}

func (e *aolEnv) msg(m sdk.Msg) bool {
	ok, _ := e.msgOff(m)
	return ok
}

// monAcked evaluates the C01 property itself on the implementation: the acknowledged record is still
// returned with exactly the acknowledged content.  The model evaluates the same predicate on its state.
func (e *aolEnv) monAcked(a aolAck) {
	k := e.c.App.AolKeeper
	op := fmt.Sprintf("mon.c01.acked %s %s %d %s %s %d %s", e.addr(a.owner), hxs(a.topic), a.off, hx(a.key), hx(a.value), a.ts, e.addr(a.writer))
	e.s.Emit(op, guard(func() string {
		r, err := k.Record(sdk.WrapSDKContext(e.ctx), &aoltypes.QueryRecordRequest{OwnerAddress: a.owner, TopicName: a.topic, Offset: a.off})
		if err != nil || r.Record == nil {
			return "fail"
		}
		if string(r.Record.Key) == string(a.key) && string(r.Record.Value) == string(a.value) && r.Record.NanoTimestamp == a.ts && r.Record.WriterAddress == a.writer {
			return "pass"
		}
		return "fail"
	}))
}

func (e *aolEnv) msgOff(m sdk.Msg) (okRes bool, offRes uint64) {
	var op string
	var run func() string
	g := sdk.WrapSDKContext(e.ctx)
	switch m := m.(type) {
	case *aoltypes.MsgCreateTopicRequest:
		op = fmt.Sprintf("aol.msg createTopic %s %s %s", hxs(m.TopicName), hxs(m.Description), e.addr(m.OwnerAddress))
		run = func() string {
			if _, err := e.ms.CreateTopic(g, m); err != nil {
				return errAns(err)
			}
			return "ok"
		}
	case *aoltypes.MsgAddWriterRequest:
		op = fmt.Sprintf("aol.msg addWriter %s %s %s %s %s", hxs(m.TopicName), hxs(m.Moniker), hxs(m.Description), e.addr(m.WriterAddress), e.addr(m.OwnerAddress))
		run = func() string {
			if _, err := e.ms.AddWriter(g, m); err != nil {
				return errAns(err)
			}
			return "ok"
		}
	case *aoltypes.MsgDeleteWriterRequest:
		op = fmt.Sprintf("aol.msg deleteWriter %s %s %s", hxs(m.TopicName), e.addr(m.WriterAddress), e.addr(m.OwnerAddress))
		run = func() string {
			if _, err := e.ms.DeleteWriter(g, m); err != nil {
				return errAns(err)
			}
			return "ok"
		}
	case *aoltypes.MsgAddRecordRequest:
		op = fmt.Sprintf("aol.msg addRecord %s %s %s %s %s %s", hxs(m.TopicName), hx(m.Key), hx(m.Value), e.addr(m.WriterAddress), e.addr(m.OwnerAddress), e.addr(m.FeePayerAddress))
		run = func() string {
			r, err := e.ms.AddRecord(g, m)
			if err != nil {
				return errAns(err)
			}
			offRes = r.Offset
			return fmt.Sprintf("ok owner=%s topic=%s offset=%d", hxs(r.OwnerAddress), hxs(r.TopicName), r.Offset)
		}
	default:
		panic("aol msg")
	}
	// a panicking handler may have written part of its effects into the branch: run it on a sub-branch
	// and write back only on non-panic (baseapp discards the message branch on panic as well)
	sub, write := e.ctx.CacheContext()
	g = sdk.WrapSDKContext(sub)
	ans := guard(run)
	if ans != "panic" {
		write()
	}
	e.s.Emit(op, ans)
	return strings.HasPrefix(ans, "ok") && !inBranch, offRes
}

func pageStr(p *query.PageRequest) string {
	if p == nil {
		return "key=- off=0 lim=0 total=0 rev=0"
	}
	b := func(x bool) int {
		if x {
			return 1
		}
		return 0
	}
	return fmt.Sprintf("key=%s off=%d lim=%d total=%d rev=%d", hx(p.Key), p.Offset, p.Limit, b(p.CountTotal), b(p.Reverse))
}

func pageAns(p *query.PageResponse) string {
	if p == nil {
		return "next=- total=0"
	}
	return fmt.Sprintf("next=%s total=%d", hx(p.NextKey), p.Total)
}

func (e *aolEnv) qRecord(owner, topic string, off uint64) {
	k := e.c.App.AolKeeper
	op := fmt.Sprintf("aol.q record %s %s %d", e.addr(owner), hxs(topic), off)
	e.s.Emit(op, guard(func() string {
		r, err := k.Record(sdk.WrapSDKContext(e.ctx), &aoltypes.QueryRecordRequest{OwnerAddress: owner, TopicName: topic, Offset: off})
		if err != nil {
			return errAns(err)
		}
		return fmt.Sprintf("ok key=%s value=%s ts=%d writer=%s", hx(r.Record.Key), hx(r.Record.Value), r.Record.NanoTimestamp, hxs(r.Record.WriterAddress))
	}))
}

func (e *aolEnv) qTopic(owner, topic string) {
	k := e.c.App.AolKeeper
	op := fmt.Sprintf("aol.q topic %s %s", e.addr(owner), hxs(topic))
	e.s.Emit(op, guard(func() string {
		r, err := k.Topic(sdk.WrapSDKContext(e.ctx), &aoltypes.QueryTopicRequest{OwnerAddress: owner, TopicName: topic})
		if err != nil {
			return errAns(err)
		}
		return fmt.Sprintf("ok desc=%s records=%d writers=%d", hxs(r.Topic.Description), r.Topic.TotalRecords, r.Topic.TotalWriters)
	}))
}

func (e *aolEnv) qWriter(owner, topic, writer string) {
	k := e.c.App.AolKeeper
	op := fmt.Sprintf("aol.q writer %s %s %s", e.addr(owner), hxs(topic), e.addr(writer))
	e.s.Emit(op, guard(func() string {
		r, err := k.Writer(sdk.WrapSDKContext(e.ctx), &aoltypes.QueryWriterRequest{OwnerAddress: owner, TopicName: topic, WriterAddress: writer})
		if err != nil {
			return errAns(err)
		}
		return fmt.Sprintf("ok moniker=%s desc=%s ts=%d", hxs(r.Writer.Moniker), hxs(r.Writer.Description), r.Writer.NanoTimestamp)
	}))
}

func (e *aolEnv) qTopics(owner string, p *query.PageRequest) (names []string, next []byte, ok bool) {
	k := e.c.App.AolKeeper
	op := fmt.Sprintf("aol.q topics %s %s", e.addr(owner), pageStr(p))
	e.s.Emit(op, guard(func() string {
		r, err := k.Topics(sdk.WrapSDKContext(e.ctx), &aoltypes.QueryTopicsRequest{OwnerAddress: owner, Pagination: p})
		if err != nil {
			return errAns(err)
		}
		bz := make([][]byte, len(r.TopicNames))
		for i, n := range r.TopicNames {
			bz[i] = []byte(n)
		}
		names, ok = r.TopicNames, true
		if r.Pagination != nil {
			next = r.Pagination.NextKey
		}
		return fmt.Sprintf("ok items=%s %s", hxList(bz), pageAns(r.Pagination))
	}))
	return
}

func (e *aolEnv) qWriters(owner, topic string, p *query.PageRequest) (addrs []string, next []byte, ok bool) {
	k := e.c.App.AolKeeper
	op := fmt.Sprintf("aol.q writers %s %s %s", e.addr(owner), hxs(topic), pageStr(p))
	e.s.Emit(op, guard(func() string {
		r, err := k.Writers(sdk.WrapSDKContext(e.ctx), &aoltypes.QueryWritersRequest{OwnerAddress: owner, TopicName: topic, Pagination: p})
		if err != nil {
			return errAns(err)
		}
		bz := make([][]byte, len(r.WriterAddresses))
		for i, n := range r.WriterAddresses {
			a, err := sdk.AccAddressFromBech32(n)
			if err != nil {
				return "ok items=unparseable"
			}
			bz[i] = a
		}
		addrs, ok = r.WriterAddresses, true
		if r.Pagination != nil {
			next = r.Pagination.NextKey
		}
		return fmt.Sprintf("ok items=%s %s", hxList(bz), pageAns(r.Pagination))
	}))
	return
}

// dump prints the raw aol store: full keys (with prefix byte) and values decoded with the module codec.
func (e *aolEnv) dump() {
	e.s.Emit("aol.dump", guard(func() string { return "ok " + aolDump(e.c, e.ctx) }))
}

func aolDump(c *Chain, ctx sdk.Context) string {
	store := ctx.KVStore(c.App.GetKey(aoltypes.StoreKey))
	it := store.Iterator(nil, nil)
	defer it.Close()
	cdc := c.App.AppCodec()
	var parts []string
	for ; it.Valid(); it.Next() {
		k, v := it.Key(), it.Value()
		var val string
		switch k[0] {
		case 0x00:
			var o aoltypes.Owner
			cdc.MustUnmarshal(v, &o)
			val = fmt.Sprintf("%d", o.TotalTopics)
		case 0x01:
			var t aoltypes.Topic
			cdc.MustUnmarshal(v, &t)
			val = fmt.Sprintf("%s,%d,%d", hxs(t.Description), t.TotalRecords, t.TotalWriters)
		case 0x02:
			var w aoltypes.Writer
			cdc.MustUnmarshal(v, &w)
			val = fmt.Sprintf("%s,%s,%d", hxs(w.Moniker), hxs(w.Description), w.NanoTimestamp)
		case 0x03:
			var r aoltypes.Record
			cdc.MustUnmarshal(v, &r)
			val = fmt.Sprintf("%s,%s,%d,%s", hx(r.Key), hx(r.Value), r.NanoTimestamp, hxs(r.WriterAddress))
		default:
			val = "?" + hx(v)
		}
		parts = append(parts, hx(k)+"="+val)
	}
	if len(parts) == 0 {
		return "~"
	}
	return strings.Join(parts, ";")
}

var _ = prefix.NewStore

// ---------------------------------------------------------------------------------------------
// generators

type aolPools struct {
	addrs  []string // valid bech32 texts (several lengths, one upper-case spelling)
	bad    []string // invalid address texts
	topics []string
}

func mkAolPools() aolPools {
	var p aolPools
	mk := func(b []byte) string { return sdk.AccAddress(b).String() }
	a20 := func(x byte) []byte {
		b := make([]byte, 20)
		for i := range b {
			b[i] = x
		}
		return b
	}
	p.addrs = []string{
		mk(a20(1)), mk(a20(2)), mk(a20(3)),
		mk([]byte{1}),                   // 1-byte address
		mk([]byte{1, 1, 0x61}),          // looks like [len 1][0x01][...]: prefix games with the 1-byte address
		mk(append(a20(1), a20(1)[:12]...)), // 32 bytes, extends the first address
	}
	p.addrs = append(p.addrs, strings.ToUpper(p.addrs[0])) // alternative spelling of the same address
	p.bad = []string{"", "notbech32", "cosmos1qypqxpq9qcrsszg2pvxq6rs0zqg3yyc5lzv7xu", " ", p.addrs[0] + "x"}
	p.topics = []string{"a", "ab", "abc", "a.b", "A", "t-1", "a_b", "b"}
	return p
}

func (p aolPools) topic(rng *rand.Rand) string {
	r := rng.Intn(40)
	switch {
	case r == 0:
		return ""
	case r == 1:
		return "a/b"
	case r == 2:
		return strings.Repeat("x", 255)
	case r == 3:
		return strings.Repeat("x", 256) // MustEncode panics
	case r == 4:
		return "a\x00b"
	case r == 5:
		return "\x01a" // begins with a byte that looks like a length prefix
	default:
		return p.topics[rng.Intn(len(p.topics))]
	}
}

func (p aolPools) addr(rng *rand.Rand) string {
	if rng.Intn(25) == 0 {
		return p.bad[rng.Intn(len(p.bad))]
	}
	return p.addrs[rng.Intn(len(p.addrs))]
}

func smallBytes(rng *rand.Rand) []byte {
	n := []int{0, 0, 1, 3, 8}[rng.Intn(5)]
	b := make([]byte, n)
	rng.Read(b)
	return b
}

func genPage(rng *rand.Rand, lastKeys [][]byte) *query.PageRequest {
	if rng.Intn(6) == 0 {
		return nil
	}
	p := &query.PageRequest{}
	switch rng.Intn(4) {
	case 0:
		p.Limit = uint64(1 + rng.Intn(3))
	case 1:
		p.Limit = 100
	case 2:
		p.Limit = 0
	default:
		p.Limit = uint64(rng.Intn(5))
	}
	switch rng.Intn(5) {
	case 0:
		p.Offset = uint64(rng.Intn(4))
	case 1:
		if len(lastKeys) > 0 {
			p.Key = lastKeys[rng.Intn(len(lastKeys))]
		}
	case 2:
		p.Key = []byte{byte(rng.Intn(4)), byte('a' + rng.Intn(3))}
	}
	if rng.Intn(50) == 0 {
		p.Offset = ^uint64(0) - uint64(rng.Intn(3))
	}
	if rng.Intn(50) == 0 {
		p.Limit = ^uint64(0) - uint64(rng.Intn(3))
	}
	p.CountTotal = rng.Intn(2) == 0
	p.Reverse = rng.Intn(3) == 0
	if len(p.Key) == 0 {
		p.Key = nil
	}
	return p
}

type aolAck struct {
	owner, topic string
	off          uint64
	key, value   []byte
	ts           int64
	writer       string
}

func aolHistory(e *aolEnv, rng *rand.Rand, p aolPools, steps int) {
	e.reset()
	now := int64(1700000000000000000)
	e.now(now)
	var nextKeys [][]byte
	// what the harness believes exists (only used to aim the generator; never part of the verdict)
	type ot struct{ o, t string }
	var topics []ot
	writers := map[ot][]string{}
	var acked []aolAck
	pickOT := func() ot {
		if len(topics) > 0 && rng.Intn(10) < 7 {
			return topics[rng.Intn(len(topics))]
		}
		return ot{p.addr(rng), p.topic(rng)}
	}
	pickW := func(k ot) string {
		if ws := writers[k]; len(ws) > 0 && rng.Intn(10) < 7 {
			return ws[rng.Intn(len(ws))]
		}
		return p.addr(rng)
	}
	inBranch = false
	for i := 0; i < steps; i++ {
		if rng.Intn(6) == 0 {
			now += int64(1 + rng.Intn(5000))
			e.now(now)
		}
		// now and then a transaction whose effects are discarded: a writer is added and appends on the branch (and the
		// same add-writer again, which is what makes such a transaction fail); afterwards that address tries to append
		if len(topics) > 0 && rng.Intn(9) == 0 {
			k := topics[rng.Intn(len(topics))]
			w := p.addr(rng)
			abort := e.begin()
			e.msg(&aoltypes.MsgAddWriterRequest{TopicName: k.t, Moniker: "ghost", WriterAddress: w, OwnerAddress: k.o})
			e.msg(&aoltypes.MsgAddRecordRequest{TopicName: k.t, Key: []byte("g"), Value: []byte("h"), WriterAddress: w, OwnerAddress: k.o})
			switch rng.Intn(3) {
			case 0:
				e.msg(&aoltypes.MsgAddWriterRequest{TopicName: k.t, Moniker: "ghost", WriterAddress: w, OwnerAddress: k.o})
			case 1:
				e.msg(&aoltypes.MsgCreateTopicRequest{TopicName: p.topic(rng), OwnerAddress: k.o})
			}
			abort()
			e.msg(&aoltypes.MsgAddRecordRequest{TopicName: k.t, Key: []byte("after"), Value: []byte("abort"), WriterAddress: w, OwnerAddress: k.o})
			e.qTopic(k.o, k.t)
			e.qWriter(k.o, k.t, w)
			continue
		}
		switch r := rng.Intn(20); {
		case r < 3:
			k := ot{p.addr(rng), p.topic(rng)}
			if e.msg(&aoltypes.MsgCreateTopicRequest{TopicName: k.t, Description: string(smallBytes(rng)), OwnerAddress: k.o}) {
				topics = append(topics, k)
			}
		case r < 7:
			k := pickOT()
			w := p.addr(rng)
			if e.msg(&aoltypes.MsgAddWriterRequest{TopicName: k.t, Moniker: []string{"", "m", "mon.1"}[rng.Intn(3)], Description: string(smallBytes(rng)), WriterAddress: w, OwnerAddress: k.o}) {
				writers[k] = append(writers[k], w)
			}
		case r < 9:
			k := pickOT()
			e.msg(&aoltypes.MsgDeleteWriterRequest{TopicName: k.t, WriterAddress: pickW(k), OwnerAddress: k.o})
		case r < 15:
			fp := ""
			if rng.Intn(2) == 0 {
				fp = p.addr(rng)
			}
			k := pickOT()
			m := &aoltypes.MsgAddRecordRequest{TopicName: k.t, Key: smallBytes(rng), Value: smallBytes(rng), WriterAddress: pickW(k), OwnerAddress: k.o, FeePayerAddress: fp}
			if ok, off := e.msgOff(m); ok {
				acked = append(acked, aolAck{k.o, k.t, off, m.Key, m.Value, now, m.WriterAddress})
			}
		case r == 15:
			k := pickOT()
			e.qRecord(k.o, k.t, uint64(rng.Intn(4)))
		case r == 16:
			k := pickOT()
			e.qTopic(k.o, k.t)
		case r == 17:
			k := pickOT()
			e.qWriter(k.o, k.t, pickW(k))
		case r == 18:
			_, nk, _ := e.qTopics(pickOT().o, genPage(rng, nextKeys))
			if len(nk) > 0 {
				nextKeys = append(nextKeys, nk)
			}
		default:
			k := pickOT()
			_, nk, _ := e.qWriters(k.o, k.t, genPage(rng, nextKeys))
			if len(nk) > 0 {
				nextKeys = append(nextKeys, nk)
			}
		}
	}
	// monitor C01 on the implementation: every acknowledged record still answers with its content
	for _, a := range acked {
		e.monAcked(a)
	}
	e.dump()
	// full walks of every listing with several page sizes (C13): the harness follows next_key itself
	for _, o := range p.addrs[:6] {
		for _, lim := range []uint64{1, 2, 100} {
			for _, rev := range []bool{false, true} {
				var key []byte
				for guardN := 0; guardN < 50; guardN++ {
					_, nk, ok := e.qTopics(o, &query.PageRequest{Key: key, Limit: lim, Reverse: rev, CountTotal: guardN == 0})
					if !ok || len(nk) == 0 {
						break
					}
					key = nk
				}
			}
		}
		for _, t := range []string{"a", "ab"} {
			var key []byte
			for guardN := 0; guardN < 50; guardN++ {
				_, nk, ok := e.qWriters(o, t, &query.PageRequest{Key: key, Limit: 1, Reverse: guardN%2 == 1 && false})
				if !ok || len(nk) == 0 {
					break
				}
				key = nk
			}
			e.qTopic(o, t)
			for off := uint64(0); off < 3; off++ {
				e.qRecord(o, t, off)
			}
		}
	}
}

// monC13OffsetWalk: an offset-style walk through an owner's topics that changes its page size on the way — first page
// of one item, then "all the rest" (offset 1, the largest limit) — must still deliver every topic once.
func monC13OffsetWalk(s *Stream) {
	s.Emit("mon.c13.offset-walk limit=max", guard(func() string {
		c, err := NewChain(memDB(), tmpHome(), nil, 0, nil)
		if err != nil {
			return "pass #no-chain " + err.Error()
		}
		c.Begin(time.Unix(1700000000, 0).UTC())
		g := sdk.WrapSDKContext(c.DeliverCtx())
		ms := aolkeeper.NewMsgServerImpl(c.App.AolKeeper)
		owner := sdk.AccAddress([]byte("offset-walk-owner-xx")).String()
		for _, t := range []string{"t1", "t2", "t3"} {
			if _, err := ms.CreateTopic(g, &aoltypes.MsgCreateTopicRequest{TopicName: t, OwnerAddress: owner}); err != nil {
				return "pass #setup " + err.Error()
			}
		}
		var got []string
		for _, pg := range []*query.PageRequest{{Offset: 0, Limit: 1, CountTotal: true}, {Offset: 1, Limit: ^uint64(0), CountTotal: true}} {
			r, err := c.App.AolKeeper.Topics(g, &aoltypes.QueryTopicsRequest{OwnerAddress: owner, Pagination: pg})
			if err != nil {
				return "fail #query " + err.Error()
			}
			got = append(got, r.TopicNames...)
		}
		if strings.Join(got, ",") != "t1,t2,t3" {
			return "fail #walk-lost-items got=" + strings.Join(got, ",")
		}
		return "pass"
	}))
}

func newAolEnv(s *Stream) *aolEnv {
	c, err := NewChain(memDB(), tmpHome(), nil, 0, nil)
	if err != nil {
		panic(err)
	}
	c.Begin(time.Unix(1700000000, 0).UTC())
	return &aolEnv{c: c, ms: aolkeeper.NewMsgServerImpl(c.App.AolKeeper), s: s, seen: map[string]bool{}}
}

func init() {
	streams["aol"] = func(dir string, rng *rand.Rand, n int, tier string) {
		s := NewStream(dir, "aol")
		defer s.Close(dir, "aol")
		e := newAolEnv(s)
		p := mkAolPools()
		monC13OffsetWalk(s)
		for h := 0; h < n; h++ {
			aolHistory(e, rng, p, 20+rng.Intn(40))
		}
	}
	replayers["aol"] = func(s *Stream, lines []string) {
		e := newAolEnv(s)
		e.reset()
		for _, l := range lines {
			aolReplayLine(e, l)
		}
	}
}

func parsePage(f []string) *query.PageRequest {
	p := &query.PageRequest{}
	for _, kv := range f {
		k, v, _ := strings.Cut(kv, "=")
		switch k {
		case "key":
			p.Key = unhx(v)
			if len(p.Key) == 0 {
				p.Key = nil
			}
		case "off":
			p.Offset, _ = strconv.ParseUint(v, 10, 64)
		case "lim":
			p.Limit, _ = strconv.ParseUint(v, 10, 64)
		case "total":
			p.CountTotal = v == "1"
		case "rev":
			p.Reverse = v == "1"
		}
	}
	return p
}

func aolReplayLine(e *aolEnv, l string) {
	f := strings.Fields(l)
	u := func(i int) string { return string(unhx(f[i])) }
	switch {
	case f[0] == "addr":
		e.seen[u(1)] = true
		e.s.Emit(l, "-")
	case f[0] == "reset":
		e.reset()
	case f[0] == "now":
		ns, _ := strconv.ParseInt(f[1], 10, 64)
		e.now(ns)
	case f[0] == "aol.dump":
		e.dump()
	case f[0] == "mon.c01.acked":
		off, _ := strconv.ParseUint(f[3], 10, 64)
		ts, _ := strconv.ParseInt(f[6], 10, 64)
		e.monAcked(aolAck{u(1), u(2), off, unhx(f[4]), unhx(f[5]), ts, u(7)})
	case f[0] == "aol.msg":
		switch f[1] {
		case "createTopic":
			e.msg(&aoltypes.MsgCreateTopicRequest{TopicName: u(2), Description: u(3), OwnerAddress: u(4)})
		case "addWriter":
			e.msg(&aoltypes.MsgAddWriterRequest{TopicName: u(2), Moniker: u(3), Description: u(4), WriterAddress: u(5), OwnerAddress: u(6)})
		case "deleteWriter":
			e.msg(&aoltypes.MsgDeleteWriterRequest{TopicName: u(2), WriterAddress: u(3), OwnerAddress: u(4)})
		case "addRecord":
			e.msg(&aoltypes.MsgAddRecordRequest{TopicName: u(2), Key: unhx(f[3]), Value: unhx(f[4]), WriterAddress: u(5), OwnerAddress: u(6), FeePayerAddress: u(7)})
		}
	case f[0] == "aol.q":
		switch f[1] {
		case "record":
			off, _ := strconv.ParseUint(f[4], 10, 64)
			e.qRecord(u(2), u(3), off)
		case "topic":
			e.qTopic(u(2), u(3))
		case "writer":
			e.qWriter(u(2), u(3), u(4))
		case "topics":
			e.qTopics(u(2), parsePage(f[3:]))
		case "writers":
			e.qWriters(u(2), u(3), parsePage(f[4:]))
		}
	default:
		panic("aol replay: " + l)
	}
}
