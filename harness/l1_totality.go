package main

// Stream "totality" (C17): every custom gRPC query handler on absent requests, absent sub-messages, empty and
// over-long strings, malformed addresses, extreme integers, invalid UTF-8 and extreme pagination requests; every
// ValidateBasic on the zero value of its message.  Each op is a monitor: "pass" unless the call panicked.
// The reverse-pagination case of finding F14 is emitted as its own op so that it can be matched precisely.

import (
	"fmt"
	"math/rand"
	"strings"
	"time"

	sdk "github.com/cosmos/cosmos-sdk/types"
	"github.com/cosmos/cosmos-sdk/types/query"
	aolkeeper "github.com/medibloc/panacea-core/v2/x/aol/keeper"
	aoltypes "github.com/medibloc/panacea-core/v2/x/aol/types"
	didtypes "github.com/medibloc/panacea-core/v2/x/did/types"
	pnftkeeper "github.com/medibloc/panacea-core/v2/x/pnft/keeper"
	pnfttypes "github.com/medibloc/panacea-core/v2/x/pnft/types"
)

func noPanic(f func()) string {
	return guard(func() string { f(); return "pass" })
}

func init() {
	streams["totality"] = func(dir string, rng *rand.Rand, n int, tier string) {
		s := NewStream(dir, "totality")
		defer s.Close(dir, "totality")
		// end-of-block processing is not halted by what ordinary transactions can leave behind (the same scenario as C07's)
		monModuleAccountRecipient(s, "mon.c17.endblock-not-halted")
		monConcurrentValidation(s, "c17")
		monC17DidHandlerGrid(s)
		c, err := NewChain(memDB(), tmpHome(), nil, 0, nil)
		if err != nil {
			panic(err)
		}
		c.Begin(c.Time.Add(time.Second))
		ctx := c.DeliverCtx()
		g := sdk.WrapSDKContext(ctx)
		ak, dk, pk := c.App.AolKeeper, c.App.DidKeeper, c.App.PnftKeeper
		owner := sdk.AccAddress([]byte("totality-owner-addr1")).String()
		// a little state so that listings have entries
		ams := aolkeeper.NewMsgServerImpl(ak)
		for _, t := range []string{"a", "b", "c"} {
			ams.CreateTopic(g, &aoltypes.MsgCreateTopicRequest{TopicName: t, OwnerAddress: owner})
			ams.AddWriter(g, &aoltypes.MsgAddWriterRequest{TopicName: t, WriterAddress: owner, OwnerAddress: owner})
		}
		pms := pnftkeeper.NewMsgServerImpl(&c.App.PnftKeeper)
		for _, d := range []string{"d1", "d2", "d3"} {
			pms.CreateDenom(g, &pnfttypes.MsgCreateDenomRequest{Id: d, Name: "n", Symbol: "s", Creator: owner})
		}
		strs := []string{"", "a", owner, strings.Repeat("x", 255), strings.Repeat("x", 256), strings.Repeat("x", 70000), "\xff\xfe", "a\x00b", " ", "panacea1"}
		pages := []*query.PageRequest{nil, {}, {Limit: ^uint64(0)}, {Offset: ^uint64(0), Limit: 5}, {Key: []byte("zzz"), Reverse: true}, {Key: []byte{0}, Limit: 1},
			{Offset: 1, Key: []byte("a")}, {Reverse: true, Limit: 1}, {CountTotal: true, Reverse: true}}
		emit := func(name string, f func()) { s.Emit("mon.c17 "+name, noPanic(f)) }
		// absent requests
		emit("aol.Record(nil)", func() { ak.Record(g, nil) })
		emit("aol.Topic(nil)", func() { ak.Topic(g, nil) })
		emit("aol.Topics(nil)", func() { ak.Topics(g, nil) })
		emit("aol.Writer(nil)", func() { ak.Writer(g, nil) })
		emit("aol.Writers(nil)", func() { ak.Writers(g, nil) })
		emit("did.DID(nil)", func() { dk.DID(g, nil) })
		emit("pnft.Denoms(nil)", func() { pk.Denoms(g, nil) })
		emit("pnft.DenomsByOwner(nil)", func() { pk.DenomsByOwner(g, nil) })
		emit("pnft.Denom(nil)", func() { pk.Denom(g, nil) })
		emit("pnft.PNFTs(nil)", func() { pk.PNFTs(g, nil) })
		emit("pnft.PNFTsByDenomOwner(nil)", func() { pk.PNFTsByDenomOwner(g, nil) })
		emit("pnft.PNFT(nil)", func() { pk.PNFT(g, nil) })
		// zero-value messages
		zero := []sdk.Msg{&aoltypes.MsgCreateTopicRequest{}, &aoltypes.MsgAddWriterRequest{}, &aoltypes.MsgDeleteWriterRequest{}, &aoltypes.MsgAddRecordRequest{},
			&didtypes.MsgCreateDIDRequest{}, &didtypes.MsgUpdateDIDRequest{}, &didtypes.MsgDeactivateDIDRequest{},
			&pnfttypes.MsgCreateDenomRequest{}, &pnfttypes.MsgUpdateDenomRequest{}, &pnfttypes.MsgDeleteDenomRequest{}, &pnfttypes.MsgTransferDenomRequest{},
			&pnfttypes.MsgMintPNFTRequest{}, &pnfttypes.MsgTransferPNFTRequest{}, &pnfttypes.MsgBurnPNFTRequest{}}
		for _, m := range zero {
			m := m
			emit(fmt.Sprintf("ValidateBasic(zero %T)", m), func() { m.ValidateBasic() })
		}
		// every string argument over the odd strings, every listing over the odd pages
		for i, a := range strs {
			for j, b := range strs {
				if (i+j)%3 != 0 && i != j {
					continue
				}
				a, b := a, b
				emit(fmt.Sprintf("aol.Record(%d,%d)", i, j), func() { ak.Record(g, &aoltypes.QueryRecordRequest{OwnerAddress: a, TopicName: b, Offset: ^uint64(0)}) })
				emit(fmt.Sprintf("aol.Topic(%d,%d)", i, j), func() { ak.Topic(g, &aoltypes.QueryTopicRequest{OwnerAddress: a, TopicName: b}) })
				emit(fmt.Sprintf("aol.Writer(%d,%d)", i, j), func() { ak.Writer(g, &aoltypes.QueryWriterRequest{OwnerAddress: a, TopicName: b, WriterAddress: a}) })
				emit(fmt.Sprintf("pnft.PNFT(%d,%d)", i, j), func() { pk.PNFT(g, &pnfttypes.QueryPNFTRequest{DenomId: a, Id: b}) })
				emit(fmt.Sprintf("pnft.PNFTsByDenomOwner(%d,%d)", i, j), func() { pk.PNFTsByDenomOwner(g, &pnfttypes.QueryPNFTsByDenomOwnerRequest{DenomId: a, Owner: b}) })
			}
			a := a
			emit(fmt.Sprintf("did.DID(%d)", i), func() { dk.DID(g, &didtypes.QueryDIDRequest{DidBase64: a}) })
			emit(fmt.Sprintf("pnft.Denom(%d)", i), func() { pk.Denom(g, &pnfttypes.QueryDenomRequest{Id: a}) })
			emit(fmt.Sprintf("pnft.PNFTs(%d)", i), func() { pk.PNFTs(g, &pnfttypes.QueryPNFTsRequest{DenomId: a}) })
			emit(fmt.Sprintf("pnft.DenomsByOwner(%d)", i), func() { pk.DenomsByOwner(g, &pnfttypes.QueryDenomsByOwnerRequest{Owner: a}) })
			for k, p := range pages {
				p := p
				emit(fmt.Sprintf("aol.Topics(%d,page%d)", i, k), func() { ak.Topics(g, &aoltypes.QueryTopicsRequest{OwnerAddress: a, Pagination: p}) })
				emit(fmt.Sprintf("aol.Writers(%d,page%d)", i, k), func() { ak.Writers(g, &aoltypes.QueryWritersRequest{OwnerAddress: owner, TopicName: a, Pagination: p}) })
			}
		}
		for k, p := range pages {
			p := p
			emit(fmt.Sprintf("pnft.Denoms(page%d)", k), func() { pk.Denoms(g, &pnfttypes.QueryDenomsRequest{Pagination: p}) })
		}
		// finding F14, as its own op: reverse pagination starting at the last key of the listing
		s.Emit("mon.c17.f14 aol.Topics reverse key=last", noPanic(func() {
			ak.Topics(g, &aoltypes.QueryTopicsRequest{OwnerAddress: owner, Pagination: &query.PageRequest{Key: []byte{1, 'c'}, Limit: 1, Reverse: true}})
		}))
		s.Emit("mon.c17.f14 pnft.Denoms reverse key=last", noPanic(func() {
			pk.Denoms(g, &pnfttypes.QueryDenomsRequest{Pagination: &query.PageRequest{Key: []byte("d3"), Limit: 1, Reverse: true}})
		}))
	}
}
