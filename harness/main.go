// Command harness drives the real panacea-core code in-process and writes, for each stream, the
// operation lines (<stream>.ops) and the implementation's canonicalised answers (<stream>.impl).
// The same .ops file is piped to the Lean model driver; bin/check diffs the two answer streams.
package main

import (
	"bufio"
	"encoding/hex"
	"flag"
	"fmt"
	"math/rand"
	"os"
	"path/filepath"
	"sort"
	"strings"
)

type Stream struct {
	ops, impl *bufio.Writer
	fo, fi    *os.File
	N         int
	Hist      map[string]int // distribution: op kind / outcome class
	dir, name string
}

func NewStream(dir, name string) *Stream {
	fo, err := os.Create(filepath.Join(dir, name+".ops"))
	if err != nil {
		panic(err)
	}
	fi, err := os.Create(filepath.Join(dir, name+".impl"))
	if err != nil {
		panic(err)
	}
	return &Stream{ops: bufio.NewWriter(fo), impl: bufio.NewWriter(fi), fo: fo, fi: fi, Hist: map[string]int{}, dir: dir, name: name}
}

// Emit writes one operation line and the implementation's answer line.
// Inflight records, before it runs, an operation that may take the whole process down (the application calls
// os.Exit when its stores do not load): if the process dies, bin/check reports this operation as the failing input.
func (s *Stream) Inflight(op string) {
	if s.dir != "" {
		os.WriteFile(filepath.Join(s.dir, s.name+".inflight"), []byte(op+"\n"), 0o644)
	}
}

func (s *Stream) Emit(op string, ans string) {
	if s.dir != "" {
		os.Remove(filepath.Join(s.dir, s.name+".inflight"))
	}
	if strings.ContainsAny(op, "\n") || strings.ContainsAny(ans, "\n") {
		panic("newline in protocol line")
	}
	fmt.Fprintln(s.ops, op)
	fmt.Fprintln(s.impl, ans)
	s.N++
	kind := op
	if i := strings.IndexByte(op, ' '); i >= 0 {
		kind = op[:i]
	}
	cls := ans
	if i := strings.IndexByte(ans, ' '); i >= 0 {
		cls = ans[:i]
	}
	s.Hist[kind+" "+cls]++
}

// Note writes an op line that the model consumes silently (tables); answer is "-".
func (s *Stream) Close(dir, name string) {
	s.ops.Flush()
	s.impl.Flush()
	s.fo.Close()
	s.fi.Close()
	keys := make([]string, 0, len(s.Hist))
	for k := range s.Hist {
		keys = append(keys, k)
	}
	sort.Strings(keys)
	f, _ := os.Create(filepath.Join(dir, name+".hist"))
	defer f.Close()
	for _, k := range keys {
		fmt.Fprintf(f, "%s %d\n", k, s.Hist[k])
	}
}

func hx(b []byte) string {
	if len(b) == 0 {
		return "-"
	}
	return hex.EncodeToString(b)
}

func hxs(s string) string { return hx([]byte(s)) }

func hxList(bzs [][]byte) string {
	if len(bzs) == 0 {
		return "~"
	}
	parts := make([]string, len(bzs))
	for i, b := range bzs {
		parts[i] = hx(b)
	}
	return strings.Join(parts, ",")
}

// guard runs f and maps a runtime panic to the answer "panic".
func guard(f func() string) (ans string) {
	defer func() {
		if r := recover(); r != nil {
			if os.Getenv("VERIF_DEBUG_PANIC") != "" {
				fmt.Fprintf(os.Stderr, "guard: panic: %v\n", r)
			}
			ans = "panic"
		}
	}()
	return f()
}

var streams = map[string]func(dir string, rng *rand.Rand, n int, tier string){}

func main() {
	seed := flag.Int64("seed", 1, "PRNG seed (VERIF_SEED)")
	n := flag.Int("n", 1000, "budget (cases or histories)")
	out := flag.String("out", "", "output directory")
	tier := flag.String("tier", "quick", "quick|thorough")
	replay := flag.String("replay", "", "replay an .ops file against the implementation (stream given by -stream)")
	stream := flag.String("stream", "", "stream name")
	flag.Parse()
	if *out == "" || *stream == "" {
		fmt.Fprintln(os.Stderr, "usage: harness -stream NAME -out DIR [-seed N] [-n N] [-tier T] [-replay FILE]")
		os.Exit(2)
	}
	if err := os.MkdirAll(*out, 0o755); err != nil {
		panic(err)
	}
	if *replay != "" {
		if err := replayOps(*stream, *replay, *out); err != nil {
			fmt.Fprintln(os.Stderr, "replay:", err)
			os.Exit(2)
		}
		return
	}
	f, ok := streams[*stream]
	if !ok {
		fmt.Fprintln(os.Stderr, "unknown stream", *stream)
		os.Exit(2)
	}
	rng := rand.New(rand.NewSource(*seed))
	f(*out, rng, *n, *tier)
}
