package main

// Stream "signbytes" (C14): for all 14 custom message types and many field values (including empty optional
// fields), the bytes an account signs in every enabled sign mode, obtained from the real
// TxConfig.SignModeHandler.  Ops:
//   sb.legacy <msg…>             the message's own legacy GetSignBytes (exact bytes, compared with the model's
//                                rendering of the canonical amino-JSON object)
//   mon.c14.pair mode=… A=… B=…  monitor: two different messages must not share sign bytes in that mode

import (
	"bytes"
	"fmt"
	"github.com/cosmos/cosmos-sdk/x/authz"
	govv1 "github.com/cosmos/cosmos-sdk/x/gov/types/v1"
	"github.com/cosmos/cosmos-sdk/x/group"
	"math/rand"
	"strings"

	sdk "github.com/cosmos/cosmos-sdk/types"
	"github.com/cosmos/cosmos-sdk/types/tx/signing"
	authsigning "github.com/cosmos/cosmos-sdk/x/auth/signing"
	aoltypes "github.com/medibloc/panacea-core/v2/x/aol/types"
	didtypes "github.com/medibloc/panacea-core/v2/x/did/types"
	pnfttypes "github.com/medibloc/panacea-core/v2/x/pnft/types"
)

type sbEnv struct {
	c *Chain
	s *Stream
	e *txEnv
}

// signBytesOf returns the bytes signer `a` signs for a transaction carrying exactly `m`, or an error string.
func (e *sbEnv) signBytesOf(m sdk.Msg, mode signing.SignMode, a *Acct, more ...sdk.Msg) ([]byte, string) {
	var out []byte
	res := guard(func() string {
		b := e.c.TxCfg.NewTxBuilder()
		if err := b.SetMsgs(append([]sdk.Msg{m}, more...)...); err != nil {
			return "err"
		}
		b.SetGasLimit(100000)
		b.SetFeeAmount(sdk.NewCoins(sdk.NewInt64Coin(feeDenom, 1)))
		if err := b.SetSignatures(signing.SignatureV2{PubKey: a.Priv.PubKey(), Data: &signing.SingleSignatureData{SignMode: mode}, Sequence: 7}); err != nil {
			return "err"
		}
		sd := authsigning.SignerData{Address: a.Bech(), ChainID: chainID, AccountNumber: 3, Sequence: 7, PubKey: a.Priv.PubKey()}
		bz, err := e.c.TxCfg.SignModeHandler().GetSignBytes(mode, sd, b.GetTx())
		if err != nil {
			return "err"
		}
		out = bz
		return "ok"
	})
	return out, res
}

func msgLabel(e *txEnv, m sdk.Msg) string {
	switch m := m.(type) {
	case *authz.MsgExec:
		inner, err := m.GetMessages()
		if err != nil {
			return "exec ?"
		}
		segs := []string{fmt.Sprintf("exec %s %d", e.addr(m.Grantee), len(inner))}
		for _, im := range inner {
			segs = append(segs, msgLabel(e, im))
		}
		return strings.Join(segs, " ; ")
	case *govv1.MsgSubmitProposal:
		inner, err := m.GetMsgs()
		if err != nil {
			return "govsubmit ?"
		}
		segs := []string{fmt.Sprintf("govsubmit %s %d", e.addr(m.Proposer), len(inner))}
		for _, im := range inner {
			segs = append(segs, msgLabel(e, im))
		}
		return strings.Join(segs, " ; ")
	case *group.MsgSubmitProposal:
		inner, err := m.GetMsgs()
		if err != nil {
			return "groupsubmit ?"
		}
		segs := []string{fmt.Sprintf("groupsubmit %s %d", e.addr(m.GroupPolicyAddress), len(inner))}
		for _, im := range inner {
			segs = append(segs, msgLabel(e, im))
		}
		return strings.Join(segs, " ; ")
	case *didtypes.MsgCreateDIDRequest:
		return fmt.Sprintf("did create %s %s %s %s %s %s", hxs(m.Did), docTok(m.Document), hx(docBytes(m.Document)), hxs(m.VerificationMethodId), hx(m.Signature), e.addr(m.FromAddress))
	case *didtypes.MsgUpdateDIDRequest:
		return fmt.Sprintf("did update %s %s %s %s %s %s", hxs(m.Did), docTok(m.Document), hx(docBytes(m.Document)), hxs(m.VerificationMethodId), hx(m.Signature), e.addr(m.FromAddress))
	case *didtypes.MsgDeactivateDIDRequest:
		return fmt.Sprintf("did deactivate %s %s %s %s", hxs(m.Did), hxs(m.VerificationMethodId), hx(m.Signature), e.addr(m.FromAddress))
	case *pnfttypes.MsgUpdateDenomRequest:
		return fmt.Sprintf("pnft updateDenom %s %s %s %s %s %s %s %s", hxs(m.Id), hxs(m.Name), hxs(m.Symbol), hxs(m.Description), hxs(m.Uri), hxs(m.UriHash), hxs(m.Data), e.addr(m.Updater))
	}
	return innerTok(e, m)
}

func init() {
	streams["signbytes"] = func(dir string, rng *rand.Rand, n int, tier string) {
		s := NewStream(dir, "signbytes")
		defer s.Close(dir, "signbytes")
		monC14Transplant(s)
		c, err := NewChain(memDB(), tmpHome(), nil, 0, nil)
		if err != nil {
			panic(err)
		}
		te := &txEnv{c: c, s: s, seen: map[string]bool{}}
		e := &sbEnv{c: c, s: s, e: te}
		A := newAcct("A", []byte("sb-A"))
		B := newAcct("B", []byte("sb-B"))
		idents, _ := mkIdents()
		doc, _ := genDoc(rand.New(rand.NewSource(3)), idents[0].did, idents[0])
		// the same DID with other documents: messages that agree in every field but the document
		docB, _ := genDoc(rand.New(rand.NewSource(5)), idents[0].did, idents[0])
		docC := *doc
		docC.Services = []*didtypes.Service{{Id: "s9", Type: "T", ServiceEndpoint: "https://other"}}
		docs := []*didtypes.DIDDocument{doc, doc, docB, &docC}
		strs := []string{"", "t", "topic-1", "caf\u00e9", "caf\\u00e9", "a\"b", "x<y>&z", "tab\there\nnl", "日本語", "back\\slash", "\u2028sep"}
		opt := func() string { return strs[rng.Intn(len(strs))] }
		gen := func() sdk.Msg {
			o, w := A.Bech(), []string{A.Bech(), B.Bech()}[rng.Intn(2)]
			switch rng.Intn(14) {
			case 0:
				return &aoltypes.MsgCreateTopicRequest{TopicName: "t", Description: opt(), OwnerAddress: o}
			case 1:
				return &aoltypes.MsgAddWriterRequest{TopicName: "t", Moniker: opt(), Description: opt(), WriterAddress: w, OwnerAddress: o}
			case 2:
				return &aoltypes.MsgDeleteWriterRequest{TopicName: "t", WriterAddress: w, OwnerAddress: o}
			case 3:
				fp := ""
				if rng.Intn(3) == 0 {
					fp = o
				}
				return &aoltypes.MsgAddRecordRequest{TopicName: "t", Key: []byte(opt()), Value: []byte(opt()), WriterAddress: w, OwnerAddress: o, FeePayerAddress: fp}
			case 4:
				return &didtypes.MsgCreateDIDRequest{Did: idents[0].did, Document: docs[rng.Intn(len(docs))], VerificationMethodId: idents[0].did + "#key1", Signature: []byte{1, 2}, FromAddress: o}
			case 5:
				return &didtypes.MsgUpdateDIDRequest{Did: idents[0].did, Document: docs[rng.Intn(len(docs))], VerificationMethodId: idents[0].did + "#key1", Signature: []byte{1, 2}, FromAddress: o}
			case 6:
				return &didtypes.MsgDeactivateDIDRequest{Did: idents[0].did, VerificationMethodId: idents[0].did + "#key1", Signature: []byte{1, 2}, FromAddress: o}
			case 7:
				return &pnfttypes.MsgCreateDenomRequest{Id: "d", Name: "n", Symbol: "s", Description: opt(), Uri: opt(), Creator: o}
			case 8:
				return &pnfttypes.MsgUpdateDenomRequest{Id: "d", Name: opt(), Symbol: opt(), Updater: o}
			case 9:
				return &pnfttypes.MsgDeleteDenomRequest{Id: "d", Remover: o}
			case 10:
				return &pnfttypes.MsgTransferDenomRequest{Id: "d", Sender: o, Receiver: w}
			case 11:
				return &pnfttypes.MsgMintPNFTRequest{DenomId: "d", Id: "1", Name: "n", Description: opt(), Creator: o}
			case 12:
				return &pnfttypes.MsgTransferPNFTRequest{DenomId: "d", Id: "1", Sender: o, Receiver: w}
			default:
				return &pnfttypes.MsgBurnPNFTRequest{DenomId: "d", Id: "1", Burner: o}
			}
		}
		modes := []struct {
			name string
			m    signing.SignMode
		}{{"direct", signing.SignMode_SIGN_MODE_DIRECT}, {"amino", signing.SignMode_SIGN_MODE_LEGACY_AMINO_JSON}}
		pair := func(a, b sdk.Msg) {
			la, lb := msgLabel(te, a), msgLabel(te, b)
			if la == lb {
				return
			}
			for _, md := range modes {
				ba, ra := e.signBytesOf(a, md.m, A)
				bb, rb := e.signBytesOf(b, md.m, A)
				ans := "pass"
				switch {
				case ra != "ok" || rb != "ok":
					ans = "pass #not-signable-in-this-mode"
				case bytes.Equal(ba, bb):
					ans = "fail #identical-sign-bytes"
				}
				s.Emit(fmt.Sprintf("mon.c14.pair mode=%s | %s | %s", md.name, la, lb), ans)
			}
		}
		// the systematic part: every message against the "nearest" messages of other types (same field values)
		o, w := A.Bech(), B.Bech()
		aw0 := &aoltypes.MsgAddWriterRequest{TopicName: "t", WriterAddress: w, OwnerAddress: o}
		dw := &aoltypes.MsgDeleteWriterRequest{TopicName: "t", WriterAddress: w, OwnerAddress: o}
		ar0 := &aoltypes.MsgAddRecordRequest{TopicName: "t", WriterAddress: w, OwnerAddress: o}
		ct0 := &aoltypes.MsgCreateTopicRequest{TopicName: "t", OwnerAddress: o}
		cr := &didtypes.MsgCreateDIDRequest{Did: idents[0].did, Document: doc, VerificationMethodId: "v", Signature: []byte{1}, FromAddress: o}
		up := &didtypes.MsgUpdateDIDRequest{Did: idents[0].did, Document: doc, VerificationMethodId: "v", Signature: []byte{1}, FromAddress: o}
		// messages that differ only in bytes that are not valid UTF-8 inside a free-text string field (the
		// validators admit them; amino-JSON renders every such byte as U+FFFD) — own monitor name, see F17
		pairU := func(a, b sdk.Msg) {
			la, lb := msgLabel(te, a), msgLabel(te, b)
			for _, md := range modes {
				ba, ra := e.signBytesOf(a, md.m, A)
				bb, rb := e.signBytesOf(b, md.m, A)
				ans := "pass"
				switch {
				case ra != "ok" || rb != "ok":
					ans = "pass #not-signable-in-this-mode"
				case bytes.Equal(ba, bb):
					ans = "fail #identical-sign-bytes"
				}
				s.Emit(fmt.Sprintf("mon.c14.pair.utf8 mode=%s | %s | %s", md.name, la, lb), ans)
			}
		}
		pairU(&aoltypes.MsgCreateTopicRequest{TopicName: "t", Description: "caf\xff", OwnerAddress: o},
			&aoltypes.MsgCreateTopicRequest{TopicName: "t", Description: "caf\xfe", OwnerAddress: o})
		pairU(&aoltypes.MsgAddWriterRequest{TopicName: "t", Description: "\xc3", WriterAddress: w, OwnerAddress: o},
			&aoltypes.MsgAddWriterRequest{TopicName: "t", Description: "\xe9", WriterAddress: w, OwnerAddress: o})
		pairU(&pnfttypes.MsgCreateDenomRequest{Id: "d", Name: "n", Symbol: "s", Description: "\xff", Creator: o},
			&pnfttypes.MsgCreateDenomRequest{Id: "d", Name: "n", Symbol: "s", Description: "\xfe", Creator: o})
		// transactions with several messages: a signature covers all of them — two transactions that differ in their
		// first message only must not share sign bytes (and the bytes of one message must not depend on the next)
		{
			awOf := func(w string) *aoltypes.MsgAddWriterRequest {
				return &aoltypes.MsgAddWriterRequest{TopicName: "t", WriterAddress: w, OwnerAddress: o}
			}
			c1 := sdk.AccAddress([]byte("writer-c-address-xxx")).String()
			multi := func(x, y []sdk.Msg) {
				lx, ly := "", ""
				for _, m := range x {
					lx += msgLabel(te, m) + " ; "
				}
				for _, m := range y {
					ly += msgLabel(te, m) + " ; "
				}
				for _, md := range modes {
					for rep := 0; rep < 3; rep++ {
						ba, ra := e.signBytesOf(x[0], md.m, A, x[1:]...)
						bb, rb := e.signBytesOf(y[0], md.m, A, y[1:]...)
						ans := "pass"
						switch {
						case ra != "ok" || rb != "ok":
							ans = "pass #not-signable-in-this-mode"
						case bytes.Equal(ba, bb):
							ans = "fail #identical-sign-bytes"
						}
						s.Emit(fmt.Sprintf("mon.c14.pair mode=%s multi | %s| %s", md.name, lx, ly), ans)
						if ans != "pass" {
							break
						}
					}
				}
			}
			// batches of add-records of equal encoded length that differ in the first record only
			arOf := func(key string) *aoltypes.MsgAddRecordRequest {
				return &aoltypes.MsgAddRecordRequest{TopicName: "t", Key: []byte(key), Value: []byte("value"), WriterAddress: w, OwnerAddress: o}
			}
			multi([]sdk.Msg{arOf("key-a"), arOf("key-z")}, []sdk.Msg{arOf("key-b"), arOf("key-z")})
			multi([]sdk.Msg{arOf("key-a"), arOf("key-y"), arOf("key-z")}, []sdk.Msg{arOf("key-a"), arOf("key-x"), arOf("key-z")})
			multi([]sdk.Msg{awOf(w), awOf(c1)}, []sdk.Msg{awOf(o), awOf(c1)})
			multi([]sdk.Msg{ct0, awOf(w)}, []sdk.Msg{dw, awOf(w)})
		}
		// the same messages carried inside the chain's standard delegation wrapper (authz MsgExec): the wrapper's sign
		// bytes contain the inner messages, which must still be told apart by type
		{
			wrap := func(m sdk.Msg) sdk.Msg { x := authz.NewMsgExec(A.Addr, []sdk.Msg{m}); return &x }
			pair(wrap(aw0), wrap(dw))
			pair(wrap(aw0), wrap(ar0))
			pair(wrap(dw), wrap(ar0))
			pair(wrap(cr), wrap(up))
			pair(wrap(&pnfttypes.MsgBurnPNFTRequest{DenomId: "d", Id: "1", Burner: o}), wrap(&pnfttypes.MsgDeleteDenomRequest{Id: "d", Remover: o}))
		}
		// ... and inside the two other SDK wrappers that carry arbitrary messages and are wired into the application:
		// a governance (v1) proposal and a group proposal, whose sign bytes come from those modules' amino codecs
		{
			gov := func(m sdk.Msg) sdk.Msg {
				x, err := govv1.NewMsgSubmitProposal([]sdk.Msg{m}, sdk.NewCoins(sdk.NewInt64Coin(feeDenom, 1)), o, "", "t", "s")
				if err != nil {
					panic(err)
				}
				return x
			}
			grp := func(m sdk.Msg) sdk.Msg {
				x, err := group.NewMsgSubmitProposal(o, []string{o}, []sdk.Msg{m}, "", group.Exec_EXEC_TRY, "t", "s")
				if err != nil {
					panic(err)
				}
				return x
			}
			for _, wrap := range []func(sdk.Msg) sdk.Msg{gov, grp} {
				pair(wrap(aw0), wrap(dw))
				pair(wrap(aw0), wrap(ar0))
				pair(wrap(dw), wrap(ar0))
				pair(wrap(cr), wrap(up))
				pair(wrap(&pnfttypes.MsgBurnPNFTRequest{DenomId: "d", Id: "1", Burner: o}), wrap(&pnfttypes.MsgDeleteDenomRequest{Id: "d", Remover: o}))
			}
		}
		// controller absent / present but empty: two different messages on the wire (and two different stored documents)
		// whose amino-JSON renderings coincide; at most one of them may be admissible (F32)
		{
			withCtl := func(c *didtypes.JSONStringOrStrings) *didtypes.MsgCreateDIDRequest {
				d := *doc
				d.Controller = c
				vmID := ""
				if len(d.Authentications) > 0 {
					vmID = d.Authentications[0].GetVerificationMethodId()
					if vm := d.Authentications[0].GetVerificationMethod(); vm != nil {
						vmID = vm.Id
					}
				}
				return &didtypes.MsgCreateDIDRequest{Did: idents[0].did, Document: &d, VerificationMethodId: vmID, Signature: bytes.Repeat([]byte{1}, 64), FromAddress: o}
			}
			type ctlPair struct{ a, b *didtypes.MsgCreateDIDRequest }
			cA := idents[0].did
			pairsC := []ctlPair{
				{withCtl(nil), withCtl(&didtypes.JSONStringOrStrings{})},
				// repeated controller entries: lists that differ are different documents
				{withCtl(&didtypes.JSONStringOrStrings{cA}), withCtl(&didtypes.JSONStringOrStrings{cA, cA})},
				{withCtl(&didtypes.JSONStringOrStrings{""}), withCtl(&didtypes.JSONStringOrStrings{"", ""})},
				{withCtl(&didtypes.JSONStringOrStrings{cA, ""}), withCtl(&didtypes.JSONStringOrStrings{"", cA})},
			}
			for _, cp := range pairsC {
				a, b := cp.a, cp.b
				la, lb := msgLabel(te, a), msgLabel(te, b)
				for _, md := range modes {
					ba, ra := e.signBytesOf(a, md.m, A)
					bb, rb := e.signBytesOf(b, md.m, A)
					ans := "pass"
					switch {
					case ra != "ok" || rb != "ok":
						ans = "pass #not-signable-in-this-mode"
					case a.ValidateBasic() != nil && b.ValidateBasic() != nil:
						ans = "pass #neither-is-admissible"
					case a.ValidateBasic() != nil || b.ValidateBasic() != nil:
						ans = "pass #one-of-them-is-refused-by-stateless-validation"
					case bytes.Equal(ba, bb):
						ans = "fail #identical-sign-bytes"
					}
					s.Emit(fmt.Sprintf("mon.c14.pair.admissible mode=%s | %s | %s", md.name, la, lb), ans)
				}
			}
		}
		// the node renders the sign bytes after stateless validation has run on the message object (ValidateBasicDecorator
		// comes before SigVerificationDecorator): messages that differ only in the spelling of an address are still
		// different messages then
		{
			up := strings.ToUpper
			afterVB := func(a, b sdk.Msg) {
				la, lb := msgLabel(te, a), msgLabel(te, b)
				ea, eb := a.ValidateBasic(), b.ValidateBasic()
				for _, md := range modes {
					ba, ra := e.signBytesOf(a, md.m, A)
					bb, rb := e.signBytesOf(b, md.m, A)
					ans := "pass"
					switch {
					case ea != nil || eb != nil:
						ans = "pass #one-of-them-is-refused-by-stateless-validation"
					case ra != "ok" || rb != "ok":
						ans = "pass #not-signable-in-this-mode"
					case bytes.Equal(ba, bb):
						ans = "fail #identical-sign-bytes"
					}
					s.Emit(fmt.Sprintf("mon.c14.pair.admissible mode=%s after-validation | %s | %s", md.name, la, lb), ans)
				}
			}
			afterVB(&aoltypes.MsgAddRecordRequest{TopicName: "t", Key: []byte("k"), Value: []byte("v"), WriterAddress: w, OwnerAddress: o},
				&aoltypes.MsgAddRecordRequest{TopicName: "t", Key: []byte("k"), Value: []byte("v"), WriterAddress: up(w), OwnerAddress: o})
			afterVB(&aoltypes.MsgAddRecordRequest{TopicName: "t", Key: []byte("k"), Value: []byte("v"), WriterAddress: w, OwnerAddress: o},
				&aoltypes.MsgAddRecordRequest{TopicName: "t", Key: []byte("k"), Value: []byte("v"), WriterAddress: w, OwnerAddress: up(o)})
			afterVB(&aoltypes.MsgAddWriterRequest{TopicName: "t", Moniker: "m", WriterAddress: w, OwnerAddress: o},
				&aoltypes.MsgAddWriterRequest{TopicName: "t", Moniker: "m", WriterAddress: up(w), OwnerAddress: o})
			afterVB(&aoltypes.MsgCreateTopicRequest{TopicName: "t", Description: "d", OwnerAddress: o},
				&aoltypes.MsgCreateTopicRequest{TopicName: "t", Description: "d", OwnerAddress: up(o)})
			afterVB(&aoltypes.MsgDeleteWriterRequest{TopicName: "t", WriterAddress: w, OwnerAddress: o},
				&aoltypes.MsgDeleteWriterRequest{TopicName: "t", WriterAddress: up(w), OwnerAddress: o})
		}
		pair(aw0, dw)
		pair(aw0, ar0)
		pair(dw, ar0)
		pair(ct0, dw)
		pair(cr, up)
		for i := 0; i < n; i++ {
			pair(gen(), gen())
		}
		// exact legacy sign bytes of the AOL messages (the PNFT messages are not signable in amino mode; DID
		// messages embed documents with custom JSON marshalers and are covered by the pair monitor only)
		for i := 0; i < n; i++ {
			m := gen()
			if !strings.HasPrefix(fmt.Sprintf("%T", m), "*types.Msg") {
				continue
			}
			lm, ok := m.(interface{ GetSignBytes() []byte })
			if !ok {
				continue
			}
			switch m.(type) {
			case *aoltypes.MsgCreateTopicRequest, *aoltypes.MsgAddWriterRequest, *aoltypes.MsgDeleteWriterRequest, *aoltypes.MsgAddRecordRequest:
				s.Emit("sb.legacy "+innerTok(te, m), guard(func() string { return "ok " + hx(lm.GetSignBytes()) }))
			}
		}
	}
}
