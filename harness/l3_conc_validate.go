package main

// mon.c20.concurrent-validation: the stateless code of the custom modules is called from many goroutines at once
// (CheckTx, gRPC queries, simulations, the REST gateway).  Sixteen goroutines validate and render sign bytes of
// messages whose free fields take values no other call has used before (key type names, method ids, topic names,
// denom ids …): every call must return what a single-threaded call returns, and the process must survive — Go's
// "concurrent map writes" is a fatal error no recover() catches, so a start that dies is attributed to this op by
// the in-flight marker.

import (
	"fmt"
	"sync"

	sdk "github.com/cosmos/cosmos-sdk/types"
	aoltypes "github.com/medibloc/panacea-core/v2/x/aol/types"
	didtypes "github.com/medibloc/panacea-core/v2/x/did/types"
	pnfttypes "github.com/medibloc/panacea-core/v2/x/pnft/types"
)

func monC20ConcurrentValidation(s *Stream) { monConcurrentValidation(s, "c20") }

// the same run under C17's name: "never aborts" includes the aborts no recover() catches
func monConcurrentValidation(s *Stream, prop string) {
	name := "mon." + prop + ".concurrent-validation"
	s.Inflight(name)
	s.Emit(name, guard(func() string {
		setConfigOnce()
		good := sdk.AccAddress([]byte("a-20-byte-address-xx")).String()
		k := newDidKey("conc-validate")
		var wg sync.WaitGroup
		var mu sync.Mutex
		bad := ""
		for g := 0; g < 16; g++ {
			wg.Add(1)
			go func(g int) {
				defer wg.Done()
				for r := 0; r < 300; r++ {
					fresh := fmt.Sprintf("g%dr%d", g, r)
					did := didtypes.NewDID([]byte(fresh)) // an identifier no other call has seen
					vmID := did + "#" + fresh
					vm := &didtypes.VerificationMethod{Id: vmID, Type: "KeyType" + fresh, Controller: did, PublicKeyBase58: k.b58}
					d := didtypes.NewDIDDocument(did, didtypes.WithVerificationMethods([]*didtypes.VerificationMethod{vm}),
						didtypes.WithAuthentications([]didtypes.VerificationRelationship{rel(vmID)}))
					msgs := []sdk.Msg{
						&didtypes.MsgCreateDIDRequest{Did: did, Document: &d, VerificationMethodId: vmID, Signature: []byte{1}, FromAddress: good},
						&aoltypes.MsgCreateTopicRequest{TopicName: "t" + fresh, Description: fresh, OwnerAddress: good},
						&aoltypes.MsgAddRecordRequest{TopicName: "t" + fresh, Key: []byte(fresh), Value: []byte(fresh), WriterAddress: good, OwnerAddress: good},
						&pnfttypes.MsgCreateDenomRequest{Id: "d" + fresh, Name: "n", Symbol: "s", Creator: good},
					}
					for _, m := range msgs {
						if err := m.ValidateBasic(); err != nil {
							mu.Lock()
							bad = fmt.Sprintf("%T refused under concurrency: %v", m, err)
							mu.Unlock()
							return
						}
						if lm, ok := m.(interface{ GetSignBytes() []byte }); ok {
							lm.GetSignBytes()
						}
						m.GetSigners()
					}
					// ownership proofs made and checked while other goroutines make and check theirs: a proof verifies for the
					// document and sequence it was made over, and for nothing else
					seq := uint64(g*1000 + r)
					sig, err := didtypes.Sign(&d, seq, k.priv)
					if err != nil {
						continue
					}
					if _, ok := didtypes.Verify(sig, &d, seq, k.priv.PubKey()); !ok {
						mu.Lock()
						bad = "a proof made under concurrency does not verify for its own document and sequence"
						mu.Unlock()
						return
					}
					if _, ok := didtypes.Verify(sig, &d, seq+1, k.priv.PubKey()); ok {
						mu.Lock()
						bad = "a proof verifies for another sequence under concurrency"
						mu.Unlock()
						return
					}
				}
			}(g)
		}
		wg.Wait()
		if bad != "" {
			return "fail #" + bad
		}
		return "pass"
	}))
}
