package main

// mon.c14.signature-transplant: the other half of C14 — "a signature collected for one message can never validate a
// transaction carrying a different message" — on the running application.  T1 (message A, signed, sequence n) is seen
// by the node's mempool (CheckTx succeeds).  T2 has the same signer, sequence, fee and gas, T1's signature copied
// verbatim, and a different message B.  T2 must be refused by CheckTx and by DeliverTx of a block that carries it,
// in both sign modes; T1 itself is then still accepted.

import (
	"fmt"
	"time"

	dbm "github.com/cometbft/cometbft-db"
	abci "github.com/cometbft/cometbft/abci/types"
	sdk "github.com/cosmos/cosmos-sdk/types"
	"github.com/cosmos/cosmos-sdk/types/tx/signing"
	authsigning "github.com/cosmos/cosmos-sdk/x/auth/signing"
	aoltypes "github.com/medibloc/panacea-core/v2/x/aol/types"
)

func monC14Transplant(s *Stream) {
	for _, md := range []struct {
		name string
		m    signing.SignMode
	}{{"direct", signing.SignMode_SIGN_MODE_DIRECT}, {"amino", signing.SignMode_SIGN_MODE_LEGACY_AMINO_JSON}} {
		md := md
		s.Emit("mon.c14.signature-transplant mode="+md.name, guard(func() string {
			accts := rtAccts()
			c, err := NewChain(dbm.NewMemDB(), tmpHome(), accts, 100000, nil)
			if err != nil {
				return "pass #no-chain"
			}
			A := accts[0]
			t := c.Time.Add(5 * time.Second)
			runBlock(c, t, nil)
			msgA := &aoltypes.MsgCreateTopicRequest{TopicName: "topic-a", Description: "d", OwnerAddress: A.Bech()}
			msgB := &aoltypes.MsgCreateTopicRequest{TopicName: "topic-b", Description: "d", OwnerAddress: A.Bech()}
			spec := func(m sdk.Msg) TxSpec {
				return TxSpec{Msgs: []sdk.Msg{m}, Signers: []SignerSpec{{Acct: A}}, Fee: 1, Mode: md.m}
			}
			t1, err := c.BuildTx(spec(msgA))
			if err != nil {
				return "pass #not-signable-in-this-mode"
			}
			t2own, err := c.BuildTx(spec(msgB))
			if err != nil {
				return "pass #not-signable-in-this-mode"
			}
			// T2: the transaction carrying B with the signatures of T1
			d1, err := c.TxCfg.TxDecoder()(t1)
			if err != nil {
				return "pass #cannot-decode"
			}
			sigs1, err := d1.(authsigning.SigVerifiableTx).GetSignaturesV2()
			if err != nil {
				return "pass #cannot-decode"
			}
			d2, err := c.TxCfg.TxDecoder()(t2own)
			if err != nil {
				return "pass #cannot-decode"
			}
			b2, err := c.TxCfg.WrapTxBuilder(d2)
			if err != nil {
				return "pass #cannot-wrap"
			}
			if err := b2.SetSignatures(sigs1...); err != nil {
				return "pass #cannot-set-signatures"
			}
			t2, err := c.TxCfg.TxEncoder()(b2.GetTx())
			if err != nil {
				return "pass #cannot-encode"
			}
			if r := c.App.CheckTx(abci.RequestCheckTx{Tx: t1, Type: abci.CheckTxType_New}); r.Code != 0 {
				return fmt.Sprintf("pass #the-honest-transaction-is-refused-by-checktx %s/%d", r.Codespace, r.Code)
			}
			if r := c.App.CheckTx(abci.RequestCheckTx{Tx: t2, Type: abci.CheckTxType_New}); r.Code == 0 {
				return "fail #checktx-accepts-a-transaction-whose-signature-was-made-for-another-message"
			}
			t = t.Add(5 * time.Second)
			c.Begin(t)
			r2 := c.Deliver(t2)
			if r2.Code == 0 {
				return "fail #delivertx-accepts-a-transaction-whose-signature-was-made-for-another-message"
			}
			if c.App.AolKeeper.HasTopic(c.DeliverCtx(), aoltypes.TopicCompositeKey{OwnerAddress: A.Addr, TopicName: "topic-b"}) {
				return "fail #the-unsigned-message-took-effect"
			}
			if r1 := c.Deliver(t1); r1.Code != 0 {
				return fmt.Sprintf("fail #the-honest-transaction-is-refused-afterwards %s/%d", r1.Codespace, r1.Code)
			}
			c.End()
			c.Commit()
			return "pass"
		}))
	}
}
