package main

import (
	dbm "github.com/cometbft/cometbft-db"
	"bufio"
	"encoding/hex"
	"fmt"
	"os"
	"strings"
)

func unhx(s string) []byte {
	if s == "-" {
		return []byte{}
	}
	b, err := hex.DecodeString(s)
	if err != nil {
		panic("bad hex: " + s)
	}
	return b
}

func unList(s string) [][]byte {
	if s == "~" {
		return [][]byte{}
	}
	parts := strings.Split(s, ",")
	out := make([][]byte, len(parts))
	for i, p := range parts {
		out[i] = unhx(p)
	}
	return out
}

// replayOps re-executes an .ops file against the implementation (used for replays and corpus files).
func replayOps(stream, file, out string) error {
	f, err := os.Open(file)
	if err != nil {
		return err
	}
	defer f.Close()
	r, ok := replayers[stream]
	if !ok {
		return fmt.Errorf("stream %s has no replayer", stream)
	}
	s := NewStream(out, stream)
	defer s.Close(out, stream)
	sc := bufio.NewScanner(f)
	sc.Buffer(make([]byte, 1<<20), 1<<26)
	var lines []string
	for sc.Scan() {
		line := strings.TrimSpace(sc.Text())
		if line == "" || strings.HasPrefix(line, "#") {
			continue
		}
		lines = append(lines, line)
	}
	r(s, lines)
	return sc.Err()
}

var replayers = map[string]func(s *Stream, lines []string){
	"compkey": func(s *Stream, lines []string) {
		setConfigOnce()
		for _, l := range lines {
			if strings.HasPrefix(l, "addr ") {
				s.Emit(l, "-")
				continue
			}
			compkeyOp(s, l)
		}
	},
}

func memDB() dbm.DB { return dbm.NewMemDB() }

// A discarded branch (a transaction whose later message failed, ran out of gas, or that was only simulated): between
// `<mod>.begin` and `<mod>.abort` the messages run on a cache branch of the stream's state which is then dropped; the
// model restores the state it had at `begin`.  Anything a keeper remembers outside the KV store breaks that.
var inBranch bool
