package main

// Stream "did": ValidateBasic + the real x/did message server + Query/DID on a cache branch of a real app,
// with real secp256k1 keys and signatures, against the Lean model `Did.deliver` / `Did.queryDID`.
// Every message is passed through protobuf Marshal/Unmarshal first (as a transaction would be), so that
// nil-vs-empty distinctions are the ones the chain can actually see.

import (
	"encoding/base64"
	"encoding/json"
	"fmt"
	tmed25519 "github.com/cometbft/cometbft/crypto/ed25519"
	authtypes "github.com/cosmos/cosmos-sdk/x/auth/types"
	upgradetypes "github.com/cosmos/cosmos-sdk/x/upgrade/types"
	"github.com/medibloc/panacea-core/v2/app"
	"math/rand"
	"os"
	"path/filepath"
	"regexp"
	"sort"
	"strings"
	"time"

	"github.com/btcsuite/btcutil/base58"
	"github.com/cometbft/cometbft/crypto"
	tmsecp "github.com/cometbft/cometbft/crypto/secp256k1"
	sdk "github.com/cosmos/cosmos-sdk/types"
	didkeeper "github.com/medibloc/panacea-core/v2/x/did/keeper"
	didtypes "github.com/medibloc/panacea-core/v2/x/did/types"
)

// ---- canonical text of a document (parsed by the Lean driver) --------------------------------

func optStrs(p *didtypes.JSONStringOrStrings) string {
	if p == nil {
		return "^"
	}
	bz := make([][]byte, len(*p))
	for i, s := range *p {
		bz[i] = []byte(s)
	}
	return hxList(bz)
}

func vmTok(v *didtypes.VerificationMethod) string {
	return fmt.Sprintf("%s,%s,%s,%s", hxs(v.Id), hxs(v.Type), hxs(v.Controller), hxs(v.PublicKeyBase58))
}

func relsTok(rs []didtypes.VerificationRelationship) string {
	if len(rs) == 0 {
		return "~"
	}
	parts := make([]string, len(rs))
	for i, r := range rs {
		if vm := r.GetVerificationMethod(); vm != nil {
			parts[i] = "d:" + vmTok(vm)
		} else {
			parts[i] = "r:" + hxs(r.GetVerificationMethodId())
		}
	}
	return strings.Join(parts, "|")
}

func docTok(d *didtypes.DIDDocument) string {
	if d == nil {
		return "nil"
	}
	vms := "~"
	if len(d.VerificationMethods) > 0 {
		parts := make([]string, len(d.VerificationMethods))
		for i, v := range d.VerificationMethods {
			parts[i] = vmTok(v)
		}
		vms = strings.Join(parts, "|")
	}
	svs := "~"
	if len(d.Services) > 0 {
		parts := make([]string, len(d.Services))
		for i, v := range d.Services {
			parts[i] = fmt.Sprintf("%s,%s,%s", hxs(v.Id), hxs(v.Type), hxs(v.ServiceEndpoint))
		}
		svs = strings.Join(parts, "|")
	}
	return strings.Join([]string{optStrs(d.Contexts), hxs(d.Id), optStrs(d.Controller), vms,
		relsTok(d.Authentications), relsTok(d.AssertionMethods), relsTok(d.KeyAgreements),
		relsTok(d.CapabilityInvocations), relsTok(d.CapabilityDelegations), svs}, ";")
}

// ---- keys and signatures ------------------------------------------------------------------

// recPriv records the bytes it is asked to sign (the unexported mustGetSignBytesWithSeq output).
type recPriv struct {
	tmsecp.PrivKey
	last []byte
}

func (p *recPriv) Sign(msg []byte) ([]byte, error) {
	p.last = append([]byte{}, msg...)
	return p.PrivKey.Sign(msg)
}

var _ crypto.PrivKey = (*recPriv)(nil)

type didKey struct {
	priv *recPriv
	pub  []byte // 33 bytes
	b58  string
}

func newDidKey(seed string) *didKey {
	p := tmsecp.GenPrivKeySecp256k1([]byte(seed))
	pub := p.PubKey().(tmsecp.PubKey)
	return &didKey{priv: &recPriv{PrivKey: p}, pub: pub[:], b58: base58.Encode(pub[:])}
}

type didEnv struct {
	c    *Chain
	ctx  sdk.Context
	ms   didtypes.MsgServer
	s    *Stream
	seen map[string]bool
	sigs map[string]bool
}

func (e *didEnv) addr(text string) string {
	if !e.seen[text] {
		e.seen[text] = true
		emitAddr(e.s, text)
	}
	return hxs(text)
}

// begin / abort a discarded branch
func (e *didEnv) begin() func() {
	saved := e.ctx
	e.ctx, _ = e.ctx.CacheContext()
	inBranch = true
	e.s.Emit("did.begin", "-")
	return func() {
		e.ctx = saved.WithBlockTime(e.ctx.BlockTime())
		inBranch = false
		e.s.Emit("did.abort", "-")
	}
}

func (e *didEnv) reset() {
	e.ctx, _ = e.c.DeliverCtx().CacheContext()
	e.s.Emit("reset", "-")
}

// sign produces a real signature by key k over (data, seq) as the module does, and tells the model
// that exactly this (pubkey, message, signature) triple verifies.
func (e *didEnv) sign(k *didKey, data *didtypes.DIDDocument, seq uint64) []byte {
	sig, err := didtypes.Sign(data, seq, k.priv)
	if err != nil {
		panic(err)
	}
	key := hx(sig) + hx(k.pub) + hx(k.priv.last)
	if !e.sigs[key] {
		e.sigs[key] = true
		e.s.Emit(fmt.Sprintf("sig %s %s %s", hx(sig), hx(k.pub), hx(k.priv.last)), "-")
	}
	return sig
}

// signRaw produces a real signature by key k over arbitrary bytes (a proof of some other form than the module's) and
// tells the model that exactly this triple verifies.
func (e *didEnv) signRaw(k *didKey, msg []byte) []byte {
	sig, err := k.priv.Sign(msg)
	if err != nil {
		panic(err)
	}
	key := hx(sig) + hx(k.pub) + hx(k.priv.last)
	if !e.sigs[key] {
		e.sigs[key] = true
		e.s.Emit(fmt.Sprintf("sig %s %s %s", hx(sig), hx(k.pub), hx(k.priv.last)), "-")
	}
	return sig
}

func roundTripCreate(m *didtypes.MsgCreateDIDRequest) *didtypes.MsgCreateDIDRequest {
	bz, err := m.Marshal()
	if err != nil {
		panic(err)
	}
	var out didtypes.MsgCreateDIDRequest
	if err := out.Unmarshal(bz); err != nil {
		panic(err)
	}
	return &out
}

func roundTripUpdate(m *didtypes.MsgUpdateDIDRequest) *didtypes.MsgUpdateDIDRequest {
	bz, err := m.Marshal()
	if err != nil {
		panic(err)
	}
	var out didtypes.MsgUpdateDIDRequest
	if err := out.Unmarshal(bz); err != nil {
		panic(err)
	}
	return &out
}

func docBytes(d *didtypes.DIDDocument) []byte {
	if d == nil {
		return nil
	}
	bz, err := d.Marshal()
	if err != nil {
		panic(err)
	}
	return bz
}

// deliver = ValidateBasic then handler, on a sub-branch written back only on success (a failing message's
// writes are discarded by baseapp; handlers here do not write before failing anyway).
func (e *didEnv) deliver(op string, m sdk.Msg, run func(g sdk.Context) error) bool {
	ans := guard(func() string {
		if err := m.ValidateBasic(); err != nil {
			return errAns(err)
		}
		sub, write := e.ctx.CacheContext()
		if err := run(sub); err != nil {
			return errAns(err)
		}
		write()
		return "ok"
	})
	e.s.Emit(op, ans)
	return ans == "ok" && !inBranch
}

func (e *didEnv) create(m *didtypes.MsgCreateDIDRequest) bool {
	m = roundTripCreate(m)
	op := fmt.Sprintf("did.msg create %s %s %s %s %s %s", hxs(m.Did), docTok(m.Document), hx(docBytes(m.Document)), hxs(m.VerificationMethodId), hx(m.Signature), e.addr(m.FromAddress))
	return e.deliver(op, m, func(g sdk.Context) error { _, err := e.ms.CreateDID(sdk.WrapSDKContext(g), m); return err })
}

func (e *didEnv) update(m *didtypes.MsgUpdateDIDRequest) bool {
	m = roundTripUpdate(m)
	op := fmt.Sprintf("did.msg update %s %s %s %s %s %s", hxs(m.Did), docTok(m.Document), hx(docBytes(m.Document)), hxs(m.VerificationMethodId), hx(m.Signature), e.addr(m.FromAddress))
	return e.deliver(op, m, func(g sdk.Context) error { _, err := e.ms.UpdateDID(sdk.WrapSDKContext(g), m); return err })
}

func (e *didEnv) deactivate(m *didtypes.MsgDeactivateDIDRequest) bool {
	op := fmt.Sprintf("did.msg deactivate %s %s %s %s", hxs(m.Did), hxs(m.VerificationMethodId), hx(m.Signature), e.addr(m.FromAddress))
	return e.deliver(op, m, func(g sdk.Context) error { _, err := e.ms.DeactivateDID(sdk.WrapSDKContext(g), m); return err })
}

func (e *didEnv) query(did string) (seq uint64, found bool) {
	op := "did.q " + hxs(did)
	e.s.Emit(op, guard(func() string {
		r, err := e.c.App.DidKeeper.DID(sdk.WrapSDKContext(e.ctx), &didtypes.QueryDIDRequest{DidBase64: base64.StdEncoding.EncodeToString([]byte(did))})
		if err != nil {
			return errAns(err)
		}
		seq, found = r.DidDocumentWithSeq.Sequence, true
		return fmt.Sprintf("ok seq=%d doc=%s", r.DidDocumentWithSeq.Sequence, docTok(r.DidDocumentWithSeq.Document))
	}))
	return
}

// monC11 evaluates C11 on the implementation's store: every active document's id equals its key.
func (e *didEnv) monC11() {
	e.s.Emit("mon.c11.ids", guard(func() string {
		k := e.c.App.DidKeeper
		for _, did := range k.ListDIDs(e.ctx) {
			d := k.GetDIDDocument(e.ctx, did)
			if d.Document != nil && !d.Document.Empty() && d.Document.Id != did {
				return "fail " + hxs(did)
			}
		}
		return "pass"
	}))
}

// monC03UTF8 evaluates one clause of C03 on the implementation, on a scratch branch: an update whose document
// differs from the signed one only in a byte that is not valid UTF-8 must be rejected ("signatures over
// different content"). The ownership proof is made over the document's JSON, which renders every such byte as
// U+FFFD (known finding F18).
func (e *didEnv) monC03UTF8() {
	e.s.Emit("mon.c03.utf8", guard(func() string {
		ctx, _ := e.c.DeliverCtx().CacheContext()
		g := sdk.WrapSDKContext(ctx)
		k := newDidKey("utf8-owner")
		did := didtypes.NewDID(k.pub)
		vmID := did + "#key1"
		from := sdk.AccAddress([]byte("relayer-1-address-xx")).String()
		mk := func(endpoint string) *didtypes.DIDDocument {
			vm := &didtypes.VerificationMethod{Id: vmID, Type: didtypes.ES256K_2019, Controller: did, PublicKeyBase58: k.b58}
			d := didtypes.NewDIDDocument(did, didtypes.WithVerificationMethods([]*didtypes.VerificationMethod{vm}),
				didtypes.WithAuthentications([]didtypes.VerificationRelationship{rel(vmID)}))
			d.Services = []*didtypes.Service{{Id: "s1", Type: "T", ServiceEndpoint: endpoint}}
			return &d
		}
		d0 := mk("https://a")
		sig0, _ := didtypes.Sign(d0, 0, k.priv)
		cm := roundTripCreate(&didtypes.MsgCreateDIDRequest{Did: did, Document: d0, VerificationMethodId: vmID, Signature: sig0, FromAddress: from})
		if err := cm.ValidateBasic(); err != nil {
			return "fail #setup-validate " + err.Error()
		}
		if _, err := e.ms.CreateDID(g, cm); err != nil {
			return "fail #setup-create " + err.Error()
		}
		signed, sent := mk("https://b/\xff"), mk("https://b/\xfe")
		sig, _ := didtypes.Sign(signed, 0, k.priv)
		um := roundTripUpdate(&didtypes.MsgUpdateDIDRequest{Did: did, Document: sent, VerificationMethodId: vmID, Signature: sig, FromAddress: from})
		if um.Document.Services[0].ServiceEndpoint == signed.Services[0].ServiceEndpoint {
			return "fail #setup-documents-equal"
		}
		if err := um.ValidateBasic(); err != nil {
			return "pass #rejected-by-validation"
		}
		if _, err := e.ms.UpdateDID(g, um); err == nil {
			return "fail #accepted-a-proof-made-over-different-content"
		}
		return "pass"
	}))
}

// monC05GenesisSeqWrap evaluates "deactivation is permanent" on a chain started from a hand-written genesis whose
// (valid, active) document carries the largest sequence number: deactivating it must leave a tombstone — the DID must
// not become creatable again — or the genesis validation has to refuse such an entry.
func (e *didEnv) monC05GenesisSeqWrap() {
	e.monC05SeqExhaustion("mon.c05.genesis-seq-wrap", 0)
	// the same end of the sequence space reached by accepted updates: one and two operations before the last number
	e.monC05SeqExhaustion("mon.c05.seq-exhaustion 1", 1)
	e.monC05SeqExhaustion("mon.c05.seq-exhaustion 2", 2)
}

// monC05SeqExhaustion: genesis sequence 2^64-1-back, `back` accepted updates, then a deactivation
func (e *didEnv) monC05SeqExhaustion(name string, back uint64) {
	e.s.Emit(name, guard(func() string {
		k, stranger := newDidKey("wrap-owner"), newDidKey("wrap-stranger")
		did := didtypes.NewDID(k.pub)
		vmID := did + "#key1"
		mkDoc := func(key *didKey) *didtypes.DIDDocument {
			vm := &didtypes.VerificationMethod{Id: vmID, Type: didtypes.ES256K_2019, Controller: did, PublicKeyBase58: key.b58}
			d := didtypes.NewDIDDocument(did, didtypes.WithVerificationMethods([]*didtypes.VerificationMethod{vm}),
				didtypes.WithAuthentications([]didtypes.VerificationRelationship{rel(vmID)}))
			return &d
		}
		seq := ^uint64(0) - back
		w := didtypes.NewDIDDocumentWithSeq(mkDoc(k), seq)
		gs := didtypes.GenesisState{Documents: map[string]*didtypes.DIDDocumentWithSeq{didtypes.GenesisDIDDocumentKey{DID: did}.Marshal(): &w}}
		if err := gs.Validate(); err != nil {
			return "pass #rejected-by-genesis-validation"
		}
		bz, err := e.c.App.AppCodec().MarshalJSON(&gs)
		if err != nil {
			return "pass #not-encodable"
		}
		c2, err := NewChain(memDB(), tmpHome(), nil, 0, map[string]json.RawMessage{didtypes.ModuleName: bz})
		if err != nil {
			return "pass #rejected-by-init-genesis"
		}
		c2.Begin(c2.Time)
		ms := didkeeper.NewMsgServerImpl(c2.App.DidKeeper)
		g := sdk.WrapSDKContext(c2.DeliverCtx())
		from := sdk.AccAddress([]byte("relayer-1-address-xx")).String()
		for ; seq != ^uint64(0); seq++ {
			doc := mkDoc(k)
			sig, _ := didtypes.Sign(doc, seq, k.priv)
			if _, err := ms.UpdateDID(g, &didtypes.MsgUpdateDIDRequest{Did: did, Document: doc, VerificationMethodId: vmID, Signature: sig, FromAddress: from}); err != nil {
				return "pass #update-refused"
			}
		}
		sig, _ := didtypes.Sign(&didtypes.DIDDocument{Id: did}, seq, k.priv)
		if _, err := ms.DeactivateDID(g, &didtypes.MsgDeactivateDIDRequest{Did: did, VerificationMethodId: vmID, Signature: sig, FromAddress: from}); err != nil {
			return "pass #deactivation-refused"
		}
		doc2 := mkDoc(stranger)
		sig2, _ := didtypes.Sign(doc2, 0, stranger.priv)
		if _, err := ms.CreateDID(g, &didtypes.MsgCreateDIDRequest{Did: did, Document: doc2, VerificationMethodId: vmID, Signature: sig2, FromAddress: from}); err == nil {
			return "fail #deactivated-did-created-again-by-a-stranger"
		}
		return "pass"
	}))
}

// monC11Genesis evaluates C11 on a chain started from a hand-written genesis: an entry whose key is one DID and
// whose (well-formed, active) document describes another must not get into the registry — the module's genesis
// validation has to refuse it.
func (e *didEnv) monC11Genesis() {
	e.s.Emit("mon.c11.genesis-foreign-document", guard(func() string {
		ka, kb := newDidKey("gen-a"), newDidKey("gen-b")
		didA, didB := didtypes.NewDID(ka.pub), didtypes.NewDID(kb.pub)
		vmID := didB + "#key1"
		vm := &didtypes.VerificationMethod{Id: vmID, Type: didtypes.ES256K_2019, Controller: didB, PublicKeyBase58: kb.b58}
		docB := didtypes.NewDIDDocument(didB, didtypes.WithVerificationMethods([]*didtypes.VerificationMethod{vm}),
			didtypes.WithAuthentications([]didtypes.VerificationRelationship{rel(vmID)}))
		w := didtypes.NewDIDDocumentWithSeq(&docB, 0)
		// together with tombstones of other DIDs (an exported long-lived chain has them); validation must refuse the
		// foreign entry whatever order it visits the map in
		docs := map[string]*didtypes.DIDDocumentWithSeq{didtypes.GenesisDIDDocumentKey{DID: didA}.Marshal(): &w}
		for i := 0; i < 3; i++ {
			kt := newDidKey(fmt.Sprintf("gen-tomb-%d", i))
			tomb := didtypes.NewDIDDocumentWithSeq(&didtypes.DIDDocument{}, uint64(2+i))
			docs[didtypes.GenesisDIDDocumentKey{DID: didtypes.NewDID(kt.pub)}.Marshal()] = &tomb
		}
		gs := didtypes.GenesisState{Documents: docs}
		rejected := 0
		for i := 0; i < 64; i++ {
			if err := gs.Validate(); err != nil {
				rejected++
			}
		}
		if rejected == 64 {
			return "pass #rejected-by-genesis-validation"
		}
		bz, err := e.c.App.AppCodec().MarshalJSON(&gs)
		if err != nil {
			return "pass #not-encodable"
		}
		c2, err := NewChain(memDB(), tmpHome(), nil, 0, map[string]json.RawMessage{didtypes.ModuleName: bz})
		if err != nil {
			return "pass #rejected-by-init-genesis"
		}
		c2.Begin(c2.Time)
		d := c2.App.DidKeeper.GetDIDDocument(c2.DeliverCtx(), didA)
		if d.Document != nil && !d.Document.Empty() && d.Document.Id != didA {
			return "fail #registry-holds-a-document-about-another-did"
		}
		return "pass"
	}))
}

// monC11GenesisKeySpelling: a genesis entry whose *key* is a spelling variant of the DID its document describes
// (surrounding white space, a trailing newline, upper case, a repeated prefix).  Either the module's genesis validation
// refuses it, or — whatever got into the registry — every stored identifier resolves to a document about itself.
func (e *didEnv) monC11GenesisKeySpelling() {
	ka := newDidKey("gen-spell")
	did := didtypes.NewDID(ka.pub)
	for _, v := range []struct{ name, key string }{
		{"trailing-newline", did + "\n"}, {"leading-space", " " + did}, {"trailing-space", did + " "}, {"tab-crlf", "\t" + did + "\r\n"},
		{"upper-case-method", "DID:PANACEA:" + did[len("did:panacea:"):]}, {"nul", did + "\x00"},
	} {
		v := v
		e.s.Emit("mon.c11.genesis-key-spelling "+v.name, guard(func() string {
			vmID := did + "#key1"
			vm := &didtypes.VerificationMethod{Id: vmID, Type: didtypes.ES256K_2019, Controller: did, PublicKeyBase58: ka.b58}
			doc := didtypes.NewDIDDocument(did, didtypes.WithVerificationMethods([]*didtypes.VerificationMethod{vm}),
				didtypes.WithAuthentications([]didtypes.VerificationRelationship{rel(vmID)}))
			w := didtypes.NewDIDDocumentWithSeq(&doc, 0)
			gs := didtypes.GenesisState{Documents: map[string]*didtypes.DIDDocumentWithSeq{v.key: &w}}
			if err := gs.Validate(); err != nil {
				return "pass #rejected-by-genesis-validation"
			}
			bz, err := e.c.App.AppCodec().MarshalJSON(&gs)
			if err != nil {
				return "pass #not-encodable"
			}
			c2, err := NewChain(memDB(), tmpHome(), nil, 0, map[string]json.RawMessage{didtypes.ModuleName: bz})
			if err != nil {
				return "pass #rejected-by-init-genesis"
			}
			c2.Begin(c2.Time)
			ctx := c2.DeliverCtx()
			for _, stored := range c2.App.DidKeeper.ListDIDs(ctx) {
				d := c2.App.DidKeeper.GetDIDDocument(ctx, stored)
				if d.Document != nil && !d.Document.Empty() && d.Document.Id != stored {
					return "fail #registry-holds-a-document-about-another-did"
				}
			}
			return "pass"
		}))
	}
}

// monC05GenesisTombstoneResidue: genesis validation accepts, as a tombstone, an entry whose document has no id and a
// non-initial sequence — also when the document still carries content (old keys, services).  Either validation refuses
// such a file, or the chain started from it treats the DID as deactivated: not found by the read operation, and not
// updated, deactivated or created again — also not with the residual key.
func (e *didEnv) monC05GenesisTombstoneResidue() {
	e.s.Emit("mon.c05.genesis-tombstone-with-residue", guard(func() string {
		k := newDidKey("gen-residue")
		did := didtypes.NewDID(k.pub)
		vmID := did + "#key1"
		vm := &didtypes.VerificationMethod{Id: vmID, Type: didtypes.ES256K_2019, Controller: did, PublicKeyBase58: k.b58}
		residue := didtypes.DIDDocument{VerificationMethods: []*didtypes.VerificationMethod{vm}, Authentications: []didtypes.VerificationRelationship{rel(vmID)},
			Services: []*didtypes.Service{{Id: "s1", Type: "T", ServiceEndpoint: "https://x"}}}
		w := didtypes.NewDIDDocumentWithSeq(&residue, 7)
		gs := didtypes.GenesisState{Documents: map[string]*didtypes.DIDDocumentWithSeq{didtypes.GenesisDIDDocumentKey{DID: did}.Marshal(): &w}}
		if err := gs.Validate(); err != nil {
			return "pass #rejected-by-genesis-validation"
		}
		bz, err := e.c.App.AppCodec().MarshalJSON(&gs)
		if err != nil {
			return "pass #not-encodable"
		}
		c2, err := NewChain(memDB(), tmpHome(), nil, 0, map[string]json.RawMessage{didtypes.ModuleName: bz})
		if err != nil {
			return "pass #rejected-by-init-genesis"
		}
		c2.Begin(c2.Time)
		g := sdk.WrapSDKContext(c2.DeliverCtx())
		if _, err := c2.App.DidKeeper.DID(g, &didtypes.QueryDIDRequest{DidBase64: base64.StdEncoding.EncodeToString([]byte(did))}); err == nil {
			return "fail #deactivated-did-is-reported-as-found"
		}
		ms := didkeeper.NewMsgServerImpl(c2.App.DidKeeper)
		from := sdk.AccAddress([]byte("relayer-1-address-xx")).String()
		full := didtypes.NewDIDDocument(did, didtypes.WithVerificationMethods([]*didtypes.VerificationMethod{vm}),
			didtypes.WithAuthentications([]didtypes.VerificationRelationship{rel(vmID)}))
		for _, seq := range []uint64{7, 0} {
			sig, _ := didtypes.Sign(&full, seq, k.priv)
			if _, err := ms.UpdateDID(g, &didtypes.MsgUpdateDIDRequest{Did: did, Document: &full, VerificationMethodId: vmID, Signature: sig, FromAddress: from}); err == nil {
				return "fail #deactivated-did-updated-with-the-residual-key"
			}
			if _, err := ms.CreateDID(g, &didtypes.MsgCreateDIDRequest{Did: did, Document: &full, VerificationMethodId: vmID, Signature: sig, FromAddress: from}); err == nil {
				return "fail #deactivated-did-created-again"
			}
			sigd, _ := didtypes.Sign(&didtypes.DIDDocument{Id: did}, seq, k.priv)
			if _, err := ms.DeactivateDID(g, &didtypes.MsgDeactivateDIDRequest{Did: did, VerificationMethodId: vmID, Signature: sigd, FromAddress: from}); err == nil {
				return "fail #deactivated-did-deactivated-again"
			}
		}
		return "pass"
	}))
}

// monC04OtherKeyTypes: an authentication key of a type the module does not verify today (Ed25519VerificationKey2018, with
// a real ed25519 key pair).  Proofs made with it — over the module's (document, sequence) bytes and over the document's
// JSON form, which names no sequence — are either refused, or, should an implementation accept one, consumed by the
// acceptance: the sequence read afterwards is exactly one more, and the very same message is refused the second time.
func (e *didEnv) monC04OtherKeyTypes() {
	e.s.Emit("mon.c04.other-key-types", guard(func() string {
		c, err := NewChain(memDB(), tmpHome(), nil, 0, nil)
		if err != nil {
			return "pass #no-chain"
		}
		c.Begin(c.Time)
		g := sdk.WrapSDKContext(c.DeliverCtx())
		ms := didkeeper.NewMsgServerImpl(c.App.DidKeeper)
		from := sdk.AccAddress([]byte("relayer-1-address-xx")).String()
		k1 := newDidKey("okt-secp")
		ed := tmed25519.GenPrivKeyFromSecret([]byte("okt-ed25519"))
		did := didtypes.NewDID(k1.pub)
		id1, id2 := did+"#key1", did+"#key2"
		docWith := func(svc string) *didtypes.DIDDocument {
			vms := []*didtypes.VerificationMethod{
				{Id: id1, Type: didtypes.ES256K_2019, Controller: did, PublicKeyBase58: k1.b58},
				{Id: id2, Type: didtypes.ED25519_2018, Controller: did, PublicKeyBase58: base58.Encode(ed.PubKey().Bytes())},
			}
			d := didtypes.NewDIDDocument(did, didtypes.WithVerificationMethods(vms),
				didtypes.WithAuthentications([]didtypes.VerificationRelationship{rel(id1), rel(id2)}))
			if svc != "" {
				d.Services = []*didtypes.Service{{Id: "s1", Type: "T", ServiceEndpoint: svc}}
			}
			return &d
		}
		d0 := docWith("")
		sig0, _ := didtypes.Sign(d0, 0, k1.priv)
		if _, err := ms.CreateDID(g, &didtypes.MsgCreateDIDRequest{Did: did, Document: d0, VerificationMethodId: id1, Signature: sig0, FromAddress: from}); err != nil {
			return "pass #create-refused"
		}
		seqOf := func() uint64 { return c.App.DidKeeper.GetDIDDocument(c.DeliverCtx(), did).Sequence }
		accepted := 0
		for i, form := range []string{"with-sequence", "json-form", "with-sequence", "json-form"} {
			d := docWith(fmt.Sprintf("https://svc/%d", i))
			seq := seqOf()
			var sig []byte
			if form == "with-sequence" {
				sig, _ = didtypes.Sign(d, seq, ed)
			} else {
				sig, _ = ed.Sign(d.GetSignBytes())
			}
			m := &didtypes.MsgUpdateDIDRequest{Did: did, Document: d, VerificationMethodId: id2, Signature: sig, FromAddress: from}
			if m.ValidateBasic() != nil {
				continue
			}
			if _, err := ms.UpdateDID(g, m); err != nil {
				continue
			}
			accepted++
			if seqOf() != seq+1 {
				return "fail #accepted-proof-did-not-advance-the-sequence-by-one (" + form + ")"
			}
			if _, err := ms.UpdateDID(g, m); err == nil {
				return "fail #accepted-message-accepted-again (" + form + " proof by an ed25519 key)"
			}
			// ... and not after a further, ordinary update either
			dn := docWith(fmt.Sprintf("https://svc/%d/next", i))
			sn, _ := didtypes.Sign(dn, seqOf(), k1.priv)
			if _, err := ms.UpdateDID(g, &didtypes.MsgUpdateDIDRequest{Did: did, Document: dn, VerificationMethodId: id1, Signature: sn, FromAddress: from}); err == nil {
				if _, err := ms.UpdateDID(g, m); err == nil {
					return "fail #accepted-message-accepted-again-later (" + form + " proof by an ed25519 key)"
				}
			}
		}
		return fmt.Sprintf("pass #%d-accepted", accepted)
	}))
}

// monC11GenesisNonexistentEntry: genesis validation accepts entries that mean "this DID does not exist" (empty document,
// sequence 0).  A file that has such entries among active documents and tombstones — whichever way their keys sort —
// either is refused, or starts a chain on which every stored identifier resolves to a document about itself and every
// active document of the file is found under its own identifier.
func (e *didEnv) monC11GenesisNonexistentEntry() {
	e.s.Emit("mon.c11.genesis-with-nonexistent-entry", guard(func() string {
		type ent struct {
			did string
			k   *didKey
		}
		var es []ent
		for i := 0; i < 6; i++ {
			k := newDidKey(fmt.Sprintf("gen-ne-%d", i))
			es = append(es, ent{didtypes.NewDID(k.pub), k})
		}
		sort.Slice(es, func(i, j int) bool { return es[i].did < es[j].did })
		docs := map[string]*didtypes.DIDDocumentWithSeq{}
		active := map[string]bool{}
		for i, x := range es {
			var w didtypes.DIDDocumentWithSeq
			switch i {
			case 0, 3: // "does not exist"
				w = didtypes.NewDIDDocumentWithSeq(&didtypes.DIDDocument{}, 0)
			case 4: // tombstone
				w = didtypes.NewDIDDocumentWithSeq(&didtypes.DIDDocument{}, 5)
			default:
				vmID := x.did + "#key1"
				vm := &didtypes.VerificationMethod{Id: vmID, Type: didtypes.ES256K_2019, Controller: x.did, PublicKeyBase58: x.k.b58}
				d := didtypes.NewDIDDocument(x.did, didtypes.WithVerificationMethods([]*didtypes.VerificationMethod{vm}),
					didtypes.WithAuthentications([]didtypes.VerificationRelationship{rel(vmID)}))
				w = didtypes.NewDIDDocumentWithSeq(&d, uint64(i))
				active[x.did] = true
			}
			docs[didtypes.GenesisDIDDocumentKey{DID: x.did}.Marshal()] = &w
		}
		gs := didtypes.GenesisState{Documents: docs}
		if err := gs.Validate(); err != nil {
			return "pass #rejected-by-genesis-validation"
		}
		bz, err := e.c.App.AppCodec().MarshalJSON(&gs)
		if err != nil {
			return "pass #not-encodable"
		}
		c2, err := NewChain(memDB(), tmpHome(), nil, 0, map[string]json.RawMessage{didtypes.ModuleName: bz})
		if err != nil {
			return "pass #rejected-by-init-genesis"
		}
		c2.Begin(c2.Time)
		ctx := c2.DeliverCtx()
		for _, stored := range c2.App.DidKeeper.ListDIDs(ctx) {
			d := c2.App.DidKeeper.GetDIDDocument(ctx, stored)
			if d.Document != nil && !d.Document.Empty() && d.Document.Id != stored {
				return "fail #registry-holds-a-document-about-another-did"
			}
		}
		for did := range active {
			d := c2.App.DidKeeper.GetDIDDocument(ctx, did)
			if d.Document == nil || d.Document.Id != did {
				return "fail #active-document-of-the-genesis-not-found-under-its-identifier"
			}
		}
		return "pass"
	}))
}

// monC05TombstoneSurvivesUpgrade: "the tombstone survives node restarts" includes the restart into a new release, whose
// upgrade handler runs once inside a block.  Deactivated DIDs — a fresh one, and every identifier that the source of the
// upgrade packages mentions literally (what a handler could single out) — are still deactivated after the latest
// upgrade has run: not found by the read operation, not creatable, the stored entry unchanged.
func (e *didEnv) monC05TombstoneSurvivesUpgrade() {
	e.s.Emit("mon.c05.tombstone-survives-upgrade", guard(func() string {
		c, err := NewChain(memDB(), tmpHome(), nil, 0, nil)
		if err != nil {
			return "pass #no-chain"
		}
		repo := os.Getenv("VERIF_REPO")
		if repo == "" {
			repo = "/repo"
		}
		k := newDidKey("c05-upgrade")
		dids := []string{didtypes.NewDID(k.pub)}
		re := regexp.MustCompile(`did:panacea:[1-9A-HJ-NP-Za-km-z]{32,44}`)
		filepath.Walk(filepath.Join(repo, "app"), func(path string, info os.FileInfo, err error) error {
			if err == nil && !info.IsDir() && strings.HasSuffix(path, ".go") && !strings.HasSuffix(path, "_test.go") {
				if bz, err := os.ReadFile(path); err == nil {
					for _, m := range re.FindAllString(string(bz), -1) {
						dids = append(dids, m)
					}
				}
			}
			return nil
		})
		t := c.Time.Add(5 * time.Second)
		c.Begin(t)
		g := sdk.WrapSDKContext(c.DeliverCtx())
		ms := didkeeper.NewMsgServerImpl(c.App.DidKeeper)
		from := sdk.AccAddress([]byte("relayer-1-address-xx")).String()
		for _, did := range dids {
			vmID := did + "#key1"
			vm := &didtypes.VerificationMethod{Id: vmID, Type: didtypes.ES256K_2019, Controller: did, PublicKeyBase58: k.b58}
			d := didtypes.NewDIDDocument(did, didtypes.WithVerificationMethods([]*didtypes.VerificationMethod{vm}),
				didtypes.WithAuthentications([]didtypes.VerificationRelationship{rel(vmID)}))
			sig, _ := didtypes.Sign(&d, 0, k.priv)
			if _, err := ms.CreateDID(g, &didtypes.MsgCreateDIDRequest{Did: did, Document: &d, VerificationMethodId: vmID, Signature: sig, FromAddress: from}); err != nil {
				return "pass #setup-create-refused"
			}
			sigd, _ := didtypes.Sign(&didtypes.DIDDocument{Id: did}, 0, k.priv)
			if _, err := ms.DeactivateDID(g, &didtypes.MsgDeactivateDIDRequest{Did: did, VerificationMethodId: vmID, Signature: sigd, FromAddress: from}); err != nil {
				return "pass #setup-deactivate-refused"
			}
		}
		plan := app.Upgrades[len(app.Upgrades)-1].UpgradeName
		planHeight := c.Height + 2
		if err := c.App.UpgradeKeeper.ScheduleUpgrade(c.DeliverCtx(), upgradetypes.Plan{Name: plan, Height: planHeight}); err != nil {
			return "pass #cannot-schedule"
		}
		c.End()
		c.Commit()
		before := didDumpStr(c, c.QueryCtx())
		for i := 0; i < 2; i++ {
			t = t.Add(5 * time.Second)
			c.Begin(t) // a halt in the upgrade block is a panic, caught by guard
			c.End()
			c.Commit()
		}
		if c.App.UpgradeKeeper.GetDoneHeight(c.QueryCtx(), plan) != planHeight {
			return "pass #upgrade-did-not-run"
		}
		if didDumpStr(c, c.QueryCtx()) != before {
			return "fail #did-registry-changed-by-the-upgrade"
		}
		c.Begin(t.Add(5 * time.Second))
		g = sdk.WrapSDKContext(c.DeliverCtx())
		ms = didkeeper.NewMsgServerImpl(c.App.DidKeeper)
		for _, did := range dids {
			if _, err := c.App.DidKeeper.DID(g, &didtypes.QueryDIDRequest{DidBase64: base64.StdEncoding.EncodeToString([]byte(did))}); err == nil {
				return "fail #deactivated-did-is-reported-as-found-after-the-upgrade"
			}
			vmID := did + "#key1"
			vm := &didtypes.VerificationMethod{Id: vmID, Type: didtypes.ES256K_2019, Controller: did, PublicKeyBase58: k.b58}
			d := didtypes.NewDIDDocument(did, didtypes.WithVerificationMethods([]*didtypes.VerificationMethod{vm}),
				didtypes.WithAuthentications([]didtypes.VerificationRelationship{rel(vmID)}))
			sig, _ := didtypes.Sign(&d, 0, k.priv)
			if _, err := ms.CreateDID(g, &didtypes.MsgCreateDIDRequest{Did: did, Document: &d, VerificationMethodId: vmID, Signature: sig, FromAddress: from}); err == nil {
				return "fail #deactivated-did-created-again-after-the-upgrade"
			}
		}
		return fmt.Sprintf("pass #%d-tombstones", len(dids))
	}))
}

func (e *didEnv) dump() {
	e.s.Emit("did.dump", guard(func() string {
		k := e.c.App.DidKeeper
		var parts []string
		for _, did := range k.ListDIDs(e.ctx) {
			d := k.GetDIDDocument(e.ctx, did)
			parts = append(parts, fmt.Sprintf("%s=%d,%s", hxs(did), d.Sequence, docTok(d.Document)))
		}
		if len(parts) == 0 {
			return "ok ~"
		}
		return "ok " + strings.Join(parts, "/")
	}))
}

// ---- generators ---------------------------------------------------------------------------

type didIdent struct {
	did  string
	keys []*didKey // keys this identity may use
	// what the harness believes (aiming only)
	seq     uint64
	exists  bool
	dead    bool
	authKey map[string]*didKey // vmID -> key currently listed under authentication (believed)
	lastDoc *didtypes.DIDDocument
}

// caseVariant flips the case of one letter of the identifier such that it stays in the base58 alphabet.
func caseVariant(did string) string {
	b := []byte(did)
	for i := len(b) - 1; i >= len("did:panacea:"); i-- {
		c := b[i]
		var f byte
		switch {
		case c >= 'a' && c <= 'z':
			f = c - 32
		case c >= 'A' && c <= 'Z':
			f = c + 32
		default:
			continue
		}
		if strings.IndexByte(didtypes.Base58Charset, f) >= 0 {
			b[i] = f
			return string(b)
		}
	}
	return did
}

func rel(id string) didtypes.VerificationRelationship {
	return didtypes.NewVerificationRelationship(id)
}
func ded(vm didtypes.VerificationMethod) didtypes.VerificationRelationship {
	return didtypes.NewVerificationRelationshipDedicated(vm)
}

// genDoc builds a (mostly valid) document for identity id listing a random selection of its keys in
// random roles; returns the doc and the vmID->key map of authentication methods.
// foreignControllers: DIDs of the other identities of the history. A verification method's `controller` is a free field
// (nothing ties it to the document's id), so now and then a key names another — existing — DID as its controller.
var foreignControllers []string

func genDoc(rng *rand.Rand, docID string, idt *didIdent) (*didtypes.DIDDocument, map[string]*didKey) {
	auth := map[string]*didKey{}
	var vms []*didtypes.VerificationMethod
	var au, as, ka, ci, cd []didtypes.VerificationRelationship
	types := []string{didtypes.ES256K_2019, didtypes.ES256K_2019, didtypes.ES256K_2018, didtypes.ED25519_2018, "SomethingElse2020"}
	for i, k := range idt.keys {
		if rng.Intn(3) == 0 {
			continue
		}
		vmID := fmt.Sprintf("%s#key%d", docID, i+1)
		typ := types[rng.Intn(len(types))]
		ctl := docID
		if len(foreignControllers) > 0 && rng.Intn(4) == 0 {
			ctl = foreignControllers[rng.Intn(len(foreignControllers))]
		}
		vm := didtypes.VerificationMethod{Id: vmID, Type: typ, Controller: ctl, PublicKeyBase58: k.b58}
		switch rng.Intn(8) {
		case 6: // only under capability invocation (referenced) — an agent's key, not an authentication key
			v := vm
			vms = append(vms, &v)
			ci = append(ci, rel(vmID))
		case 7: // dedicated under capability delegation, referenced under assertion
			v := vm
			vms = append(vms, &v)
			cd = append(cd, ded(vm))
			as = append(as, rel(vmID))
		case 0, 1: // method + referenced under authentication
			v := vm
			vms = append(vms, &v)
			au = append(au, rel(vmID))
			auth[vmID] = k
		case 2: // dedicated under authentication only
			au = append(au, ded(vm))
			auth[vmID] = k
		case 3: // only a verification method (no relationship)
			v := vm
			vms = append(vms, &v)
		case 4: // only under assertion / key agreement
			v := vm
			vms = append(vms, &v)
			as = append(as, rel(vmID))
			ka = append(ka, ded(vm))
		default: // method + authentication + assertion
			v := vm
			vms = append(vms, &v)
			au = append(au, rel(vmID))
			as = append(as, rel(vmID))
			auth[vmID] = k
		}
	}
	if len(vms) == 0 {
		k := idt.keys[0]
		vmID := docID + "#key1"
		vms = append(vms, &didtypes.VerificationMethod{Id: vmID, Type: didtypes.ES256K_2019, Controller: docID, PublicKeyBase58: k.b58})
		if len(au) == 0 {
			au = append(au, rel(vmID))
			auth[vmID] = k
		}
	}
	if len(au) == 0 {
		vm := vms[0]
		au = append(au, rel(vm.Id))
		for _, k := range idt.keys {
			if k.b58 == vm.PublicKeyBase58 {
				auth[vm.Id] = k
			}
		}
	}
	d := didtypes.NewDIDDocument(docID, didtypes.WithVerificationMethods(vms), didtypes.WithAuthentications(au))
	d.AssertionMethods, d.KeyAgreements = as, ka
	d.CapabilityInvocations, d.CapabilityDelegations = ci, cd
	if rng.Intn(3) == 0 {
		d.Services = []*didtypes.Service{{Id: "s1", Type: "T", ServiceEndpoint: "https://x"}}
	}
	if rng.Intn(4) == 0 {
		c := didtypes.JSONStringOrStrings{docID}
		if len(foreignControllers) > 0 && rng.Intn(2) == 0 {
			c = didtypes.JSONStringOrStrings{foreignControllers[rng.Intn(len(foreignControllers))]}
		}
		// lists: the protobuf form keeps repeated entries and their order, and so must every other form of the document
		switch rng.Intn(4) {
		case 0:
			c = append(c, c[0])
		case 1:
			if len(foreignControllers) > 0 {
				c = append(c, foreignControllers[rng.Intn(len(foreignControllers))], docID)
			}
		}
		d.Controller = &c
	}
	if rng.Intn(5) == 0 {
		c := didtypes.JSONStringOrStrings{didtypes.ContextDIDV1, "https://example.org/ctx"}
		d.Contexts = &c
	}
	// only secp keys can actually authenticate
	for id := range auth {
		var typ string
		if vm, ok := d.VerificationMethodFrom(d.Authentications, id); ok {
			typ = vm.Type
		}
		if typ != didtypes.ES256K_2019 && typ != didtypes.ES256K_2018 {
			delete(auth, id)
		}
	}
	return &d, auth
}

// mutateDoc produces structurally odd documents for validation coverage (C16/C17).
func mutateDoc(rng *rand.Rand, d *didtypes.DIDDocument) *didtypes.DIDDocument {
	c := *d
	switch rng.Intn(14) {
	case 0:
		c.Id = ""
	case 1:
		c.Id = c.Id + "0" // '0' is not base58
	case 2:
		c.VerificationMethods = nil
	case 3:
		c.Authentications = nil
	case 4:
		e := didtypes.JSONStringOrStrings{}
		c.Contexts = &e
	case 5:
		e := didtypes.JSONStringOrStrings{"https://example.org/ctx", didtypes.ContextDIDV1}
		c.Contexts = &e
	case 6:
		e := didtypes.JSONStringOrStrings{didtypes.ContextDIDV1, didtypes.ContextDIDV1}
		c.Contexts = &e
	case 7:
		e := didtypes.JSONStringOrStrings{"not-a-did"}
		c.Controller = &e
	case 8:
		e := didtypes.JSONStringOrStrings{"", ""}
		c.Controller = &e
	case 9:
		c.Services = []*didtypes.Service{{Id: "s1", Type: "", ServiceEndpoint: "x"}}
	case 10:
		if len(c.VerificationMethods) > 0 {
			v := *c.VerificationMethods[0]
			v.Id = c.Id + "#a b"
			c.VerificationMethods = append([]*didtypes.VerificationMethod{&v}, c.VerificationMethods[1:]...)
		}
	case 11:
		if len(c.VerificationMethods) > 0 {
			v := *c.VerificationMethods[0]
			v.PublicKeyBase58 = v.PublicKeyBase58 + "0OIl"
			c.VerificationMethods = append([]*didtypes.VerificationMethod{&v}, c.VerificationMethods[1:]...)
		}
	case 12:
		c.Authentications = append(append([]didtypes.VerificationRelationship{}, c.Authentications...), rel(c.Id+"#missing"))
	default:
		c.Authentications = append(append([]didtypes.VerificationRelationship{}, c.Authentications...), didtypes.VerificationRelationship{})
	}
	return &c
}

func didHistory(e *didEnv, rng *rand.Rand, idents []*didIdent, relayers []string, steps int) {
	e.reset()
	foreignControllers = nil
	for _, it := range idents {
		foreignControllers = append(foreignControllers, it.did)
	}
	for _, it := range idents {
		it.seq, it.exists, it.dead, it.authKey, it.lastDoc = 0, false, false, nil, nil
	}
	type sent struct {
		kind string
		c    *didtypes.MsgCreateDIDRequest
		u    *didtypes.MsgUpdateDIDRequest
		d    *didtypes.MsgDeactivateDIDRequest
		ok   bool
	}
	var log []sent
	from := func() string {
		if rng.Intn(30) == 0 {
			return "bad-address"
		}
		return relayers[rng.Intn(len(relayers))]
	}
	pickAuth := func(it *didIdent) (string, *didKey) {
		// mostly a believed authentication key; sometimes another key / method id
		if len(it.authKey) > 0 && rng.Intn(10) < 7 {
			ids := make([]string, 0, len(it.authKey))
			for id := range it.authKey {
				ids = append(ids, id)
			}
			sortStrings(ids)
			id := ids[rng.Intn(len(ids))]
			return id, it.authKey[id]
		}
		return fmt.Sprintf("%s#key%d", it.did, 1+rng.Intn(len(it.keys)+1)), it.keys[rng.Intn(len(it.keys))]
	}
	inBranch = false
	for i := 0; i < steps; i++ {
		it := idents[rng.Intn(len(idents))]
		// now and then a key rotation that happens only on a discarded branch; afterwards both the new key (at the
		// sequence the branch reached) and the old key (at the committed sequence) are tried
		if it.exists && len(it.authKey) > 0 && rng.Intn(10) == 0 {
			var oldID string
			var oldKey *didKey
			ids := make([]string, 0, len(it.authKey))
			for id := range it.authKey {
				ids = append(ids, id)
			}
			sortStrings(ids)
			oldID, oldKey = ids[0], it.authKey[ids[0]]
			doc, auth := genDoc(rng, it.did, it)
			abort := e.begin()
			e.update(&didtypes.MsgUpdateDIDRequest{Did: it.did, Document: doc, VerificationMethodId: oldID, Signature: e.sign(oldKey, doc, it.seq), FromAddress: relayers[0]})
			if rng.Intn(2) == 0 {
				e.deactivate(&didtypes.MsgDeactivateDIDRequest{Did: it.did, VerificationMethodId: oldID, Signature: e.sign(oldKey, &didtypes.DIDDocument{Id: it.did}, it.seq+1), FromAddress: relayers[0]})
			}
			abort()
			doc2, _ := genDoc(rng, it.did, it)
			for id, k := range auth {
				e.update(&didtypes.MsgUpdateDIDRequest{Did: it.did, Document: doc2, VerificationMethodId: id, Signature: e.sign(k, doc2, it.seq+1), FromAddress: relayers[1]})
				break
			}
			e.query(it.did)
			continue
		}
		switch r := rng.Intn(20); {
		case r < 5: // create
			docID := it.did
			if rng.Intn(8) == 0 {
				docID = idents[rng.Intn(len(idents))].did // document about another identifier (C11)
			}
			doc, auth := genDoc(rng, docID, it)
			if rng.Intn(6) == 0 {
				doc = mutateDoc(rng, doc)
			}
			vmID, key := "", it.keys[0]
			for id, k := range auth {
				vmID, key = id, k
			}
			if rng.Intn(8) == 0 {
				vmID, key = pickAuth(it)
			}
			seq := uint64(0)
			if rng.Intn(12) == 0 {
				seq = 1
			}
			sig := e.sign(key, doc, seq)
			if rng.Intn(25) == 0 {
				sig = nil
			}
			m := &didtypes.MsgCreateDIDRequest{Did: it.did, Document: doc, VerificationMethodId: vmID, Signature: sig, FromAddress: from()}
			if rng.Intn(40) == 0 {
				m.Document = nil
			}
			if rng.Intn(40) == 0 {
				m.Did = it.did + "0"
			}
			if rng.Intn(15) == 0 {
				m.Did = caseVariant(it.did)
			}
			ok := e.create(m)
			if ok {
				it.exists, it.seq, it.authKey = true, 0, auth
				it.lastDoc = doc
			}
			log = append(log, sent{kind: "c", c: m, ok: ok})
		case r < 11: // update
			doc, auth := genDoc(rng, it.did, it)
			if rng.Intn(8) == 0 {
				doc = mutateDoc(rng, doc)
			}
			if rng.Intn(12) == 0 {
				doc = &didtypes.DIDDocument{} // "deactivate by update"
				auth = nil
			}
			if it.lastDoc != nil && rng.Intn(6) == 0 {
				// an update that re-submits exactly the stored document (must still consume a sequence number)
				cp := *it.lastDoc
				doc, auth = &cp, it.authKey
			}
			vmID, key := pickAuth(it)
			seq := it.seq
			if rng.Intn(8) == 0 {
				seq = uint64(rng.Intn(3))
			}
			signed := doc
			if rng.Intn(12) == 0 {
				signed, _ = genDoc(rng, it.did, it) // signature over different content
			}
			sig := e.sign(key, signed, seq)
			switch rng.Intn(14) {
			case 0: // a proof over the document's JSON form, which names no sequence
				sig = e.signRaw(key, doc.GetSignBytes())
			case 1: // a proof by a key of another identity, under that identity's method id and sequence
				o := idents[rng.Intn(len(idents))]
				if o != it && len(o.authKey) > 0 {
					oid, ok2 := pickAuth(o)
					vmID, sig = oid, e.sign(ok2, doc, o.seq)
				}
			}
			m := &didtypes.MsgUpdateDIDRequest{Did: it.did, Document: doc, VerificationMethodId: vmID, Signature: sig, FromAddress: from()}
			if rng.Intn(40) == 0 {
				m.Document = nil
			}
			if rng.Intn(15) == 0 {
				m.Did = caseVariant(it.did) // same identifier up to letter case: a different DID
			}
			ok := e.update(m)
			if ok {
				it.seq++
				it.lastDoc = doc
				it.authKey = auth
				if doc.Id == "" {
					it.dead = true
				}
			}
			log = append(log, sent{kind: "u", u: m, ok: ok})
		case r < 14: // deactivate
			vmID, key := pickAuth(it)
			seq := it.seq
			if rng.Intn(8) == 0 {
				seq = uint64(rng.Intn(3))
			}
			target := it.did
			if rng.Intn(10) == 0 {
				target = idents[rng.Intn(len(idents))].did
			}
			sig := e.sign(key, &didtypes.DIDDocument{Id: target}, seq)
			if rng.Intn(8) == 0 {
				sig = e.sign(key, &didtypes.DIDDocument{}, seq) // a proof over what gets stored (the tombstone), which names no DID
			}
			m := &didtypes.MsgDeactivateDIDRequest{Did: it.did, VerificationMethodId: vmID, Signature: sig, FromAddress: from()}
			ok := e.deactivate(m)
			if ok {
				it.seq++
				it.dead = true
				it.authKey = nil
			}
			log = append(log, sent{kind: "d", d: m, ok: ok})
		case r < 17: // replay an earlier message verbatim (possibly via another relayer)
			if len(log) > 0 {
				s := log[rng.Intn(len(log))]
				switch s.kind {
				case "c":
					m := *s.c
					m.FromAddress = from()
					e.create(&m)
				case "u":
					m := *s.u
					m.FromAddress = from()
					if rng.Intn(4) == 0 {
						m.Did = idents[rng.Intn(len(idents))].did // under a different DID field (C11)
					}
					if e.update(&m) {
						for _, x := range idents {
							if x.did == m.Did {
								x.seq++
							}
						}
					}
				case "d":
					m := *s.d
					m.FromAddress = from()
					e.deactivate(&m)
				}
			}
		case r < 19:
			e.query(it.did)
		default:
			e.query(it.did + "x")
		}
	}
	for _, it := range idents {
		e.query(it.did)
	}
	e.dump()
	e.monC11()
}

func sortStrings(s []string) {
	for i := 1; i < len(s); i++ {
		for j := i; j > 0 && s[j] < s[j-1]; j-- {
			s[j], s[j-1] = s[j-1], s[j]
		}
	}
}

func newDidEnv(s *Stream) *didEnv {
	c, err := NewChain(memDB(), tmpHome(), nil, 0, nil)
	if err != nil {
		panic(err)
	}
	c.Begin(c.Time)
	return &didEnv{c: c, ms: didkeeper.NewMsgServerImpl(c.App.DidKeeper), s: s, seen: map[string]bool{}, sigs: map[string]bool{}}
}

func mkIdents() ([]*didIdent, []string) {
	var ids []*didIdent
	for i := 0; i < 3; i++ {
		keys := []*didKey{newDidKey(fmt.Sprintf("k%d-a", i)), newDidKey(fmt.Sprintf("k%d-b", i)), newDidKey(fmt.Sprintf("k%d-c", i))}
		ids = append(ids, &didIdent{did: didtypes.NewDID(keys[0].pub), keys: keys})
	}
	// identities 0 and 1 share a key (cross-DID replay, C11)
	ids[1].keys = append(ids[1].keys, ids[0].keys[0])
	// the account that signs and pays confers no rights: ordinary relayers, and the chain's own module accounts (what a
	// passed governance proposal or the module itself would sign as)
	rel := []string{sdk.AccAddress([]byte("relayer-1-address-xx")).String(), sdk.AccAddress([]byte("relayer-2-address-yy")).String(),
		authtypes.NewModuleAddress("gov").String(), authtypes.NewModuleAddress(authtypes.FeeCollectorName).String(),
		authtypes.NewModuleAddress(didtypes.ModuleName).String()}
	return ids, rel
}

func init() {
	streams["did"] = func(dir string, rng *rand.Rand, n int, tier string) {
		s := NewStream(dir, "did")
		defer s.Close(dir, "did")
		e := newDidEnv(s)
		ids, rel := mkIdents()
		e.monC03UTF8()
		e.monC11Genesis()
		e.monC11GenesisKeySpelling()
		e.monC11GenesisNonexistentEntry()
		e.monC05GenesisSeqWrap()
		e.monC05GenesisTombstoneResidue()
		e.monC04OtherKeyTypes()
		e.monC05TombstoneSurvivesUpgrade()
		for h := 0; h < n; h++ {
			didHistory(e, rng, ids, rel, 15+rng.Intn(30))
		}
	}
}
