package main

// L1 stream "compkey": the real compkey.Encode/PartialEncode/Decode on raw component lists, the four typed
// AOL keys (Decode into the typed key, then ByteSlices), and the string form with real bech32.

import (
	"bytes"
	"fmt"
	"math/rand"
	"strconv"
	"strings"

	sdk "github.com/cosmos/cosmos-sdk/types"
	"github.com/medibloc/panacea-core/v2/types/compkey"
	aoltypes "github.com/medibloc/panacea-core/v2/x/aol/types"
)

type rawKey struct{ bzs [][]byte }

func (k rawKey) ByteSlices() [][]byte { return k.bzs }
func (k *rawKey) FromByteSlices(b [][]byte) error {
	k.bzs = b
	return nil
}
func (k rawKey) Strings() []string           { return nil }
func (k *rawKey) FromStrings([]string) error { return nil }

var compLens = []int{0, 0, 1, 1, 2, 3, 7, 8, 8, 9, 20, 20, 32, 70, 71, 254, 255, 255, 256, 257, 300}

func genComp(rng *rand.Rand, small bool) []byte {
	var n int
	if small {
		n = []int{0, 1, 1, 2, 3, 8, 20}[rng.Intn(7)]
	} else {
		n = compLens[rng.Intn(len(compLens))]
	}
	b := make([]byte, n)
	switch rng.Intn(3) {
	case 0:
		rng.Read(b)
	case 1: // bytes that look like length prefixes of other components / separators
		alpha := []byte{0, 1, 2, 3, 8, 20, 0x2f, 0xff}
		for i := range b {
			b[i] = alpha[rng.Intn(len(alpha))]
		}
	default:
		for i := range b {
			b[i] = byte('a' + rng.Intn(3))
		}
	}
	return b
}

func genComps(rng *rand.Rand) [][]byte {
	n := rng.Intn(6)
	small := rng.Intn(4) != 0
	out := make([][]byte, n)
	for i := range out {
		out[i] = genComp(rng, small)
	}
	return out
}

func ansBytes(bz []byte, err error) string {
	if err != nil {
		return "err"
	}
	return "ok " + hx(bz)
}

var kindNames = []string{"owner", "topic", "writer", "record"}

func newTyped(kind string) compkey.CompositeKey {
	switch kind {
	case "owner":
		return &aoltypes.OwnerCompositeKey{}
	case "topic":
		return &aoltypes.TopicCompositeKey{}
	case "writer":
		return &aoltypes.WriterCompositeKey{}
	default:
		return &aoltypes.RecordCompositeKey{}
	}
}

func ckEnc(comps [][]byte) string {
	return guard(func() string { return ansBytes(compkey.Encode(&rawKey{comps})) })
}
func ckPenc(k int, comps [][]byte) string {
	return guard(func() string { return ansBytes(compkey.PartialEncode(&rawKey{comps}, k)) })
}
func ckDec(bz []byte) string {
	return guard(func() string {
		var k rawKey
		if err := compkey.Decode(bz, &k); err != nil {
			return "err"
		}
		return "ok " + hxList(k.bzs)
	})
}
func ckTdec(kind string, bz []byte) string {
	return guard(func() string {
		k := newTyped(kind)
		if err := compkey.Decode(bz, k); err != nil {
			return "err"
		}
		return "ok " + hxList(k.ByteSlices())
	})
}

// typed key from raw comps through the typed FromByteSlices (so only valid keys), then EncodeToString.
func ckStr(s *Stream, kind string, comps [][]byte) {
	k := newTyped(kind)
	if guard(func() string {
		if err := k.FromByteSlices(comps); err != nil {
			return "err"
		}
		return "ok"
	}) != "ok" {
		return
	}
	// address table for the model's codec
	for _, str := range k.Strings() {
		emitAddr(s, str)
	}
	str := compkey.EncodeToString(k, aoltypes.GenesisKeySeparator)
	s.Emit(fmt.Sprintf("ck.str %s %s", kind, hxList(k.ByteSlices())), "ok "+hxs(str))
	// and back
	ckSdec(s, kind, str)
}

func emitAddr(s *Stream, text string) {
	a, err := sdk.AccAddressFromBech32(text)
	if err != nil {
		s.Emit("addr "+hxs(text)+" invalid", "-")
	} else {
		// the model's `enc` is the first text registered for an address: make sure that is the canonical one
		// (String()), also when the first use of the address in a stream is an upper-case spelling
		if canon := a.String(); canon != text {
			s.Emit("addr "+hxs(canon)+" "+hx(a), "-")
		}
		s.Emit("addr "+hxs(text)+" "+hx(a), "-")
	}
}

func ckSdec(s *Stream, kind string, str string) {
	for _, part := range strings.Split(str, aoltypes.GenesisKeySeparator) {
		emitAddr(s, part)
	}
	ans := guard(func() string {
		k := newTyped(kind)
		if err := compkey.DecodeFromString(str, aoltypes.GenesisKeySeparator, k); err != nil {
			return "err"
		}
		return "ok " + hxList(k.ByteSlices())
	})
	s.Emit(fmt.Sprintf("ck.sdec %s %s", kind, hxs(str)), ans)
}

// monAdmit evaluates the last clause of C18 on the implementation: for a topic name that the real message
// validator admits, the genesis string form of topic/writer/record keys must round-trip.
func monAdmit(s *Stream, topic string) {
	owner := sdk.AccAddress(bytes.Repeat([]byte{5}, 20))
	emitAddr(s, owner.String())
	s.Emit("mon.c18.admit "+hxs(topic), guard(func() string {
		m := aoltypes.MsgCreateTopicRequest{TopicName: topic, OwnerAddress: owner.String()}
		if err := m.ValidateBasic(); err != nil {
			return "rejected"
		}
		keys := []compkey.CompositeKey{
			&aoltypes.TopicCompositeKey{OwnerAddress: owner, TopicName: topic},
			&aoltypes.WriterCompositeKey{OwnerAddress: owner, TopicName: topic, WriterAddress: owner},
			&aoltypes.RecordCompositeKey{OwnerAddress: owner, TopicName: topic, Offset: 7},
		}
		outs := []compkey.CompositeKey{&aoltypes.TopicCompositeKey{}, &aoltypes.WriterCompositeKey{}, &aoltypes.RecordCompositeKey{}}
		for i, k := range keys {
			str := compkey.EncodeToString(k, aoltypes.GenesisKeySeparator)
			if err := compkey.DecodeFromString(str, aoltypes.GenesisKeySeparator, outs[i]); err != nil {
				return "fail"
			}
			a, _ := compkey.Encode(k)
			b, _ := compkey.Encode(outs[i])
			if !bytes.Equal(a, b) {
				return "fail"
			}
		}
		return "pass"
	}))
}

// monLongAddress: the same clause for account addresses of every length the message validators admit (up to 255
// bytes; the bech32 text of a long address is longer than 255 characters): the string form of the typed keys must
// round-trip for them too.
func monLongAddress(s *Stream, n int) {
	s.Emit(fmt.Sprintf("mon.c18.long-address %d", n), guard(func() string {
		owner := sdk.AccAddress(bytes.Repeat([]byte{7}, n))
		m := aoltypes.MsgAddWriterRequest{TopicName: "t", Moniker: "m", WriterAddress: owner.String(), OwnerAddress: owner.String()}
		if err := m.ValidateBasic(); err != nil {
			return "pass #rejected-by-validation"
		}
		keys := []compkey.CompositeKey{
			&aoltypes.OwnerCompositeKey{OwnerAddress: owner},
			&aoltypes.TopicCompositeKey{OwnerAddress: owner, TopicName: "t"},
			&aoltypes.WriterCompositeKey{OwnerAddress: owner, TopicName: "t", WriterAddress: owner},
			&aoltypes.RecordCompositeKey{OwnerAddress: owner, TopicName: "t", Offset: 7},
		}
		outs := []compkey.CompositeKey{&aoltypes.OwnerCompositeKey{}, &aoltypes.TopicCompositeKey{}, &aoltypes.WriterCompositeKey{}, &aoltypes.RecordCompositeKey{}}
		for i, k := range keys {
			a, err := compkey.Encode(k)
			if err != nil {
				return "fail #admitted-address-not-encodable"
			}
			str := compkey.EncodeToString(k, aoltypes.GenesisKeySeparator)
			if err := compkey.DecodeFromString(str, aoltypes.GenesisKeySeparator, outs[i]); err != nil {
				return "fail #string-form-does-not-decode"
			}
			b, _ := compkey.Encode(outs[i])
			if !bytes.Equal(a, b) {
				return "fail #string-round-trip-changed-the-key"
			}
		}
		return "pass"
	}))
}

func compkeyOp(s *Stream, op string) {
	f := strings.Fields(op)
	switch f[0] {
	case "ck.enc":
		s.Emit(op, ckEnc(unList(f[1])))
	case "ck.penc":
		k, _ := strconv.Atoi(f[1])
		s.Emit(op, ckPenc(k, unList(f[2])))
	case "ck.dec":
		s.Emit(op, ckDec(unhx(f[1])))
	case "ck.tdec":
		s.Emit(op, ckTdec(f[1], unhx(f[2])))
	case "mon.c18.admit":
		monAdmit(s, string(unhx(f[1])))
	case "ck.sdec":
		ckSdec(s, f[1], string(unhx(f[2])))
	default:
		panic("compkey replay: unsupported op " + f[0])
	}
}

func init() {
	streams["compkey"] = func(dir string, rng *rand.Rand, n int, tier string) {
		setConfigOnce()
		s := NewStream(dir, "compkey")
		defer s.Close(dir, "compkey")
		for _, n := range []int{1, 20, 32, 150, 151, 200, 255} {
			monLongAddress(s, n)
		}
		// boundary enumeration: every length 0..257 for a component in first / middle / last position
		for l := 0; l <= 257; l++ {
			c := bytes.Repeat([]byte{byte(l)}, l)
			for _, comps := range [][][]byte{{c}, {{1}, c}, {c, {2, 2}}, {{}, c, {}}} {
				s.Emit("ck.enc "+hxList(comps), ckEnc(comps))
			}
		}
		// offsets components of every length 0..12 for the typed record key (F13 region)
		for l := 0; l <= 12; l++ {
			comps := [][]byte{{9, 9}, []byte("t"), bytes.Repeat([]byte{1}, l)}
			bz, _ := compkey.Encode(&rawKey{comps})
			s.Emit("ck.tdec record "+hx(bz), ckTdec("record", bz))
		}
		for i := 0; i < n; i++ {
			comps := genComps(rng)
			s.Emit("ck.enc "+hxList(comps), ckEnc(comps))
			k := rng.Intn(len(comps) + 2)
			s.Emit(fmt.Sprintf("ck.penc %d %s", k, hxList(comps)), ckPenc(k, comps))
			// decoder inputs: valid encodings, mutated encodings, random bytes
			var bz []byte
			if e, err := compkey.Encode(&rawKey{comps}); err == nil {
				bz = e
			}
			switch rng.Intn(4) {
			case 0:
				if len(bz) > 0 {
					bz = bz[:rng.Intn(len(bz))]
				}
			case 1:
				if len(bz) > 0 {
					bz = append([]byte{}, bz...)
					bz[rng.Intn(len(bz))] ^= byte(1 << uint(rng.Intn(8)))
				}
			case 2:
				bz = make([]byte, rng.Intn(12))
				rng.Read(bz)
			}
			s.Emit("ck.dec "+hx(bz), ckDec(bz))
			kind := kindNames[rng.Intn(4)]
			s.Emit("ck.tdec "+kind+" "+hx(bz), ckTdec(kind, bz))
			// typed keys of the right shape with address/offset components of assorted lengths
			want := map[string]int{"owner": 1, "topic": 2, "writer": 3, "record": 3}[kind]
			tc := make([][]byte, want)
			for j := range tc {
				tc[j] = genComp(rng, true)
			}
			if kind == "record" && rng.Intn(3) != 0 {
				tc[2] = make([]byte, 8)
				rng.Read(tc[2])
				if rng.Intn(2) == 0 {
					tc[2] = sdk.Uint64ToBigEndian(uint64(rng.Intn(1000)))
				}
			}
			if e, err := compkey.Encode(&rawKey{tc}); err == nil {
				s.Emit("ck.tdec "+kind+" "+hx(e), ckTdec(kind, e))
			}
			if i%4 == 0 {
				// topic component restricted to what validators admit for the string form half the time
				if want >= 2 && rng.Intn(2) == 0 {
					tc[1] = []byte([]string{"t", "a.b", "A-Z_0", "x", "topic-1"}[rng.Intn(5)])
				}
				ckStr(s, kind, tc)
				// malformed strings
				strs := []string{"", "/", "a/b", "panacea1xyz/t/1", "//", "x/y/z/w"}
				ckSdec(s, kind, strs[rng.Intn(len(strs))])
			}
		}
		// C18 last clause: every single byte value inside an otherwise valid topic name, plus assorted names
		for c := 0; c < 256; c++ {
			monAdmit(s, "a"+string([]byte{byte(c)})+"b")
		}
		for _, t := range []string{"t", "", "a/b", "/", "a.b-c_d", strings.Repeat("x", 70), strings.Repeat("x", 71), "a//", "1"} {
			monAdmit(s, t)
		}
		// hand-written string-form cases: alternative spellings of offsets and addresses
		a := sdk.AccAddress(bytes.Repeat([]byte{7}, 20)).String()
		for _, str := range []string{a + "/t/1", a + "/t/01", a + "/t/+1", a + "/t/1_0", a + "/t/18446744073709551615",
			a + "/t/18446744073709551616", a + "/t/", a + "//5", strings.ToUpper(a) + "/t/1", a + "/t/1/", a + "/t"} {
			ckSdec(s, "record", str)
			ckSdec(s, "topic", str)
		}
	}
}
