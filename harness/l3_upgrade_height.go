package main

// Monitors on the way an upgrade is really reached: the previous binary has halted at the upgrade height and left
// upgrade-info.json in the home; the database is that of the previous release — it has none of the stores the
// descriptor adds, and no module versions for them.  (Construction: a chain born on this binary; the last version
// before the upgrade height is committed by a root multistore that mounts everything *but* the added stores, as the
// previous binary would have, and the data of the added stores is removed.)
//
//   mon.c19.start-at-upgrade-height name=<plan>   the new binary opens that database at the upgrade height (the store
//       upgrades of the descriptor reach the loader), runs the upgrade block and the next one; afterwards every added
//       store is part of the committed version and the plan is recorded as done.
//   mon.c10.restart-inside-upgrade-block name=<plan>   a node that began the upgrade block (the handler ran) and
//       stopped before the commit starts again on the same database and home, at the committed height with the
//       committed hash, and from there produces the hashes of a twin that never stopped.
//
// A start that dies (app.New exits the process when the stores cannot be loaded) is attributed by the in-flight marker.

import (
	"bytes"
	"fmt"
	"time"

	dbm "github.com/cometbft/cometbft-db"
	"github.com/cometbft/cometbft/libs/log"
	"github.com/cosmos/cosmos-sdk/store/rootmulti"
	storetypes "github.com/cosmos/cosmos-sdk/store/types"
	upgradetypes "github.com/cosmos/cosmos-sdk/x/upgrade/types"
	"github.com/medibloc/panacea-core/v2/app"
)

// preUpgradeNode returns a stopped node (database + home) at the height before `plan`'s upgrade height.
func preUpgradeNode(plan string, added []string) (c *Chain, t time.Time, planHeight int64, err error) {
	accts := rtAccts()
	db := dbm.NewMemDB()
	a, err := NewChain(db, tmpHome(), accts, 100000, nil)
	if err != nil {
		return nil, t, 0, err
	}
	t = a.Time
	t = t.Add(5 * time.Second)
	runBlock(a, t, nil)
	planHeight = a.Height + 3
	t = t.Add(5 * time.Second)
	a.Begin(t)
	if err := a.App.UpgradeKeeper.ScheduleUpgrade(a.DeliverCtx(), upgradetypes.Plan{Name: plan, Height: planHeight}); err != nil {
		return nil, t, 0, err
	}
	a.End()
	a.Commit()
	// the next version is written by "the previous binary"
	isAdded := map[string]bool{}
	for _, n := range added {
		isAdded[n] = true
	}
	rs := rootmulti.NewStore(db, log.NewNopLogger())
	keys := map[string]*storetypes.KVStoreKey{}
	for name := range a.App.GetKVStoreKey() {
		if !isAdded[name] {
			keys[name] = storetypes.NewKVStoreKey(name)
			rs.MountStoreWithDB(keys[name], storetypes.StoreTypeIAVL, nil)
		}
	}
	if err := rs.LoadLatestVersion(); err != nil {
		return nil, t, 0, err
	}
	for _, name := range added {
		rs.GetCommitKVStore(keys[upgradetypes.StoreKey]).Delete(append([]byte{upgradetypes.VersionMapByte}, name...))
	}
	if v := rs.Commit().Version; v != planHeight-1 {
		return nil, t, 0, fmt.Errorf("previous binary committed version %d, want %d", v, planHeight-1)
	}
	for _, name := range added {
		prefix := []byte("s/k:" + name + "/")
		it, err := db.Iterator(prefix, storetypes.PrefixEndBytes(prefix))
		if err != nil {
			return nil, t, 0, err
		}
		var stale [][]byte
		for ; it.Valid(); it.Next() {
			stale = append(stale, append([]byte{}, it.Key()...))
		}
		it.Close()
		for _, k := range stale {
			if err := db.Delete(k); err != nil {
				return nil, t, 0, err
			}
		}
	}
	if err := a.App.UpgradeKeeper.DumpUpgradeInfoToDisk(planHeight, upgradetypes.Plan{Name: plan, Height: planHeight}); err != nil {
		return nil, t, 0, err
	}
	return a, t.Add(5 * time.Second), planHeight, nil
}

func upgradesThatAddStores() []struct {
	name  string
	added []string
} {
	var out []struct {
		name  string
		added []string
	}
	for _, u := range app.Upgrades {
		if len(u.StoreUpgrades.Added) > 0 && len(u.StoreUpgrades.Deleted) == 0 {
			out = append(out, struct {
				name  string
				added []string
			}{u.UpgradeName, u.StoreUpgrades.Added})
		}
	}
	return out
}

func monC19StartAtUpgradeHeight(s *Stream) {
	for _, u := range upgradesThatAddStores() {
		u := u
		name := "mon.c19.start-at-upgrade-height name=" + u.name
		s.Inflight(name)
		s.Emit(name, guard(func() string {
			old, t, planHeight, err := preUpgradeNode(u.name, u.added)
			if err != nil {
				return "pass #no-pre-upgrade-node " + err.Error()[:min(80, len(err.Error()))]
			}
			n := reopen(old) // exits the process when the stores cannot be loaded
			if n.App.LastBlockHeight() != planHeight-1 {
				return fmt.Sprintf("fail #did-not-open-the-database-of-the-previous-release (height %d)", n.App.LastBlockHeight())
			}
			for i := 0; i < 2; i++ {
				t = t.Add(5 * time.Second)
				runBlock(n, t, nil) // a halt in the upgrade block is a panic, caught by guard
			}
			if n.App.UpgradeKeeper.GetDoneHeight(n.QueryCtx(), u.name) != planHeight {
				return "fail #upgrade-not-applied-at-its-height"
			}
			bz, err := n.DB.Get([]byte(fmt.Sprintf("s/%d", n.App.LastBlockHeight())))
			if err != nil || bz == nil {
				return "fail #no-commit-info"
			}
			var ci storetypes.CommitInfo
			if err := ci.Unmarshal(bz); err != nil {
				return "fail #commit-info"
			}
			have := map[string]bool{}
			for _, si := range ci.StoreInfos {
				have[si.Name] = true
			}
			for _, a := range u.added {
				if !have[a] {
					return "fail #added-store-not-committed-after-the-upgrade " + a
				}
			}
			n = reopen(n)
			t = t.Add(5 * time.Second)
			runBlock(n, t, nil)
			return "pass"
		}))
	}
}

func monC10RestartInsideUpgradeBlock(s *Stream) {
	for _, u := range upgradesThatAddStores() {
		u := u
		name := "mon.c10.restart-inside-upgrade-block name=" + u.name
		s.Inflight(name)
		s.Emit(name, guard(func() string {
			oldA, t, planHeight, err := preUpgradeNode(u.name, u.added)
			if err != nil {
				return "pass #no-pre-upgrade-node " + err.Error()[:min(80, len(err.Error()))]
			}
			oldB, _, _, err := preUpgradeNode(u.name, u.added)
			if err != nil {
				return "pass #no-pre-upgrade-node"
			}
			a, b := reopen(oldA), reopen(oldB)
			height, hash := a.App.LastBlockHeight(), a.App.LastCommitID().Hash
			if height != planHeight-1 || !bytes.Equal(hash, b.App.LastCommitID().Hash) {
				return "pass #twins-do-not-start-alike"
			}
			t = t.Add(5 * time.Second)
			a.Begin(t)    // the upgrade handler runs ...
			a = reopen(a) // ... and the process is gone before the block is committed
			if a.App.LastBlockHeight() != height {
				return fmt.Sprintf("fail #height %d != %d", a.App.LastBlockHeight(), height)
			}
			if !bytes.Equal(a.App.LastCommitID().Hash, hash) {
				return "fail #apphash-after-restart"
			}
			for i := 0; i < 3; i++ {
				if i > 0 {
					t = t.Add(5 * time.Second)
				}
				ra, ha := runBlock(a, t, nil)
				rb, hb := runBlock(b, t, nil)
				if fmt.Sprint(ra) != fmt.Sprint(rb) {
					return fmt.Sprintf("fail #results-differ-from-uninterrupted-twin in block %d", a.Height)
				}
				if !bytes.Equal(ha, hb) {
					return fmt.Sprintf("fail #apphash-differs-from-uninterrupted-twin in block %d", a.Height)
				}
				if i == 1 {
					a = reopen(a)
				}
			}
			if a.App.UpgradeKeeper.GetDoneHeight(a.QueryCtx(), u.name) != planHeight {
				return "fail #upgrade-not-applied-at-its-height"
			}
			return "pass"
		}))
	}
}
