package main

// Stream "tx": real signed transactions (direct and legacy-amino sign modes) through DeliverTx on a real app:
// plain custom-module messages and authz MsgExec wrappers, signers that differ from the actors named in the
// messages, missing / bad signatures, wrong sequences, explicit fee payers, insufficient funds, multi-message
// transactions failing at any position.  After every transaction the balances, sequences and the three
// custom stores are dumped.  Against the Lean model `Tx.deliverTx`.

import (
	"fmt"
	txtypes "github.com/cosmos/cosmos-sdk/types/tx"
	burntypes "github.com/medibloc/panacea-core/v2/x/burn/types"
	"math/rand"
	"strings"
	"time"

	abci "github.com/cometbft/cometbft/abci/types"
	sdk "github.com/cosmos/cosmos-sdk/types"
	"github.com/cosmos/cosmos-sdk/types/tx/signing"
	authtypes "github.com/cosmos/cosmos-sdk/x/auth/types"
	"github.com/cosmos/cosmos-sdk/x/authz"
	aoltypes "github.com/medibloc/panacea-core/v2/x/aol/types"
	didtypes "github.com/medibloc/panacea-core/v2/x/did/types"
	pnfttypes "github.com/medibloc/panacea-core/v2/x/pnft/types"
)

type txEnv struct {
	c       *Chain
	s       *Stream
	seen    map[string]bool
	accts   []*Acct
	supply0 sdk.Int
	lastDfc sdk.Int
}

func (e *txEnv) addr(text string) string {
	if !e.seen[text] {
		e.seen[text] = true
		emitAddr(e.s, text)
	}
	return hxs(text)
}

func innerTok(e *txEnv, m sdk.Msg) string {
	switch m := m.(type) {
	case *aoltypes.MsgCreateTopicRequest:
		return fmt.Sprintf("aol createTopic %s %s %s", hxs(m.TopicName), hxs(m.Description), e.addr(m.OwnerAddress))
	case *aoltypes.MsgAddWriterRequest:
		return fmt.Sprintf("aol addWriter %s %s %s %s %s", hxs(m.TopicName), hxs(m.Moniker), hxs(m.Description), e.addr(m.WriterAddress), e.addr(m.OwnerAddress))
	case *aoltypes.MsgDeleteWriterRequest:
		return fmt.Sprintf("aol deleteWriter %s %s %s", hxs(m.TopicName), e.addr(m.WriterAddress), e.addr(m.OwnerAddress))
	case *aoltypes.MsgAddRecordRequest:
		return fmt.Sprintf("aol addRecord %s %s %s %s %s %s", hxs(m.TopicName), hx(m.Key), hx(m.Value), e.addr(m.WriterAddress), e.addr(m.OwnerAddress), e.addr(m.FeePayerAddress))
	case *pnfttypes.MsgCreateDenomRequest:
		return fmt.Sprintf("pnft createDenom %s %s %s %s %s %s %s %s", hxs(m.Id), hxs(m.Name), hxs(m.Symbol), hxs(m.Description), hxs(m.Uri), hxs(m.UriHash), hxs(m.Data), e.addr(m.Creator))
	case *pnfttypes.MsgTransferDenomRequest:
		return fmt.Sprintf("pnft transferDenom %s %s %s", hxs(m.Id), e.addr(m.Sender), e.addr(m.Receiver))
	case *pnfttypes.MsgMintPNFTRequest:
		return fmt.Sprintf("pnft mintPNFT %s %s %s %s %s %s %s %s", hxs(m.DenomId), hxs(m.Id), hxs(m.Name), hxs(m.Description), hxs(m.Uri), hxs(m.UriHash), hxs(m.Data), e.addr(m.Creator))
	case *pnfttypes.MsgTransferPNFTRequest:
		return fmt.Sprintf("pnft transferPNFT %s %s %s %s", hxs(m.DenomId), hxs(m.Id), e.addr(m.Sender), e.addr(m.Receiver))
	case *pnfttypes.MsgBurnPNFTRequest:
		return fmt.Sprintf("pnft burnPNFT %s %s %s", hxs(m.DenomId), hxs(m.Id), e.addr(m.Burner))
	case *pnfttypes.MsgDeleteDenomRequest:
		return fmt.Sprintf("pnft deleteDenom %s %s", hxs(m.Id), e.addr(m.Remover))
	case *didtypes.MsgCreateDIDRequest:
		return fmt.Sprintf("did create %s %s %s %s %s %s", hxs(m.Did), docTok(m.Document), hx(docBytes(m.Document)), hxs(m.VerificationMethodId), hx(m.Signature), e.addr(m.FromAddress))
	case *didtypes.MsgUpdateDIDRequest:
		return fmt.Sprintf("did update %s %s %s %s %s %s", hxs(m.Did), docTok(m.Document), hx(docBytes(m.Document)), hxs(m.VerificationMethodId), hx(m.Signature), e.addr(m.FromAddress))
	case *didtypes.MsgDeactivateDIDRequest:
		return fmt.Sprintf("did deactivate %s %s %s %s", hxs(m.Did), hxs(m.VerificationMethodId), hx(m.Signature), e.addr(m.FromAddress))
	}
	panic(fmt.Sprintf("innerTok: %T", m))
}

func typeTag(m sdk.Msg) string {
	switch m.(type) {
	case *aoltypes.MsgCreateTopicRequest:
		return "aol.createTopic"
	case *aoltypes.MsgAddWriterRequest:
		return "aol.addWriter"
	case *aoltypes.MsgDeleteWriterRequest:
		return "aol.deleteWriter"
	case *aoltypes.MsgAddRecordRequest:
		return "aol.addRecord"
	case *pnfttypes.MsgCreateDenomRequest:
		return "pnft.createDenom"
	case *pnfttypes.MsgTransferDenomRequest:
		return "pnft.transferDenom"
	case *pnfttypes.MsgMintPNFTRequest:
		return "pnft.mintPNFT"
	case *pnfttypes.MsgTransferPNFTRequest:
		return "pnft.transferPNFT"
	case *pnfttypes.MsgBurnPNFTRequest:
		return "pnft.burnPNFT"
	case *pnfttypes.MsgDeleteDenomRequest:
		return "pnft.deleteDenom"
	}
	panic("typeTag")
}

// state prints balances, sequences, fee collector, supply delta and the three custom store dumps.
func (e *txEnv) state() {
	e.s.Emit("tx.state", guard(func() string {
		ctx := e.c.DeliverCtx()
		var parts []string
		for _, a := range e.accts {
			acc := e.c.App.AccountKeeper.GetAccount(ctx, a.Addr)
			seq := "none"
			if acc != nil {
				seq = fmt.Sprint(acc.GetSequence())
			}
			parts = append(parts, fmt.Sprintf("%s:%s:%s", hx(a.Addr), e.c.App.BankKeeper.GetBalance(ctx, a.Addr, feeDenom).Amount.String(), seq))
		}
		fc := e.lastDfc
		sup := e.c.App.BankKeeper.GetSupply(ctx, feeDenom).Amount.Sub(e.supply0)
		return fmt.Sprintf("ok accts=%s fc=%s dsupply=%s aol=%s did=%s pnft=%s", strings.Join(parts, ","), fc.String(), sup.String(),
			aolDump(e.c, ctx), didDumpStr(e.c, ctx), pnftDump(e.c, ctx))
	}))
}

func didDumpStr(c *Chain, ctx sdk.Context) string {
	k := c.App.DidKeeper
	var parts []string
	for _, did := range k.ListDIDs(ctx) {
		d := k.GetDIDDocument(ctx, did)
		parts = append(parts, fmt.Sprintf("%s=%d,%s", hxs(did), d.Sequence, docTok(d.Document)))
	}
	if len(parts) == 0 {
		return "~"
	}
	return strings.Join(parts, "/")
}

type txPlan struct {
	msgs    []sdk.Msg // top-level (plain or *authz.MsgExec)
	signers []SignerSpec
	fee     int64
	payer   string
	mode    signing.SignMode
}

func (e *txEnv) deliver(p txPlan) {
	// op line
	var segs []string
	for _, m := range p.msgs {
		if ex, ok := m.(*authz.MsgExec); ok {
			inner, err := ex.GetMessages()
			if err != nil {
				panic(err)
			}
			segs = append(segs, fmt.Sprintf("exec %s %d", e.addr(ex.Grantee), len(inner)))
			for _, im := range inner {
				segs = append(segs, innerTok(e, im))
			}
		} else {
			segs = append(segs, innerTok(e, m))
		}
	}
	var sg []string
	for _, s := range p.signers {
		if s.Missing {
			continue
		}
		_, seq := e.c.acctNumSeq(s.Acct.Addr)
		valid := 1
		if s.BadSig || s.ForeignKey != nil {
			valid = 0
		}
		sg = append(sg, fmt.Sprintf("%s:%d:%d", hx(s.Acct.Addr), valid, int64(seq)+s.SeqOff))
	}
	sigs := "~"
	if len(sg) > 0 {
		sigs = strings.Join(sg, ",")
	}
	payer := "-"
	if p.payer != "" {
		payer = e.addr(p.payer)
	}
	op := fmt.Sprintf("tx fee=%d payer=%s sigs=%s | %s", p.fee, payer, sigs, strings.Join(segs, " | "))
	bz, err := e.c.BuildTx(TxSpec{Msgs: p.msgs, Signers: p.signers, Fee: p.fee, Mode: p.mode, FeePayer: p.payer})
	if err != nil && p.mode == signing.SignMode_SIGN_MODE_LEGACY_AMINO_JSON {
		// PNFT messages are not legacytx.LegacyMsg (no Route/Type): they cannot be signed in amino-JSON mode
		bz, err = e.c.BuildTx(TxSpec{Msgs: p.msgs, Signers: p.signers, Fee: p.fee, Mode: signing.SignMode_SIGN_MODE_DIRECT, FeePayer: p.payer})
	}
	if err != nil {
		// the client could not even build the transaction (GetSigners panics on an invalid address): the chain
		// never sees it
		e.lastDfc = sdk.ZeroInt()
		e.s.Emit(op, "err #unbuildable "+strings.ReplaceAll(err.Error(), "\n", " "))
		return
	}
	fcAddr := authtypes.NewModuleAddress(authtypes.FeeCollectorName)
	before := e.c.App.BankKeeper.GetBalance(e.c.DeliverCtx(), fcAddr, feeDenom).Amount
	res := e.c.Deliver(bz)
	e.lastDfc = e.c.App.BankKeeper.GetBalance(e.c.DeliverCtx(), fcAddr, feeDenom).Amount.Sub(before)
	if res.Code == 0 {
		e.s.Emit(op, "ok")
	} else {
		e.s.Emit(op, fmt.Sprintf("err #%s/%d", res.Codespace, res.Code))
	}
}

func (e *txEnv) grant(granter, grantee *Acct, tag string, url string) {
	ctx := e.c.DeliverCtx()
	if err := e.c.App.AuthzKeeper.SaveGrant(ctx, grantee.Addr, granter.Addr, authz.NewGenericAuthorization(url), nil); err != nil {
		panic(err)
	}
	e.s.Emit(fmt.Sprintf("grant %s %s %s", hx(granter.Addr), hx(grantee.Addr), tag), "-")
}

func newTxEnv(s *Stream) *txEnv {
	accts := []*Acct{newAcct("A", []byte("acct-A")), newAcct("B", []byte("acct-B")), newAcct("C", []byte("acct-C")), newAcct("D", []byte("acct-D"))}
	c, err := NewChain(memDB(), tmpHome(), accts, 1000, nil)
	if err != nil {
		panic(err)
	}
	e := &txEnv{c: c, s: s, seen: map[string]bool{}, accts: accts, lastDfc: sdk.ZeroInt()}
	// E: an address that has no account on chain
	e.accts = append(e.accts, newAcct("E", []byte("acct-E")))
	c.Begin(c.Time.Add(time.Second))
	e.supply0 = c.App.BankKeeper.GetSupply(c.DeliverCtx(), feeDenom).Amount
	return e
}

// monC15FeeDenoms evaluates C15's coin clause on fees that are not purely in the staking/fee denomination: a
// custom-module transaction declaring a fee in several denominations must move exactly that fee — every coin of it —
// from the payer to the fee collector, and change no other balance and no supply.
func monC15FeeDenoms(s *Stream) {
	s.Emit("mon.c15.fee-denoms", guard(func() string {
		old := genesisExtraCoins
		genesisExtraCoins = sdk.NewCoins(sdk.NewInt64Coin("ukrw", 1000000), sdk.NewInt64Coin("zzz", 500))
		defer func() { genesisExtraCoins = old }()
		accts := []*Acct{newAcct("A", []byte("fee-A")), newAcct("B", []byte("fee-B")), newAcct("C", []byte("fee-C"))}
		c, err := NewChain(memDB(), tmpHome(), accts, 1000000, nil)
		if err != nil {
			return "pass #no-chain " + err.Error()
		}
		c.Begin(c.Time.Add(time.Second))
		fc := authtypes.NewModuleAddress(authtypes.FeeCollectorName)
		burnAddr := sdk.MustAccAddressFromBech32(burntypes.BurnAddress)
		snapshot := func() (map[string]sdk.Coins, sdk.Coins) {
			m := map[string]sdk.Coins{}
			ctx := c.DeliverCtx()
			for _, a := range accts {
				m[a.Name] = c.App.BankKeeper.GetAllBalances(ctx, a.Addr)
			}
			m["fee-collector"] = c.App.BankKeeper.GetAllBalances(ctx, fc)
			m["burn-address"] = c.App.BankKeeper.GetAllBalances(ctx, burnAddr)
			m["burn-module"] = c.App.BankKeeper.GetAllBalances(ctx, authtypes.NewModuleAddress(burntypes.ModuleName))
			var sup sdk.Coins
			for _, d := range []string{feeDenom, "ukrw", "zzz"} {
				sup = sup.Add(c.App.BankKeeper.GetSupply(ctx, d))
			}
			return m, sup
		}
		A, B := accts[0], accts[1]
		// a bystander with a special role: coins that reached the burn address in this block by other means (a module
		// payout in BeginBlock, an unlocking vesting schedule) wait there for the end-blocker; a custom-module
		// transaction delivered in between must not touch them or the supply
		if err := c.App.BankKeeper.SendCoins(c.DeliverCtx(), accts[2].Addr, burnAddr, sdk.NewCoins(sdk.NewInt64Coin(feeDenom, 7000), sdk.NewInt64Coin("ukrw", 5))); err != nil {
			return "pass #cannot-fund-burn-address " + err.Error()
		}
		fees := []sdk.Coins{
			sdk.NewCoins(sdk.NewInt64Coin(feeDenom, 5000), sdk.NewInt64Coin("ukrw", 700)),
			sdk.NewCoins(sdk.NewInt64Coin("ukrw", 900)),
			sdk.NewCoins(sdk.NewInt64Coin(feeDenom, 1), sdk.NewInt64Coin("ukrw", 1), sdk.NewInt64Coin("zzz", 3)),
			sdk.NewCoins(sdk.NewInt64Coin(feeDenom, 4321)),
		}
		for i, fee := range fees {
			var msgs []sdk.Msg
			signers := []SignerSpec{{Acct: A}}
			payer := "A"
			switch i % 2 {
			case 0:
				msgs = []sdk.Msg{&aoltypes.MsgCreateTopicRequest{TopicName: fmt.Sprintf("fee%d", i), OwnerAddress: A.Bech()}}
			default: // add-record with a named fee payer B (first signer), writer A
				msgs = []sdk.Msg{&aoltypes.MsgAddRecordRequest{TopicName: "fee0", Key: []byte("k"), Value: []byte("v"), WriterAddress: A.Bech(), OwnerAddress: A.Bech(), FeePayerAddress: B.Bech()}}
				signers = []SignerSpec{{Acct: B}, {Acct: A}}
				payer = "B"
			}
			before, sup0 := snapshot()
			var tip *txtypes.Tip
			if i == 3 { // a "tip" naming a bystander who signs nothing: accepted by the tx format, must move nothing
				tip = &txtypes.Tip{Tipper: accts[2].Bech(), Amount: sdk.NewCoins(sdk.NewInt64Coin(feeDenom, 777))}
			}
			bz, err := c.BuildTx(TxSpec{Msgs: msgs, Signers: signers, FeeCoins: fee, Tip: tip})
			if err != nil {
				return "pass #unbuildable " + err.Error()
			}
			res := c.App.DeliverTx(abci.RequestDeliverTx{Tx: bz})
			after, sup1 := snapshot()
			if !sup0.IsEqual(sup1) {
				return fmt.Sprintf("fail #supply-changed tx=%d fee=%s", i, fee)
			}
			for name, b0 := range before {
				want := b0
				if res.Code == 0 || true { // the fee is charged whether or not the messages succeed (ante ran)
					if name == payer {
						want = b0.Sub(fee...)
					}
					if name == "fee-collector" {
						want = b0.Add(fee...)
					}
				}
				if !after[name].IsEqual(want) {
					return fmt.Sprintf("fail #balance tx=%d fee=%s account=%s expected=%s actual=%s code=%d", i, fee, name, want, after[name], res.Code)
				}
			}
			if i == 0 && res.Code != 0 {
				return fmt.Sprintf("pass #first-tx-rejected code=%d %s", res.Code, res.Log)
			}
		}
		return "pass"
	}))
}

// txImpersonation: a fixed history for C02's "signed by": accounts that exist on chain but have never signed (no public
// key recorded) are named as signer by somebody else, who supplies an own public key and signature over the victim's
// account number and sequence — as listed writer (AddRecord), as topic owner (AddWriter, DeleteWriter, CreateTopic).
func txImpersonation(s *Stream) {
	e := newTxEnv(s)
	s.Emit("reset", "-")
	var al []string
	for _, a := range e.accts {
		al = append(al, fmt.Sprintf("%s:%d", hx(a.Addr), 1000))
	}
	al[len(al)-1] = hx(e.accts[4].Addr) + ":none"
	s.Emit("tx.genesis "+strings.Join(al, ","), "-")
	s.Emit(fmt.Sprintf("now %d", e.c.Time.UnixNano()), "-")
	O, V, S, Q := e.accts[0], e.accts[1], e.accts[2], e.accts[3]
	run := func(m sdk.Msg, sp ...SignerSpec) {
		e.deliver(txPlan{msgs: []sdk.Msg{m}, signers: sp, fee: 1, mode: signing.SignMode_SIGN_MODE_DIRECT})
		e.state()
	}
	// the stranger in the name of the silent owner Q: create a topic, list itself
	run(&aoltypes.MsgCreateTopicRequest{TopicName: "q", Description: "d", OwnerAddress: Q.Bech()}, SignerSpec{Acct: Q, ForeignKey: S})
	run(&aoltypes.MsgCreateTopicRequest{TopicName: "t", Description: "d", OwnerAddress: O.Bech()}, SignerSpec{Acct: O})
	run(&aoltypes.MsgAddWriterRequest{TopicName: "t", Moniker: "m", WriterAddress: V.Bech(), OwnerAddress: O.Bech()}, SignerSpec{Acct: O})
	// the stranger appends in its own name, then in the listed (silent) writer's name, then with a fee payer slot
	run(&aoltypes.MsgAddRecordRequest{TopicName: "t", Key: []byte("k"), Value: []byte("v"), WriterAddress: S.Bech(), OwnerAddress: O.Bech()}, SignerSpec{Acct: S})
	run(&aoltypes.MsgAddRecordRequest{TopicName: "t", Key: []byte("k"), Value: []byte("v"), WriterAddress: V.Bech(), OwnerAddress: O.Bech()}, SignerSpec{Acct: V, ForeignKey: S})
	run(&aoltypes.MsgAddRecordRequest{TopicName: "t", Key: []byte("k"), Value: []byte("v"), WriterAddress: V.Bech(), OwnerAddress: O.Bech(), FeePayerAddress: S.Bech()},
		SignerSpec{Acct: S}, SignerSpec{Acct: V, ForeignKey: S})
	// ... and changes the writer list in the name of the silent owner Q's topic (Q creates it properly first)
	run(&aoltypes.MsgCreateTopicRequest{TopicName: "q2", Description: "d", OwnerAddress: Q.Bech()}, SignerSpec{Acct: Q})
	run(&aoltypes.MsgAddWriterRequest{TopicName: "q2", Moniker: "m", WriterAddress: S.Bech(), OwnerAddress: Q.Bech()}, SignerSpec{Acct: Q, ForeignKey: S})
	// the upper-case spelling of the silent owner's address (admitted by bech32) in a transaction that only the stranger
	// signs — as explicit fee payer, so that there is a signature at all
	up := strings.ToUpper(Q.Bech())
	for _, m := range []sdk.Msg{
		&aoltypes.MsgAddWriterRequest{TopicName: "q2", Moniker: "m", WriterAddress: S.Bech(), OwnerAddress: up},
		&aoltypes.MsgDeleteWriterRequest{TopicName: "q2", WriterAddress: S.Bech(), OwnerAddress: up},
		&aoltypes.MsgCreateTopicRequest{TopicName: "q3", Description: "d", OwnerAddress: up},
	} {
		e.deliver(txPlan{msgs: []sdk.Msg{m}, signers: []SignerSpec{{Acct: S}}, fee: 1, payer: S.Bech(), mode: signing.SignMode_SIGN_MODE_DIRECT})
		e.state()
	}
	// the real writer appends
	run(&aoltypes.MsgAddRecordRequest{TopicName: "t", Key: []byte("k"), Value: []byte("v"), WriterAddress: V.Bech(), OwnerAddress: O.Bech()}, SignerSpec{Acct: V})
	e.c.End()
	e.c.Commit()
}

// txDidSequence: a fixed history of DID messages delivered as real transactions (ante chain, message router, one
// cache per transaction): proofs made over one sequence number used twice inside one transaction — the same message
// twice, two alternatives, an update followed by a deactivation over the stale number — and a legitimate chain of two
// operations in one transaction.  C04: a proof is consumed by its acceptance, also against the sequence left by the
// earlier messages of the same transaction.
func txDidSequence(s *Stream) {
	e := newTxEnv(s)
	s.Emit("reset", "-")
	var al []string
	for _, a := range e.accts {
		al = append(al, fmt.Sprintf("%s:%d", hx(a.Addr), 1000))
	}
	al[len(al)-1] = hx(e.accts[4].Addr) + ":none"
	s.Emit("tx.genesis "+strings.Join(al, ","), "-")
	s.Emit(fmt.Sprintf("now %d", e.c.Time.UnixNano()), "-")
	A, B := e.accts[0], e.accts[1]
	de := &didEnv{s: s, seen: e.seen, sigs: map[string]bool{}}
	k, k2, k3 := newDidKey("txseq-1"), newDidKey("txseq-2"), newDidKey("txseq-3")
	did := didtypes.NewDID(k.pub)
	vmID := did + "#key1"
	vmOf := func(id string, key *didKey) *didtypes.VerificationMethod {
		return &didtypes.VerificationMethod{Id: id, Type: didtypes.ES256K_2019, Controller: did, PublicKeyBase58: key.b58}
	}
	docWith := func(extra ...*didtypes.VerificationMethod) *didtypes.DIDDocument {
		vms := append([]*didtypes.VerificationMethod{vmOf(vmID, k)}, extra...)
		d := didtypes.NewDIDDocument(did, didtypes.WithVerificationMethods(vms),
			didtypes.WithAuthentications([]didtypes.VerificationRelationship{rel(vmID)}))
		return &d
	}
	d1, d2, d3 := docWith(), docWith(vmOf(did+"#key2", k2)), docWith(vmOf(did+"#key3", k3))
	upd := func(d *didtypes.DIDDocument, seq uint64, from *Acct) sdk.Msg {
		return &didtypes.MsgUpdateDIDRequest{Did: did, Document: d, VerificationMethodId: vmID, Signature: de.sign(k, d, seq), FromAddress: from.Bech()}
	}
	deact := func(seq uint64, from *Acct) sdk.Msg {
		return &didtypes.MsgDeactivateDIDRequest{Did: did, VerificationMethodId: vmID, Signature: de.sign(k, &didtypes.DIDDocument{Id: did}, seq), FromAddress: from.Bech()}
	}
	run := func(signer *Acct, ms ...sdk.Msg) {
		e.deliver(txPlan{msgs: ms, signers: []SignerSpec{{Acct: signer}}, fee: 1, mode: signing.SignMode_SIGN_MODE_DIRECT})
		e.state()
	}
	run(A, &didtypes.MsgCreateDIDRequest{Did: did, Document: d1, VerificationMethodId: vmID, Signature: de.sign(k, d1, 0), FromAddress: A.Bech()})
	run(A, upd(d2, 0, A)) // sequence 0 -> 1
	u := upd(d3, 1, B)
	run(B, u, u)                         // the very same message twice in one transaction
	run(B, upd(d3, 1, B), upd(d1, 1, B)) // two alternatives over sequence 1
	run(B, u)                            // 1 -> 2
	run(B, u)                            // replay in a later transaction of the same block
	dm := deact(2, A)
	run(A, dm, dm)
	run(A, upd(d2, 2, A), deact(2, A)) // the deactivation was made over the stale number
	e.c.End()
	e.c.Commit()
	e.c.Begin(e.c.Time.Add(5 * time.Second))
	run(B, u)                          // replay in a later block
	run(A, upd(d2, 2, A), deact(3, A)) // a legitimate chain of two operations in one transaction
	run(B, dm)
	e.c.End()
	e.c.Commit()
}

// txSponsor: a fixed history for C15's "for an add-record submitted with a named fee payer that is the fee payer, never
// the writer": the named sponsor cannot afford the fee while the writer could — the transaction is refused and nobody is
// charged; with a solvent sponsor the sponsor pays and the writer's balance does not move.
func txSponsor(s *Stream) {
	e := newTxEnv(s)
	s.Emit("reset", "-")
	var al []string
	for _, a := range e.accts {
		al = append(al, fmt.Sprintf("%s:%d", hx(a.Addr), 1000))
	}
	al[len(al)-1] = hx(e.accts[4].Addr) + ":none"
	s.Emit("tx.genesis "+strings.Join(al, ","), "-")
	s.Emit(fmt.Sprintf("now %d", e.c.Time.UnixNano()), "-")
	O, W, S := e.accts[0], e.accts[1], e.accts[2]
	run := func(fee int64, m sdk.Msg, sp ...SignerSpec) {
		e.deliver(txPlan{msgs: []sdk.Msg{m}, signers: sp, fee: fee, mode: signing.SignMode_SIGN_MODE_DIRECT})
		e.state()
	}
	run(1, &aoltypes.MsgCreateTopicRequest{TopicName: "t", Description: "d", OwnerAddress: O.Bech()}, SignerSpec{Acct: O})
	run(1, &aoltypes.MsgAddWriterRequest{TopicName: "t", Moniker: "m", WriterAddress: W.Bech(), OwnerAddress: O.Bech()}, SignerSpec{Acct: O})
	run(997, &aoltypes.MsgCreateTopicRequest{TopicName: "s", Description: "d", OwnerAddress: S.Bech()}, SignerSpec{Acct: S}) // the sponsor is left with 3
	rec := func(payer *Acct) sdk.Msg {
		return &aoltypes.MsgAddRecordRequest{TopicName: "t", Key: []byte("k"), Value: []byte("v"), WriterAddress: W.Bech(), OwnerAddress: O.Bech(), FeePayerAddress: payer.Bech()}
	}
	run(5, rec(S), SignerSpec{Acct: S}, SignerSpec{Acct: W}) // the sponsor cannot pay 5, the writer could
	run(3, rec(S), SignerSpec{Acct: S}, SignerSpec{Acct: W}) // exactly what the sponsor has
	run(1, rec(S), SignerSpec{Acct: S}, SignerSpec{Acct: W}) // nothing left
	run(5, rec(O), SignerSpec{Acct: O}, SignerSpec{Acct: W}) // a solvent sponsor
	run(5, &aoltypes.MsgAddRecordRequest{TopicName: "t", Key: []byte("k"), Value: []byte("v"), WriterAddress: W.Bech(), OwnerAddress: O.Bech()}, SignerSpec{Acct: W})
	e.c.End()
	e.c.Commit()
}

// txLongLog: a log that grows past round numbers of records (64, 128, 256 …), with, at every length near them, a
// transaction whose add-record succeeds and whose next message fails: the whole transaction has no effect (C15), the
// record count and the next offset are what they were (C01).
func txLongLog(s *Stream) {
	e := newTxEnv(s)
	s.Emit("reset", "-")
	var al []string
	for _, a := range e.accts {
		al = append(al, fmt.Sprintf("%s:%d", hx(a.Addr), 1000))
	}
	al[len(al)-1] = hx(e.accts[4].Addr) + ":none"
	s.Emit("tx.genesis "+strings.Join(al, ","), "-")
	s.Emit(fmt.Sprintf("now %d", e.c.Time.UnixNano()), "-")
	O, W := e.accts[0], e.accts[1]
	run := func(signer *Acct, ms ...sdk.Msg) {
		e.deliver(txPlan{msgs: ms, signers: []SignerSpec{{Acct: signer}}, fee: 0, mode: signing.SignMode_SIGN_MODE_DIRECT})
	}
	rec := func(topic string, i int) sdk.Msg {
		return &aoltypes.MsgAddRecordRequest{TopicName: topic, Key: []byte(fmt.Sprintf("k%d", i)), Value: []byte("v"), WriterAddress: W.Bech(), OwnerAddress: O.Bech()}
	}
	run(O, &aoltypes.MsgCreateTopicRequest{TopicName: "log", Description: "d", OwnerAddress: O.Bech()},
		&aoltypes.MsgAddWriterRequest{TopicName: "log", Moniker: "m", WriterAddress: W.Bech(), OwnerAddress: O.Bech()})
	n := 0
	for n < 260 {
		near := false
		for _, b := range []int{64, 128, 256} {
			if n >= b-2 && n <= b {
				near = true
			}
		}
		if near {
			run(W, rec("log", n), rec("no-such-topic", n)) // the second message fails: nothing of the transaction stays
			e.state()
			run(W, rec("log", n))
			n++
			e.state()
			continue
		}
		var batch []sdk.Msg
		for j := 0; j < 12 && n < 260; j++ {
			stop := false
			for _, b := range []int{64, 128, 256} {
				if n == b-2 {
					stop = true
				}
			}
			if stop {
				break
			}
			batch = append(batch, rec("log", n))
			n++
		}
		if len(batch) > 0 {
			run(W, batch...)
		}
	}
	e.state()
	e.c.End()
	e.c.Commit()
}

func txHistory(s *Stream, rng *rand.Rand, steps int) {
	e := newTxEnv(s)
	s.Emit("reset", "-")
	var al []string
	for _, a := range e.accts {
		al = append(al, fmt.Sprintf("%s:%d", hx(a.Addr), 1000))
	}
	// E has no account
	al[len(al)-1] = hx(e.accts[4].Addr) + ":none"
	s.Emit("tx.genesis "+strings.Join(al, ","), "-")
	s.Emit(fmt.Sprintf("now %d", e.c.Time.UnixNano()), "-")
	A := e.accts
	pick := func() *Acct { return A[rng.Intn(4)] }
	pickAny := func() *Acct { return A[rng.Intn(5)] }
	topics := []string{"t", "u"}
	denoms := []string{"d1", "d2"}
	// a few grants
	for i := 0; i < 3; i++ {
		g, h := pick(), pick()
		if g == h {
			continue
		}
		switch rng.Intn(3) {
		case 0:
			e.grant(g, h, "aol.addWriter", sdk.MsgTypeURL(&aoltypes.MsgAddWriterRequest{}))
		case 1:
			e.grant(g, h, "aol.addRecord", sdk.MsgTypeURL(&aoltypes.MsgAddRecordRequest{}))
		default:
			e.grant(g, h, "pnft.mintPNFT", sdk.MsgTypeURL(&pnfttypes.MsgMintPNFTRequest{}))
		}
	}
	type ot struct {
		o *Acct
		t string
	}
	var mkTopics []ot
	writersOf := map[ot][]*Acct{}
	denomOwner := map[string]*Acct{}
	genInner := func() sdk.Msg {
		o, w := pick(), pick()
		t := topics[rng.Intn(2)]
		aim := rng.Intn(10) < 7
		switch rng.Intn(12) {
		case 0, 1:
			mkTopics = append(mkTopics, ot{o, t})
			return &aoltypes.MsgCreateTopicRequest{TopicName: t, Description: "d", OwnerAddress: o.Bech()}
		case 2, 3:
			if aim && len(mkTopics) > 0 {
				k := mkTopics[rng.Intn(len(mkTopics))]
				o, t = k.o, k.t
			}
			writersOf[ot{o, t}] = append(writersOf[ot{o, t}], w)
			return &aoltypes.MsgAddWriterRequest{TopicName: t, Moniker: "m", WriterAddress: w.Bech(), OwnerAddress: o.Bech()}
		case 4:
			if aim && len(mkTopics) > 0 {
				k := mkTopics[rng.Intn(len(mkTopics))]
				o, t = k.o, k.t
				if ws := writersOf[k]; len(ws) > 0 {
					w = ws[rng.Intn(len(ws))]
				}
			}
			return &aoltypes.MsgDeleteWriterRequest{TopicName: t, WriterAddress: w.Bech(), OwnerAddress: o.Bech()}
		case 5, 6, 7:
			if aim && len(mkTopics) > 0 {
				k := mkTopics[rng.Intn(len(mkTopics))]
				o, t = k.o, k.t
				if ws := writersOf[k]; len(ws) > 0 {
					w = ws[rng.Intn(len(ws))]
				}
			}
			fp := ""
			if rng.Intn(2) == 0 {
				fp = pick().Bech()
				if rng.Intn(8) == 0 {
					fp = pickAny().Bech()
				}
			}
			return &aoltypes.MsgAddRecordRequest{TopicName: t, Key: []byte("k"), Value: smallBytes(rng), WriterAddress: w.Bech(), OwnerAddress: o.Bech(), FeePayerAddress: fp}
		case 8:
			name := "n"
			if rng.Intn(8) == 0 {
				name = "" // fails ValidateBasic
			}
			d := denoms[rng.Intn(2)]
			if _, ok := denomOwner[d]; !ok {
				denomOwner[d] = o
			}
			return &pnfttypes.MsgCreateDenomRequest{Id: d, Name: name, Symbol: "s", Creator: o.Bech()}
		case 9:
			d := denoms[rng.Intn(2)]
			if do, ok := denomOwner[d]; ok && aim {
				o = do
			}
			return &pnfttypes.MsgMintPNFTRequest{DenomId: d, Id: []string{"1", "2"}[rng.Intn(2)], Name: "n", Creator: o.Bech()}
		case 10:
			d := denoms[rng.Intn(2)]
			if do, ok := denomOwner[d]; ok && aim {
				o = do
			}
			return &pnfttypes.MsgTransferPNFTRequest{DenomId: d, Id: []string{"1", "2"}[rng.Intn(2)], Sender: o.Bech(), Receiver: w.Bech()}
		default:
			d := denoms[rng.Intn(2)]
			if do, ok := denomOwner[d]; ok && aim {
				o = do
			}
			return &pnfttypes.MsgTransferDenomRequest{Id: d, Sender: o.Bech(), Receiver: w.Bech()}
		}
	}
	for i := 0; i < steps; i++ {
		var p txPlan
		nm := 1
		if rng.Intn(3) == 0 {
			nm = 2 + rng.Intn(2)
		}
		for j := 0; j < nm; j++ {
			if rng.Intn(4) == 0 {
				grantee := pick()
				k := 1 + rng.Intn(2)
				var inner []sdk.Msg
				for x := 0; x < k; x++ {
					inner = append(inner, genInner())
				}
				ex := authz.NewMsgExec(grantee.Addr, inner)
				p.msgs = append(p.msgs, &ex)
			} else {
				p.msgs = append(p.msgs, genInner())
			}
		}
		// the signers the chain will require (computed with the real GetSigners, guarded)
		var req []sdk.AccAddress
		func() {
			defer func() { recover() }()
			seen := map[string]bool{}
			for _, m := range p.msgs {
				for _, a := range m.GetSigners() {
					if !seen[string(a)] {
						seen[string(a)] = true
						req = append(req, a)
					}
				}
			}
		}()
		if rng.Intn(10) == 0 {
			p.payer = pick().Bech()
			if rng.Intn(6) == 0 {
				p.payer = pickAny().Bech()
			}
			pa := sdk.MustAccAddressFromBech32(p.payer)
			found := false
			for _, a := range req {
				if a.Equals(pa) {
					found = true
				}
			}
			if !found {
				req = append(req, pa)
			}
		}
		byAddr := map[string]*Acct{}
		for _, a := range A {
			byAddr[string(a.Addr)] = a
		}
		for _, a := range req {
			sp := SignerSpec{Acct: byAddr[string(a)]}
			switch rng.Intn(40) {
			case 0:
				sp.BadSig = true
			case 1:
				sp.SeqOff = int64(1 + rng.Intn(2))
			case 2:
				sp.Missing = true
			case 3:
				sp.Acct = pick() // somebody else signs in this slot
			case 4, 5:
				// somebody else's key and signature in the name of this signer (its address, number and sequence)
				if k := pick(); k != sp.Acct {
					sp.ForeignKey = k
				}
			}
			p.signers = append(p.signers, sp)
		}
		if rng.Intn(25) == 0 && len(p.signers) > 0 {
			p.signers = append(p.signers, SignerSpec{Acct: pick()}) // one signature too many
		}
		p.fee = []int64{0, 1, 1, 2, 5, 5, 7, 2000}[rng.Intn(8)]
		p.mode = signing.SignMode_SIGN_MODE_DIRECT
		if rng.Intn(3) == 0 {
			p.mode = signing.SignMode_SIGN_MODE_LEGACY_AMINO_JSON
		}
		e.deliver(p)
		e.state()
		if rng.Intn(5) == 0 {
			e.c.End()
			e.c.Commit()
			e.c.Begin(e.c.Time.Add(5 * time.Second))
			s.Emit(fmt.Sprintf("now %d", e.c.Time.UnixNano()), "-")
		}
	}
}

func init() {
	streams["tx"] = func(dir string, rng *rand.Rand, n int, tier string) {
		s := NewStream(dir, "tx")
		defer s.Close(dir, "tx")
		monC15FeeDenoms(s)
		txImpersonation(s)
		txDidSequence(s)
		txSponsor(s)
		txLongLog(s)
		for h := 0; h < n; h++ {
			txHistory(s, rng, 15+rng.Intn(25))
		}
	}
}
