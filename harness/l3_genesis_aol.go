package main

// mon.c01.genesis-consistency / mon.c13.genesis-consistency: a chain started from a hand-written AOL genesis that the
// module's own validation accepts.  Either the validation refuses a file whose counters and entries do not fit
// together, or the chain that starts from it keeps the properties: an append never touches a record that the genesis
// put there (C01), and the reported numbers equal the contents (C13).

import (
	"encoding/json"
	"fmt"
	"strings"

	sdk "github.com/cosmos/cosmos-sdk/types"
	"github.com/medibloc/panacea-core/v2/app"
	aolkeeper "github.com/medibloc/panacea-core/v2/x/aol/keeper"
	aoltypes "github.com/medibloc/panacea-core/v2/x/aol/types"
	didkeeper "github.com/medibloc/panacea-core/v2/x/did/keeper"
	didtypes "github.com/medibloc/panacea-core/v2/x/did/types"
)

type aolGenCase struct {
	name  string
	build func(o, w string) aoltypes.GenesisState
}

func aolGenCases() []aolGenCase {
	rec := func(w string) *aoltypes.Record {
		return &aoltypes.Record{Key: []byte("old-k"), Value: []byte("old-v"), NanoTimestamp: 1, WriterAddress: w}
	}
	wr := &aoltypes.Writer{Moniker: "m", Description: "d", NanoTimestamp: 1}
	return []aolGenCase{
		{"counter-below-records", func(o, w string) aoltypes.GenesisState { // a record at offset 0, the counter says none
			return aoltypes.GenesisState{Owners: map[string]*aoltypes.Owner{o: {TotalTopics: 1}},
				Topics:  map[string]*aoltypes.Topic{o + "/t": {TotalRecords: 0, TotalWriters: 1}},
				Writers: map[string]*aoltypes.Writer{o + "/t/" + w: wr},
				Records: map[string]*aoltypes.Record{o + "/t/0": rec(w)}}
		}},
		{"counter-at-the-end-of-the-range", func(o, w string) aoltypes.GenesisState { // next offset 2^64-1, then 0 again
			return aoltypes.GenesisState{Owners: map[string]*aoltypes.Owner{o: {TotalTopics: 1}},
				Topics:  map[string]*aoltypes.Topic{o + "/t": {TotalRecords: ^uint64(0), TotalWriters: 1}},
				Writers: map[string]*aoltypes.Writer{o + "/t/" + w: wr},
				Records: map[string]*aoltypes.Record{o + "/t/0": rec(w)}}
		}},
		{"writer-without-topic", func(o, w string) aoltypes.GenesisState {
			return aoltypes.GenesisState{Owners: map[string]*aoltypes.Owner{}, Topics: map[string]*aoltypes.Topic{},
				Writers: map[string]*aoltypes.Writer{o + "/t/" + w: wr}, Records: map[string]*aoltypes.Record{}}
		}},
		{"record-at-the-counter-with-a-gap-below", func(o, w string) aoltypes.GenesisState { // offsets {0,2}, the counter says 2
			return aoltypes.GenesisState{Owners: map[string]*aoltypes.Owner{o: {TotalTopics: 1}},
				Topics:  map[string]*aoltypes.Topic{o + "/t": {TotalRecords: 2, TotalWriters: 1}},
				Writers: map[string]*aoltypes.Writer{o + "/t/" + w: wr},
				Records: map[string]*aoltypes.Record{o + "/t/0": rec(w), o + "/t/2": rec(w)}}
		}},
		{"records-above-a-gap", func(o, w string) aoltypes.GenesisState { // offsets {1,2}, the counter says 2
			return aoltypes.GenesisState{Owners: map[string]*aoltypes.Owner{o: {TotalTopics: 1}},
				Topics:  map[string]*aoltypes.Topic{o + "/t": {TotalRecords: 2, TotalWriters: 1}},
				Writers: map[string]*aoltypes.Writer{o + "/t/" + w: wr},
				Records: map[string]*aoltypes.Record{o + "/t/1": rec(w), o + "/t/2": rec(w)}}
		}},
		{"record-far-beyond-the-counter", func(o, w string) aoltypes.GenesisState { // offsets {0,5}, the counter says 2
			return aoltypes.GenesisState{Owners: map[string]*aoltypes.Owner{o: {TotalTopics: 1}},
				Topics:  map[string]*aoltypes.Topic{o + "/t": {TotalRecords: 2, TotalWriters: 1}},
				Writers: map[string]*aoltypes.Writer{o + "/t/" + w: wr},
				Records: map[string]*aoltypes.Record{o + "/t/0": rec(w), o + "/t/5": rec(w)}}
		}},
		{"counters-above-contents", func(o, w string) aoltypes.GenesisState {
			return aoltypes.GenesisState{Owners: map[string]*aoltypes.Owner{o: {TotalTopics: 5}},
				Topics:  map[string]*aoltypes.Topic{o + "/t": {TotalRecords: 0, TotalWriters: 3}},
				Writers: map[string]*aoltypes.Writer{o + "/t/" + w: wr}, Records: map[string]*aoltypes.Record{}}
		}},
	}
}

func monAolGenesisConsistency(s *Stream, prop string) {
	for _, cs := range aolGenCases() {
		cs := cs
		s.Emit(fmt.Sprintf("mon.%s.genesis-consistency %s", prop, cs.name), guard(func() string {
			oa, wa := sdk.AccAddress([]byte("genesis-owner-address")), sdk.AccAddress([]byte("genesis-writer-addr-"))
			o, w := oa.String(), wa.String()
			gs := cs.build(o, w)
			if err := gs.Validate(); err != nil {
				return "pass #rejected-by-genesis-validation"
			}
			c0, err := NewChain(memDB(), tmpHome(), nil, 0, nil)
			if err != nil {
				return "pass #no-chain " + err.Error()
			}
			bz, err := c0.App.AppCodec().MarshalJSON(&gs)
			if err != nil {
				return "pass #not-encodable"
			}
			c, err := NewChain(memDB(), tmpHome(), nil, 0, map[string]json.RawMessage{aoltypes.ModuleName: bz})
			if err != nil {
				return "pass #rejected-by-init-genesis"
			}
			c.Begin(c.Time)
			g := sdk.WrapSDKContext(c.DeliverCtx())
			k := c.App.AolKeeper
			ms := aolkeeper.NewMsgServerImpl(k)
			// C13 on the imported state: reported numbers equal the contents
			counts := func() string {
				var bad []string
				if ow, err := k.Topics(g, &aoltypes.QueryTopicsRequest{OwnerAddress: o}); err == nil {
					own := k.GetOwner(c.DeliverCtx(), aoltypes.OwnerCompositeKey{OwnerAddress: oa})
					if own.TotalTopics != uint64(len(ow.TopicNames)) {
						bad = append(bad, fmt.Sprintf("owner reports %d topics, %d listed", own.TotalTopics, len(ow.TopicNames)))
					}
				}
				tk := aoltypes.TopicCompositeKey{OwnerAddress: oa, TopicName: "t"}
				if k.HasTopic(c.DeliverCtx(), tk) {
					t := k.GetTopic(c.DeliverCtx(), tk)
					if ws, err := k.Writers(g, &aoltypes.QueryWritersRequest{OwnerAddress: o, TopicName: "t"}); err == nil && t.TotalWriters != uint64(len(ws.WriterAddresses)) {
						bad = append(bad, fmt.Sprintf("topic reports %d writers, %d listed", t.TotalWriters, len(ws.WriterAddresses)))
					}
				} else if ws, err := k.Writers(g, &aoltypes.QueryWritersRequest{OwnerAddress: o, TopicName: "t"}); err == nil && len(ws.WriterAddresses) > 0 {
					bad = append(bad, "writers listed for a topic that does not exist")
				}
				return strings.Join(bad, "; ")
			}
			tk := aoltypes.TopicCompositeKey{OwnerAddress: oa, TopicName: "t"}
			stored := func() map[uint64]string {
				out := map[uint64]string{}
				keys, recs := k.GetAllRecords(c.DeliverCtx())
				for i, rk := range keys {
					if rk.OwnerAddress.Equals(oa) && rk.TopicName == "t" {
						out[rk.Offset] = string(recs[i].Key) + "\x00" + string(recs[i].Value)
					}
				}
				return out
			}
			recordCount := func() string {
				if !k.HasTopic(c.DeliverCtx(), tk) {
					return ""
				}
				if t, n := k.GetTopic(c.DeliverCtx(), tk), len(stored()); t.TotalRecords != uint64(n) {
					return fmt.Sprintf("topic reports %d records, %d stored", t.TotalRecords, n)
				}
				return ""
			}
			if prop == "c13" {
				if b := counts(); b != "" {
					return "fail #reported-numbers-differ-from-contents " + b
				}
				if b := recordCount(); b != "" {
					return "fail #reported-numbers-differ-from-contents " + b
				}
			}
			// C01: whatever the genesis put at an offset stays; an append reports an offset nobody held.  C13: after every
			// append the reported number of records is still the number stored
			before := stored()
			for i := 0; i < 3; i++ {
				held := stored()
				r, err := ms.AddRecord(g, &aoltypes.MsgAddRecordRequest{TopicName: "t", Key: []byte(fmt.Sprintf("k%d", i)), Value: []byte("v"), WriterAddress: w, OwnerAddress: o})
				if err != nil {
					continue
				}
				if _, was := held[r.Offset]; was && prop == "c01" {
					return "fail #append-reused-the-offset-of-an-existing-record"
				}
				if prop == "c13" {
					if b := recordCount(); b != "" {
						return "fail #reported-numbers-differ-from-contents after an append: " + b
					}
				}
			}
			if prop == "c01" {
				now := stored()
				for off, v := range before {
					if now[off] != v {
						return "fail #record-of-the-genesis-was-replaced"
					}
				}
			}
			return "pass"
		}))
	}
}

// mon.c08.export-at-sequence-end: a DID whose sequence has reached the end of the uint64 range by accepted operations
// (a genesis close to the end, then one deactivation) — the chain's own exported genesis must pass the modules'
// genesis validation and import again.
func monC08ExportAtSequenceEnd(s *Stream) {
	s.Emit("mon.c08.export-at-sequence-end", guard(func() string {
		k := newDidKey("seq-end-owner")
		did := didtypes.NewDID(k.pub)
		vmID := did + "#key1"
		vm := &didtypes.VerificationMethod{Id: vmID, Type: didtypes.ES256K_2019, Controller: did, PublicKeyBase58: k.b58}
		d := didtypes.NewDIDDocument(did, didtypes.WithVerificationMethods([]*didtypes.VerificationMethod{vm}),
			didtypes.WithAuthentications([]didtypes.VerificationRelationship{rel(vmID)}))
		seq := ^uint64(0) - 1
		w := didtypes.NewDIDDocumentWithSeq(&d, seq)
		gs := didtypes.GenesisState{Documents: map[string]*didtypes.DIDDocumentWithSeq{didtypes.GenesisDIDDocumentKey{DID: did}.Marshal(): &w}}
		if err := gs.Validate(); err != nil {
			return "pass #rejected-by-genesis-validation"
		}
		c0, err := NewChain(memDB(), tmpHome(), nil, 0, nil)
		if err != nil {
			return "pass #no-chain"
		}
		bz, err := c0.App.AppCodec().MarshalJSON(&gs)
		if err != nil {
			return "pass #not-encodable"
		}
		c, err := NewChain(memDB(), tmpHome(), nil, 0, map[string]json.RawMessage{didtypes.ModuleName: bz})
		if err != nil {
			return "pass #rejected-by-init-genesis"
		}
		c.Begin(c.Time)
		ms := didkeeper.NewMsgServerImpl(c.App.DidKeeper)
		g := sdk.WrapSDKContext(c.DeliverCtx())
		sig, _ := didtypes.Sign(&didtypes.DIDDocument{Id: did}, seq, k.priv)
		from := sdk.AccAddress([]byte("relayer-1-address-xx")).String()
		if _, err := ms.DeactivateDID(g, &didtypes.MsgDeactivateDIDRequest{Did: did, VerificationMethodId: vmID, Signature: sig, FromAddress: from}); err != nil {
			return "pass #deactivation-refused"
		}
		g1 := exportCustom(c, c.DeliverCtx())
		full := c.App.DefaultGenesis()
		for k, v := range g1 {
			full[k] = v
		}
		if err := app.ModuleBasics.ValidateGenesis(c.App.AppCodec(), c.App.TxConfig(), full); err != nil {
			return "fail #exported-genesis-fails-validation " + err.Error()[:min(90, len(err.Error()))]
		}
		c2, err := NewChain(memDB(), tmpHome(), nil, 0, g1)
		if err != nil {
			return "fail #exported-genesis-does-not-import"
		}
		c2.Begin(c2.Time)
		if !sameGenesis(g1, exportCustom(c2, c2.DeliverCtx())) {
			return "fail #re-export-differs"
		}
		return "pass"
	}))
}
