package main

// Application-level driver: a real app.New(...) on a MemDB (or a supplied DB), a validator set, funded
// accounts, blocks with explicit header times and real signed transactions through DeliverTx.

import (
	"encoding/json"
	"fmt"
	txtypes "github.com/cosmos/cosmos-sdk/types/tx"
	"os"
	"time"

	dbm "github.com/cometbft/cometbft-db"
	abci "github.com/cometbft/cometbft/abci/types"
	"github.com/cometbft/cometbft/libs/log"
	tmproto "github.com/cometbft/cometbft/proto/tendermint/types"
	tmtypes "github.com/cometbft/cometbft/types"
	"github.com/cosmos/cosmos-sdk/baseapp"
	"github.com/cosmos/cosmos-sdk/client"
	"github.com/cosmos/cosmos-sdk/client/flags"
	"github.com/cosmos/cosmos-sdk/crypto/keys/secp256k1"
	cryptotypes "github.com/cosmos/cosmos-sdk/crypto/types"
	"github.com/cosmos/cosmos-sdk/server"
	"github.com/cosmos/cosmos-sdk/testutil/mock"
	simtestutil "github.com/cosmos/cosmos-sdk/testutil/sims"
	sdk "github.com/cosmos/cosmos-sdk/types"
	"github.com/cosmos/cosmos-sdk/types/tx/signing"
	authsigning "github.com/cosmos/cosmos-sdk/x/auth/signing"
	authtypes "github.com/cosmos/cosmos-sdk/x/auth/types"
	banktypes "github.com/cosmos/cosmos-sdk/x/bank/types"

	"github.com/medibloc/panacea-core/v2/app"
)

const chainID = "verif-1"
const feeDenom = "umed"

type Acct struct {
	Name string
	Priv cryptotypes.PrivKey
	Addr sdk.AccAddress
}

func (a *Acct) Bech() string { return a.Addr.String() }

func newAcct(name string, seed []byte) *Acct {
	priv := secp256k1.GenPrivKeyFromSecret(seed)
	return &Acct{Name: name, Priv: priv, Addr: sdk.AccAddress(priv.PubKey().Address())}
}

type Chain struct {
	App     *app.App
	DB      dbm.DB
	Home    string
	Height  int64
	Time    time.Time
	Accts   []*Acct
	InBlock bool
	TxCfg   client.TxConfig
	valSet  *tmtypes.ValidatorSet
}

// genesisExtraCoins, when set, is added to every funded genesis account (multi-denom streams).
var genesisExtraCoins sdk.Coins

var sharedPV tmtypes.PrivValidator

var configDone bool

func setConfigOnce() {
	if !configDone {
		app.SetConfig()
		configDone = true
	}
}

// node-local configuration (app.toml `minimum-gas-prices`) of the applications created next: handed over the way the
// node's start command does it, in the application options and as a BaseApp option
var nodeLocalMinGasPrices string

func newAppOn(db dbm.DB, home string) *app.App {
	setConfigOnce()
	opts := simtestutil.AppOptionsMap{flags.FlagHome: home}
	bo := []func(*baseapp.BaseApp){baseapp.SetChainID(chainID)}
	if nodeLocalMinGasPrices != "" {
		opts[server.FlagMinGasPrices] = nodeLocalMinGasPrices
		bo = append(bo, baseapp.SetMinGasPrices(nodeLocalMinGasPrices))
	}
	if os.Getenv("VERIF_DISABLE_FASTNODE") != "" {
		// diagnostic only (known finding F16): with IAVL's fast-node index off, listing queries at a height no
		// longer see the next height
		bo = append(bo, baseapp.SetIAVLDisableFastNode(true))
	}
	return app.New(log.NewNopLogger(), db, nil, true, opts, bo...)
}

// NewChain builds an app, runs InitChain with nAccts funded accounts (and optional per-module genesis
// overrides) and commits height 1... (InitChain only; first BeginBlock is height 1).
func NewChain(db dbm.DB, home string, accts []*Acct, balance int64, overrides map[string]json.RawMessage) (*Chain, error) {
	a := newAppOn(db, home)
	c := &Chain{App: a, DB: db, Home: home, Accts: accts, TxCfg: a.TxConfig(), Time: time.Unix(1700000000, 0).UTC()}

	// all chains of one process share the validator key, so that twins start from an identical genesis
	if sharedPV == nil {
		sharedPV = mock.NewPV()
	}
	pv := sharedPV
	pk, err := pv.GetPubKey()
	if err != nil {
		return nil, err
	}
	val := tmtypes.NewValidator(pk, 1)
	c.valSet = tmtypes.NewValidatorSet([]*tmtypes.Validator{val})

	var genAccs []authtypes.GenesisAccount
	var bals []banktypes.Balance
	// the validator's delegator account
	delPriv := secp256k1.GenPrivKeyFromSecret([]byte("verif-delegator"))
	delAcc := authtypes.NewBaseAccount(delPriv.PubKey().Address().Bytes(), delPriv.PubKey(), 0, 0)
	genAccs = append(genAccs, delAcc)
	bals = append(bals, banktypes.Balance{Address: delAcc.GetAddress().String(), Coins: sdk.NewCoins(sdk.NewInt64Coin(sdk.DefaultBondDenom, 100000000000000))})
	for _, ac := range accts {
		genAccs = append(genAccs, authtypes.NewBaseAccount(ac.Addr, nil, 0, 0))
		if balance > 0 {
			coins := sdk.NewCoins(sdk.NewInt64Coin(feeDenom, balance)).Add(genesisExtraCoins...)
			bals = append(bals, banktypes.Balance{Address: ac.Bech(), Coins: coins})
		}
	}
	gs := a.DefaultGenesis()
	gs, err = simtestutil.GenesisStateWithValSet(a.AppCodec(), gs, c.valSet, genAccs, bals...)
	if err != nil {
		return nil, err
	}
	for k, v := range overrides {
		if v == nil {
			delete(gs, k) // a genesis file without this module's section
			continue
		}
		gs[k] = v
	}
	stateBytes, err := json.Marshal(gs)
	if err != nil {
		return nil, err
	}
	if err := c.initChain(stateBytes); err != nil {
		return nil, err
	}
	return c, nil
}

func (c *Chain) initChain(stateBytes []byte) (err error) {
	defer func() {
		if r := recover(); r != nil {
			err = fmt.Errorf("initchain panic: %v", r)
		}
	}()
	c.App.InitChain(abci.RequestInitChain{
		ChainId:         chainID,
		Time:            c.Time,
		Validators:      []abci.ValidatorUpdate{},
		ConsensusParams: simtestutil.DefaultConsensusParams,
		AppStateBytes:   stateBytes,
	})
	c.App.Commit()
	c.Height = c.App.LastBlockHeight()
	return nil
}

func (c *Chain) header() tmproto.Header {
	return tmproto.Header{
		ChainID:            chainID,
		Height:             c.Height + 1,
		Time:               c.Time,
		AppHash:            c.App.LastCommitID().Hash,
		ValidatorsHash:     c.valSet.Hash(),
		NextValidatorsHash: c.valSet.Hash(),
		ProposerAddress:    c.valSet.Proposer.Address,
	}
}

func (c *Chain) Begin(t time.Time) {
	c.Time = t
	c.App.BeginBlock(abci.RequestBeginBlock{Header: c.header()})
	c.InBlock = true
}

func (c *Chain) End() abci.ResponseEndBlock {
	r := c.App.EndBlock(abci.RequestEndBlock{Height: c.Height + 1})
	return r
}

func (c *Chain) Commit() []byte {
	r := c.App.Commit()
	c.Height++
	c.InBlock = false
	return r.Data
}

// DeliverCtx is the deliver-state context (reads see the block's writes so far).
func (c *Chain) DeliverCtx() sdk.Context {
	return c.App.BaseApp.NewContext(false, c.header())
}

// QueryCtx is a context on the last committed state.
func (c *Chain) QueryCtx() sdk.Context {
	ctx, err := c.App.BaseApp.CreateQueryContext(0, false)
	if err != nil {
		panic(err)
	}
	return ctx
}

type SignerSpec struct {
	Acct    *Acct
	BadSig  bool  // sign different bytes
	SeqOff  int64 // added to the real account sequence
	Missing bool  // leave this signer out entirely
	// ForeignKey: the slot names Acct (its address, account number and sequence go into the signed data) but carries
	// this other account's public key in signer_infos and a signature made with its private key
	ForeignKey *Acct
}

func (s SignerSpec) key() cryptotypes.PrivKey {
	if s.ForeignKey != nil {
		return s.ForeignKey.Priv
	}
	return s.Acct.Priv
}

type TxSpec struct {
	Msgs     []sdk.Msg
	Signers  []SignerSpec // in the order of the tx's GetSigners()
	Fee      int64
	Gas      uint64
	Mode     signing.SignMode
	FeePayer string       // explicit AuthInfo.Fee.Payer ("" = none)
	FeeCoins sdk.Coins    // when set, the whole fee (any denominations); Fee is then ignored
	Tip      *txtypes.Tip // AuthInfo.Tip (accepted and ignored by SDK 0.47)
}

func (c *Chain) acctNumSeq(addr sdk.AccAddress) (uint64, uint64) {
	// between blocks there is no deliver state: read the last committed state
	var ctx sdk.Context
	if c.InBlock {
		ctx = c.DeliverCtx()
	} else {
		ctx = c.QueryCtx()
	}
	acc := c.App.AccountKeeper.GetAccount(ctx, addr)
	if acc == nil {
		return 0, 0
	}
	return acc.GetAccountNumber(), acc.GetSequence()
}

// BuildTx signs a transaction; panics inside message methods (GetSigners on invalid addresses) are
// returned as errors.
func (c *Chain) BuildTx(spec TxSpec) (bz []byte, err error) {
	defer func() {
		if r := recover(); r != nil {
			err = fmt.Errorf("build panic: %v", r)
		}
	}()
	b := c.TxCfg.NewTxBuilder()
	if err := b.SetMsgs(spec.Msgs...); err != nil {
		return nil, err
	}
	if spec.FeeCoins != nil {
		b.SetFeeAmount(spec.FeeCoins)
	} else if spec.Fee > 0 {
		b.SetFeeAmount(sdk.NewCoins(sdk.NewInt64Coin(feeDenom, spec.Fee)))
	}
	gas := spec.Gas
	if gas == 0 {
		gas = 2000000
	}
	b.SetGasLimit(gas)
	if spec.FeePayer != "" {
		b.SetFeePayer(sdk.MustAccAddressFromBech32(spec.FeePayer))
	}
	if spec.Tip != nil {
		b.SetTip(spec.Tip)
	}
	mode := spec.Mode
	if mode == signing.SignMode_SIGN_MODE_UNSPECIFIED {
		mode = signing.SignMode_SIGN_MODE_DIRECT
	}
	var sigs []signing.SignatureV2
	var live []SignerSpec
	for _, s := range spec.Signers {
		if s.Missing {
			continue
		}
		live = append(live, s)
	}
	seqs := make([]uint64, len(live))
	nums := make([]uint64, len(live))
	for i, s := range live {
		n, q := c.acctNumSeq(s.Acct.Addr)
		nums[i] = n
		seqs[i] = uint64(int64(q) + s.SeqOff)
		sigs = append(sigs, signing.SignatureV2{
			PubKey:   s.key().PubKey(),
			Data:     &signing.SingleSignatureData{SignMode: mode},
			Sequence: seqs[i],
		})
	}
	if err := b.SetSignatures(sigs...); err != nil {
		return nil, err
	}
	sigs = nil
	for i, s := range live {
		sd := authsigning.SignerData{
			Address:       s.Acct.Bech(),
			ChainID:       chainID,
			AccountNumber: nums[i],
			Sequence:      seqs[i],
			PubKey:        s.key().PubKey(),
		}
		signBytes, err := c.TxCfg.SignModeHandler().GetSignBytes(mode, sd, b.GetTx())
		if err != nil {
			return nil, err
		}
		if s.BadSig {
			signBytes = append([]byte("x"), signBytes...)
		}
		sig, err := s.key().Sign(signBytes)
		if err != nil {
			return nil, err
		}
		sigs = append(sigs, signing.SignatureV2{
			PubKey:   s.key().PubKey(),
			Data:     &signing.SingleSignatureData{SignMode: mode, Signature: sig},
			Sequence: seqs[i],
		})
	}
	if err := b.SetSignatures(sigs...); err != nil {
		return nil, err
	}
	return c.TxCfg.TxEncoder()(b.GetTx())
}

func (c *Chain) Deliver(bz []byte) abci.ResponseDeliverTx {
	return c.App.DeliverTx(abci.RequestDeliverTx{Tx: bz})
}

func tmpHome() string {
	d, err := os.MkdirTemp("", "verifhome")
	if err != nil {
		panic(err)
	}
	return d
}
