package main

// Stream "genesis": histories over all three custom modules on one chain; at random points the custom modules'
// genesis is exported (twice: determinism), validated with the modules' own ValidateGenesis, imported into a
// fresh application, exported again (must be identical), and the history continues on the new application.
// The model treats the round trip as the identity (Properties/C08), so every later dump and query must agree.

import (
	"bytes"
	"encoding/json"
	"fmt"
	"math/rand"
	"sort"
	"time"

	"github.com/cosmos/cosmos-sdk/codec"
	sdk "github.com/cosmos/cosmos-sdk/types"
	"github.com/cosmos/cosmos-sdk/types/query"
	"github.com/medibloc/panacea-core/v2/app"
	aolkeeper "github.com/medibloc/panacea-core/v2/x/aol/keeper"
	aoltypes "github.com/medibloc/panacea-core/v2/x/aol/types"
	didkeeper "github.com/medibloc/panacea-core/v2/x/did/keeper"
	didtypes "github.com/medibloc/panacea-core/v2/x/did/types"
	pnftkeeper "github.com/medibloc/panacea-core/v2/x/pnft/keeper"
	pnfttypes "github.com/medibloc/panacea-core/v2/x/pnft/types"
)

type genEnv struct {
	s    *Stream
	c    *Chain
	aol  *aolEnv
	did  *didEnv
	pnft *pnftEnv
	seen map[string]bool
	sigs map[string]bool
}

func (g *genEnv) attach(c *Chain) {
	g.c = c
	ctx := c.DeliverCtx()
	g.aol = &aolEnv{c: c, ctx: ctx, ms: aolkeeper.NewMsgServerImpl(c.App.AolKeeper), s: g.s, seen: g.seen}
	g.did = &didEnv{c: c, ctx: ctx, ms: didkeeper.NewMsgServerImpl(c.App.DidKeeper), s: g.s, seen: g.seen, sigs: g.sigs}
	g.pnft = &pnftEnv{c: c, ctx: ctx, ms: pnftkeeper.NewMsgServerImpl(&c.App.PnftKeeper), s: g.s, seen: g.seen}
}

func (g *genEnv) now(ns int64) {
	t := time.Unix(0, ns).UTC()
	g.aol.ctx = g.aol.ctx.WithBlockTime(t)
	g.did.ctx = g.did.ctx.WithBlockTime(t)
	g.pnft.ctx = g.pnft.ctx.WithBlockTime(t)
	g.s.Emit(fmt.Sprintf("now %d", ns), "-")
}

var customModules = []string{aoltypes.ModuleName, didtypes.ModuleName, pnfttypes.ModuleName, "burn"}

func exportCustom(c *Chain, ctx sdk.Context) map[string]json.RawMessage {
	// the module manager exports every module in a goroutine of its own, where a panic cannot be recovered and would
	// end the harness without an answer; the custom modules are therefore exported once here first, in this goroutine,
	// so that a panicking export becomes the answer of the operation that asked for it
	for _, m := range customModules {
		if hg, ok := c.App.ModuleManager.Modules[m].(interface {
			ExportGenesis(sdk.Context, codec.JSONCodec) json.RawMessage
		}); ok {
			hg.ExportGenesis(ctx, c.App.AppCodec())
		}
	}
	all := c.App.ModuleManager.ExportGenesis(ctx, c.App.AppCodec())
	out := map[string]json.RawMessage{}
	for _, m := range customModules {
		out[m] = all[m]
	}
	return out
}

func sameGenesis(a, b map[string]json.RawMessage) bool {
	for _, m := range customModules {
		if !bytes.Equal(a[m], b[m]) {
			return false
		}
	}
	return true
}

// roundTrip: export → validate → fresh app → import → export again.
func (g *genEnv) roundTrip(ns int64) {
	var next *Chain
	ans := guard(func() string {
		ctx := g.aol.ctx
		g1 := exportCustom(g.c, ctx)
		g2 := exportCustom(g.c, ctx)
		if !sameGenesis(g1, g2) {
			return "err #export-not-deterministic"
		}
		full := g.c.App.DefaultGenesis()
		for k, v := range g1 {
			full[k] = v
		}
		if err := app.ModuleBasics.ValidateGenesis(g.c.App.AppCodec(), g.c.App.TxConfig(), full); err != nil {
			return "err #validate-genesis"
		}
		c2, err := NewChain(memDB(), tmpHome(), nil, 0, g1)
		if err != nil {
			return "err #import " + err.Error()[:min(80, len(err.Error()))]
		}
		c2.Begin(c2.Time.Add(time.Second))
		g3 := exportCustom(c2, c2.DeliverCtx())
		if !sameGenesis(g1, g3) {
			next = c2
			for _, m := range customModules {
				if !bytes.Equal(g1[m], g3[m]) {
					a, b := string(g1[m]), string(g3[m])
					i := 0
					for i < len(a) && i < len(b) && a[i] == b[i] {
						i++
					}
					lo := i - 60
					if lo < 0 {
						lo = 0
					}
					return fmt.Sprintf("err #re-export-differs %s: ...%s <> ...%s", m, hxs(a[lo:min(len(a), i+40)]), hxs(b[lo:min(len(b), i+40)]))
				}
			}
			return "err #re-export-differs"
		}
		next = c2
		return "ok"
	})
	g.s.Emit("genesis.roundtrip", ans)
	if next != nil {
		g.attach(next)
		g.now(ns)
	}
}

// asciiOf maps arbitrary bytes to printable ASCII (valid UTF-8): JSON genesis cannot carry anything else in a
// string field (see finding F15).
func asciiOf(b []byte) string {
	out := make([]byte, len(b))
	for i, c := range b {
		out[i] = 0x20 + c%0x5f
	}
	return string(out)
}

func min(a, b int) int {
	if a < b {
		return a
	}
	return b
}

func (g *genEnv) dumps() {
	g.aol.dump()
	g.did.dump()
	g.pnft.dump()
}

func genesisHistory(s *Stream, rng *rand.Rand, steps int, seen, sigs map[string]bool, bulk bool) {
	c, err := NewChain(memDB(), tmpHome(), nil, 0, nil)
	if err != nil {
		panic(err)
	}
	c.Begin(c.Time.Add(time.Second))
	g := &genEnv{s: s, seen: seen, sigs: sigs}
	g.attach(c)
	s.Emit("reset", "-")
	ns := int64(1700000000000000000)
	g.now(ns)
	ap := mkAolPools()
	ap.bad = []string{"notbech32"}
	mk := func(b string) string { return sdk.AccAddress([]byte(b)).String() }
	pa := []string{mk("owner-aaaaaaaaaaaaaa1"), mk("owner-bbbbbbbbbbbbbb2"), mk("c")}
	idents, relayers := mkIdents()
	for _, it := range idents {
		it.seq, it.exists, it.dead, it.authKey, it.lastDoc = 0, false, false, nil, nil
	}
	// identifiers with characters that matter to the genesis text format (its key separator, spaces, non-ASCII):
	// used only if the message validators admit them, i.e. never on the unchanged tree
	gt := append([]string{}, ap.topics[:3]...)
	for _, cand := range []string{"a/b", "a/b/c", "a b", "a:b", "caf\xc3\xa9", "a,b"} {
		if (&aoltypes.MsgCreateTopicRequest{TopicName: cand, OwnerAddress: pa[0]}).ValidateBasic() == nil {
			gt = append(gt, cand)
		}
	}
	denoms := []string{"d1", "d2", "a.b"}
	for _, cand := range []string{"a/b", "a b", "d1/x"} {
		if (&pnfttypes.MsgCreateDenomRequest{Id: cand, Name: "n", Symbol: "s", Creator: pa[0]}).ValidateBasic() == nil {
			denoms = append(denoms, cand)
		}
	}
	pp := func() string { // mostly the first account, so that create → mint → transfer chains succeed
		if rng.Intn(10) < 6 {
			return pa[0]
		}
		return pa[rng.Intn(3)]
	}
	// aimed: several records of one topic with keys/values of equal length, one with an empty key and value, records in
	// a second topic, a writer removed afterwards (an export that reuses a decoding buffer corrupts exactly these)
	if bulk {
		o, w1, w2 := ap.addrs[0], ap.addrs[3], ap.addrs[4]
		g.aol.msg(&aoltypes.MsgCreateTopicRequest{TopicName: gt[0], Description: "", OwnerAddress: o})
		g.aol.msg(&aoltypes.MsgCreateTopicRequest{TopicName: gt[1], Description: "second", OwnerAddress: o})
		g.aol.msg(&aoltypes.MsgAddWriterRequest{TopicName: gt[0], Moniker: "m1", Description: "d", WriterAddress: w1, OwnerAddress: o})
		g.aol.msg(&aoltypes.MsgAddWriterRequest{TopicName: gt[0], Moniker: "m2", Description: "", WriterAddress: w2, OwnerAddress: o})
		g.aol.msg(&aoltypes.MsgAddWriterRequest{TopicName: gt[1], Moniker: "", Description: "", WriterAddress: w1, OwnerAddress: o})
		for i := 0; i < 5; i++ {
			ns += 1000
			g.now(ns)
			g.aol.msg(&aoltypes.MsgAddRecordRequest{TopicName: gt[0], Key: []byte(fmt.Sprintf("patient-%04d", i)), Value: []byte(fmt.Sprintf("value-%05d", 7*i)), WriterAddress: []string{w1, w2}[i%2], OwnerAddress: o})
		}
		g.aol.msg(&aoltypes.MsgAddRecordRequest{TopicName: gt[0], Key: nil, Value: nil, WriterAddress: w1, OwnerAddress: o})
		g.aol.msg(&aoltypes.MsgAddRecordRequest{TopicName: gt[1], Key: []byte("k"), Value: []byte("a-longer-value-than-the-others"), WriterAddress: w1, OwnerAddress: o})
		g.aol.msg(&aoltypes.MsgAddRecordRequest{TopicName: gt[1], Key: []byte("kk"), Value: []byte("v"), WriterAddress: w1, OwnerAddress: o})
		g.aol.msg(&aoltypes.MsgDeleteWriterRequest{TopicName: gt[0], WriterAddress: w2, OwnerAddress: o})
		// more than a hundred DIDs (a default page is 100 entries); the last ones in key order include a tombstone
		var bulkIdents []*didIdent
		for i := 0; i < 104; i++ {
			k := newDidKey(fmt.Sprintf("bulk-%d", i))
			bulkIdents = append(bulkIdents, &didIdent{did: didtypes.NewDID(k.pub), keys: []*didKey{k}})
		}
		sort.Slice(bulkIdents, func(i, j int) bool { return bulkIdents[i].did < bulkIdents[j].did })
		for i, it := range bulkIdents {
			vmID := it.did + "#key1"
			doc := &didtypes.DIDDocument{Id: it.did,
				VerificationMethods: []*didtypes.VerificationMethod{{Id: vmID, Type: didtypes.ES256K_2019, Controller: it.did, PublicKeyBase58: it.keys[0].b58}},
				Authentications:     []didtypes.VerificationRelationship{didtypes.NewVerificationRelationship(vmID)}}
			sig := g.did.sign(it.keys[0], doc, 0)
			if g.did.create(&didtypes.MsgCreateDIDRequest{Did: it.did, Document: doc, VerificationMethodId: vmID, Signature: sig, FromAddress: relayers[0]}) && i >= 101 {
				dsig := g.did.sign(it.keys[0], &didtypes.DIDDocument{Id: it.did}, 0)
				g.did.deactivate(&didtypes.MsgDeactivateDIDRequest{Did: it.did, VerificationMethodId: vmID, Signature: dsig, FromAddress: relayers[1]})
			}
		}
		// (denom, token) pairs that read the same when joined with a separator
		for _, pr := range [][2]string{{"hospital/seoul", "xray-1"}, {"hospital", "seoul/xray-1"}, {"a:b", "c"}, {"a", "b:c"}, {"x y", "z"}, {"x", "y z"}} {
			g.pnft.msg(&pnfttypes.MsgCreateDenomRequest{Id: pr[0], Name: "n", Symbol: "s", Creator: pa[0]})
			g.pnft.msg(&pnfttypes.MsgMintPNFTRequest{DenomId: pr[0], Id: pr[1], Name: "t", Creator: pa[0]})
		}
		// more than a hundred denoms, the late ones with tokens and a hand-over
		for i := 0; i < 104; i++ {
			id := fmt.Sprintf("bulk%03d", i)
			g.pnft.msg(&pnfttypes.MsgCreateDenomRequest{Id: id, Name: "n", Symbol: "s", Creator: pa[0]})
			if i >= 99 {
				g.pnft.msg(&pnfttypes.MsgMintPNFTRequest{DenomId: id, Id: "t1", Name: "t", Creator: pa[0]})
			}
		}
		// texts that an "is it blank" rule or a trimmer would treat differently on the two write paths
		g.pnft.msg(&pnfttypes.MsgUpdateDenomRequest{Id: "bulk100", Name: " a padded name ", Symbol: " s2", Updater: pa[0]})
		g.pnft.msg(&pnfttypes.MsgUpdateDenomRequest{Id: "bulk101", Name: "  ", Symbol: "\t", Description: " ", Updater: pa[0]})
		g.pnft.msg(&pnfttypes.MsgTransferPNFTRequest{DenomId: "bulk102", Id: "t1", Sender: pa[0], Receiver: pa[1]})
		g.pnft.msg(&pnfttypes.MsgTransferDenomRequest{Id: "bulk103", Sender: pa[0], Receiver: pa[2]})
		g.roundTrip(ns)
		g.dumps()
		o0 := ap.addrs[0]
		for off := uint64(0); off < 8; off++ {
			g.aol.qRecord(o0, gt[0], off)
			g.aol.qRecord(o0, gt[1], off)
		}
		for _, it := range bulkIdents[98:] {
			g.did.query(it.did)
		}
	}
	for i := 0; i < steps; i++ {
		if rng.Intn(6) == 0 {
			ns += int64(1 + rng.Intn(100000))
			g.now(ns)
		}
		switch r := rng.Intn(30); {
		case r < 3:
			g.aol.msg(&aoltypes.MsgCreateTopicRequest{TopicName: gt[rng.Intn(len(gt))], Description: asciiOf(smallBytes(rng)), OwnerAddress: ap.addrs[rng.Intn(3)]})
		case r < 6:
			g.aol.msg(&aoltypes.MsgAddWriterRequest{TopicName: gt[rng.Intn(len(gt))], Moniker: "m", Description: asciiOf(smallBytes(rng)), WriterAddress: ap.addrs[rng.Intn(7)], OwnerAddress: ap.addrs[rng.Intn(3)]})
		case r < 10:
			g.aol.msg(&aoltypes.MsgAddRecordRequest{TopicName: gt[rng.Intn(len(gt))], Key: smallBytes(rng), Value: smallBytes(rng), WriterAddress: ap.addrs[rng.Intn(7)], OwnerAddress: ap.addrs[rng.Intn(3)]})
		case r < 11:
			g.aol.msg(&aoltypes.MsgDeleteWriterRequest{TopicName: gt[rng.Intn(len(gt))], WriterAddress: ap.addrs[rng.Intn(7)], OwnerAddress: ap.addrs[rng.Intn(3)]})
		case r < 14: // DID create
			it := idents[rng.Intn(len(idents))]
			doc, auth := genDoc(rng, it.did, it)
			vmID, key := "", it.keys[0]
			for id, k := range auth {
				vmID, key = id, k
			}
			sig := g.did.sign(key, doc, 0)
			if g.did.create(&didtypes.MsgCreateDIDRequest{Did: it.did, Document: doc, VerificationMethodId: vmID, Signature: sig, FromAddress: relayers[0]}) {
				it.exists, it.seq, it.authKey, it.lastDoc = true, 0, auth, doc
			}
		case r < 17: // DID update / deactivate by a believed key
			it := idents[rng.Intn(len(idents))]
			if len(it.authKey) == 0 {
				continue
			}
			var vmID string
			var key *didKey
			for id, k := range it.authKey {
				vmID, key = id, k
			}
			if rng.Intn(3) == 0 {
				sig := g.did.sign(key, &didtypes.DIDDocument{Id: it.did}, it.seq)
				if g.did.deactivate(&didtypes.MsgDeactivateDIDRequest{Did: it.did, VerificationMethodId: vmID, Signature: sig, FromAddress: relayers[1]}) {
					it.seq++
					it.authKey = nil
				}
			} else {
				doc, auth := genDoc(rng, it.did, it)
				sig := g.did.sign(key, doc, it.seq)
				if g.did.update(&didtypes.MsgUpdateDIDRequest{Did: it.did, Document: doc, VerificationMethodId: vmID, Signature: sig, FromAddress: relayers[1]}) {
					it.seq++
					it.authKey = auth
				}
			}
		case r < 19:
			g.pnft.msg(&pnfttypes.MsgCreateDenomRequest{Id: denoms[rng.Intn(len(denoms))], Name: "n", Symbol: "s", Description: "x", Data: "dd", Creator: pp()})
		case r < 22:
			g.pnft.msg(&pnfttypes.MsgMintPNFTRequest{DenomId: denoms[rng.Intn(len(denoms))], Id: []string{"1", "2", "3"}[rng.Intn(3)], Name: "t", Uri: "u", Data: "z", Creator: pp()})
		case r < 24:
			g.pnft.msg(&pnfttypes.MsgTransferPNFTRequest{DenomId: denoms[rng.Intn(len(denoms))], Id: []string{"1", "2", "3"}[rng.Intn(3)], Sender: pp(), Receiver: pa[1+rng.Intn(2)]})
		case r < 25:
			g.pnft.msg(&pnfttypes.MsgTransferDenomRequest{Id: denoms[rng.Intn(len(denoms))], Sender: pp(), Receiver: pa[rng.Intn(3)]})
		case r < 26:
			g.pnft.msg(&pnfttypes.MsgBurnPNFTRequest{DenomId: denoms[rng.Intn(len(denoms))], Id: []string{"1", "2", "3"}[rng.Intn(3)], Burner: pa[rng.Intn(3)]})
		case r < 27:
			g.pnft.msg(&pnfttypes.MsgDeleteDenomRequest{Id: denoms[rng.Intn(len(denoms))], Remover: pa[rng.Intn(3)]})
		default:
			g.roundTrip(ns)
			g.dumps()
		}
	}
	g.dumps()
	g.roundTrip(ns)
	g.dumps()
	// queries after the final import
	for _, o := range ap.addrs[:3] {
		g.aol.qTopics(o, &query.PageRequest{Limit: 100, CountTotal: true})
		for _, t := range gt {
			g.aol.qTopic(o, t)
			g.aol.qRecord(o, t, 0)
		}
	}
	for _, it := range idents {
		g.did.query(it.did)
	}
	for _, d := range denoms {
		g.pnft.qDenom(d)
		g.pnft.qPNFTs(d)
	}
}

// monUTF8 (finding F15): a string field carrying invalid UTF-8 is accepted by a real transaction and stored;
// the JSON genesis export cannot represent it, so export → import does not reproduce the state.
func monUTF8(s *Stream) {
	s.Emit("mon.c08.utf8", guard(func() string {
		a := newAcct("U", []byte("utf8-acct"))
		c, err := NewChain(memDB(), tmpHome(), []*Acct{a}, 1000, nil)
		if err != nil {
			return "err"
		}
		c.Begin(c.Time.Add(time.Second))
		desc := "caf\xe9" // latin-1 byte, not valid UTF-8
		bz, err := c.BuildTx(TxSpec{Msgs: []sdk.Msg{&aoltypes.MsgCreateTopicRequest{TopicName: "t", Description: desc, OwnerAddress: a.Bech()}},
			Signers: []SignerSpec{{Acct: a}}, Fee: 1})
		if err != nil {
			return "pass #not-buildable"
		}
		if res := c.Deliver(bz); res.Code != 0 {
			return "pass #rejected-by-chain"
		}
		g1 := exportCustom(c, c.DeliverCtx())
		c2, err := NewChain(memDB(), tmpHome(), nil, 0, g1)
		if err != nil {
			return "fail #import-failed"
		}
		c2.Begin(c2.Time.Add(time.Second))
		r, err := c2.App.AolKeeper.Topic(sdk.WrapSDKContext(c2.DeliverCtx()), &aoltypes.QueryTopicRequest{OwnerAddress: a.Bech(), TopicName: "t"})
		if err != nil {
			return "fail #topic-lost"
		}
		if r.Topic.Description != desc {
			return "fail #description-changed " + hxs(r.Topic.Description)
		}
		return "pass"
	}))
}

func init() {
	streams["genesis"] = func(dir string, rng *rand.Rand, n int, tier string) {
		s := NewStream(dir, "genesis")
		defer s.Close(dir, "genesis")
		monUTF8(s)
		monC08ExportAtSequenceEnd(s)
		monC08AppExport(s)
		monC18GenesisKeyStrings(s)
		monAolGenesisConsistency(s, "c01")
		monAolGenesisConsistency(s, "c13")
		seen, sigs := map[string]bool{}, map[string]bool{}
		for h := 0; h < n; h++ {
			genesisHistory(s, rng, 20+rng.Intn(40), seen, sigs, h == 0)
		}
	}
}
