package main

// mon.c16.stored-within-limits: the last clause of C16 — "nothing outside these limits is ever stored by a transaction".
// Messages at the edges of the published limits (empty and 70-byte monikers, 1- and 70-byte topic names, 5000-byte
// descriptions and values, writer and owner addresses of 1, 20, 36 and 255 bytes) pass stateless validation and go
// through the real handlers; afterwards every stored topic, writer and record is within the limits (checked with
// patterns written here, not with the module's validators), and the module's own genesis validation accepts the export.

import (
	"bytes"
	"fmt"
	"regexp"
	"strings"

	dbm "github.com/cometbft/cometbft-db"
	sdk "github.com/cosmos/cosmos-sdk/types"
	"github.com/medibloc/panacea-core/v2/x/aol"
	aolkeeper "github.com/medibloc/panacea-core/v2/x/aol/keeper"
	aoltypes "github.com/medibloc/panacea-core/v2/x/aol/types"
)

var nameLimit = regexp.MustCompile(`^[A-Za-z0-9._-]{0,70}$`)

func monC16StoredWithinLimits(s *Stream) {
	s.Emit("mon.c16.stored-within-limits", guard(func() string {
		c, err := NewChain(dbm.NewMemDB(), tmpHome(), nil, 0, nil)
		if err != nil {
			return "pass #no-chain"
		}
		c.Begin(c.Time)
		ctx := c.DeliverCtx()
		g := sdk.WrapSDKContext(ctx)
		ms := aolkeeper.NewMsgServerImpl(c.App.AolKeeper)
		addr := func(n int, b byte) string { return sdk.AccAddress(bytes.Repeat([]byte{b}, n)).String() }
		owners := []string{addr(20, 1), addr(255, 2), addr(1, 3)}
		writers := []string{addr(20, 4), addr(1, 5), addr(36, 6), addr(64, 7), addr(255, 8)}
		names := []string{"t", strings.Repeat("n", 70), "a.b_c-D9"}
		monikers := []string{"", "m", strings.Repeat("M", 70)}
		descs := []string{"", "d", strings.Repeat("x", 5000)}
		sent := 0
		for oi, o := range owners {
			for ni, name := range names {
				ct := &aoltypes.MsgCreateTopicRequest{TopicName: name, Description: descs[(oi+ni)%3], OwnerAddress: o}
				if ct.ValidateBasic() != nil {
					continue
				}
				if _, err := ms.CreateTopic(g, ct); err != nil {
					continue
				}
				sent++
				for wi, w := range writers {
					aw := &aoltypes.MsgAddWriterRequest{TopicName: name, Moniker: monikers[(wi+ni)%3], Description: descs[(wi+oi)%3], WriterAddress: w, OwnerAddress: o}
					if aw.ValidateBasic() != nil {
						continue
					}
					if _, err := ms.AddWriter(g, aw); err != nil {
						continue
					}
					sent++
					ar := &aoltypes.MsgAddRecordRequest{TopicName: name, Key: bytes.Repeat([]byte("k"), []int{0, 1, 70}[wi%3]), Value: bytes.Repeat([]byte("v"), []int{0, 1, 5000}[(wi+1)%3]), WriterAddress: w, OwnerAddress: o}
					if ar.ValidateBasic() != nil {
						continue
					}
					if _, err := ms.AddRecord(g, ar); err == nil {
						sent++
					}
				}
			}
		}
		if sent < 20 {
			return fmt.Sprintf("pass #only-%d-messages-accepted", sent)
		}
		k := c.App.AolKeeper
		tkeys, topics := k.GetAllTopics(ctx)
		for i, t := range topics {
			if !nameLimit.MatchString(tkeys[i].TopicName) || len(tkeys[i].TopicName) == 0 || len(t.Description) > 5000 {
				return "fail #stored-topic-outside-the-limits"
			}
		}
		wkeys, ws := k.GetAllWriters(ctx)
		for i, w := range ws {
			if !nameLimit.MatchString(w.Moniker) || len(w.Description) > 5000 {
				return fmt.Sprintf("fail #stored-writer-outside-the-limits moniker of %d bytes (writer address of %d bytes)", len(w.Moniker), len(wkeys[i].WriterAddress))
			}
		}
		_, rs := k.GetAllRecords(ctx)
		for _, r := range rs {
			if len(r.Key) > 70 || len(r.Value) > 5000 {
				return "fail #stored-record-outside-the-limits"
			}
		}
		if err := aol.ExportGenesis(ctx, k).Validate(); err != nil {
			return "fail #export-refused-by-the-module's-genesis-validation " + err.Error()[:min(80, len(err.Error()))]
		}
		return fmt.Sprintf("pass #%d-messages", sent)
	}))
}
