package main

// mon.c10.restart-after-handler: restart equivalence after an in-process run of an upgrade handler.  Two nodes on
// the same genesis execute the same upgrade block (the handler of the named release runs in both processes); one
// is then restarted on its database.  A later block carries an ordinary governance transaction that reaches code
// whose behaviour depends on what the handler left in memory (a legacy parameter-change proposal, dry-run at
// submission): both nodes must produce the same result and application hash.

import (
	"bytes"
	"fmt"
	"strings"
	"time"

	dbm "github.com/cometbft/cometbft-db"
	sdk "github.com/cosmos/cosmos-sdk/types"
	authtypes "github.com/cosmos/cosmos-sdk/x/auth/types"
	consensusparamkeeper "github.com/cosmos/cosmos-sdk/x/consensus/keeper"
	consensusparamtypes "github.com/cosmos/cosmos-sdk/x/consensus/types"
	crisistypes "github.com/cosmos/cosmos-sdk/x/crisis/types"
	govtypes "github.com/cosmos/cosmos-sdk/x/gov/types"
	govv1 "github.com/cosmos/cosmos-sdk/x/gov/types/v1"
	paramproposal "github.com/cosmos/cosmos-sdk/x/params/types/proposal"
	upgradetypes "github.com/cosmos/cosmos-sdk/x/upgrade/types"
	aoltypes "github.com/medibloc/panacea-core/v2/x/aol/types"
	didtypes "github.com/medibloc/panacea-core/v2/x/did/types"
)

func monC10RestartAfterHandler(s *Stream, plan string) {
	name := "mon.c10.restart-after-handler name=" + plan
	s.Inflight(name)
	s.Emit(name, guard(func() string {
		accts := rtAccts()
		a, err := NewChain(dbm.NewMemDB(), tmpHome(), accts, 100000, nil)
		if err != nil {
			return "fail #genesis " + err.Error()
		}
		b, _ := NewChain(dbm.NewMemDB(), tmpHome(), accts, 100000, nil) // never stopped
		t := a.Time
		both := func(f func(c *Chain) string) string {
			ra, rb := f(a), f(b)
			if ra != rb {
				return "differ"
			}
			return ra
		}
		t = t.Add(5 * time.Second)
		runBlock(a, t, nil)
		runBlock(b, t, nil)
		planHeight := a.Height + 2
		t = t.Add(5 * time.Second)
		if r := both(func(c *Chain) string {
			c.Begin(t)
			if err := c.App.UpgradeKeeper.ScheduleUpgrade(c.DeliverCtx(), upgradetypes.Plan{Name: plan, Height: planHeight}); err != nil {
				return "schedule: " + err.Error()
			}
			c.End()
			return fmt.Sprintf("%x", c.Commit())
		}); r == "differ" || strings.HasPrefix(r, "schedule") {
			return "fail #schedule " + r
		}
		for a.Height < planHeight+1 { // the upgrade block (the handler runs in both processes) and one more
			t = t.Add(5 * time.Second)
			_, ha := runBlock(a, t, nil)
			_, hb := runBlock(b, t, nil)
			if !bytes.Equal(ha, hb) {
				return "fail #apphash-differs-before-the-restart"
			}
		}
		if a.App.UpgradeKeeper.GetDoneHeight(a.QueryCtx(), plan) != planHeight {
			return "pass #handler-did-not-run"
		}
		a = reopen(a) // the process exits; a new one starts on the same database
		gov := authtypes.NewModuleAddress(govtypes.ModuleName).String()
		content := paramproposal.NewParameterChangeProposal("max validators", "raise the validator set size",
			[]paramproposal.ParamChange{paramproposal.NewParamChange("staking", "MaxValidators", "77")})
		legacy, err := govv1.NewLegacyContent(content, gov)
		if err != nil {
			return "fail #setup " + err.Error()
		}
		msg, err := govv1.NewMsgSubmitProposal([]sdk.Msg{legacy}, sdk.NewCoins(), accts[0].Bech(), "", "max validators", "raise the validator set size")
		if err != nil {
			return "fail #setup " + err.Error()
		}
		tx, err := b.BuildTx(TxSpec{Msgs: []sdk.Msg{msg}, Signers: []SignerSpec{{Acct: accts[0]}}, Fee: 1, Gas: 2000000})
		if err != nil {
			return "fail #setup build: " + err.Error()
		}
		for i := 0; i < 2; i++ {
			t = t.Add(5 * time.Second)
			var txs [][]byte
			if i == 0 {
				txs = [][]byte{tx}
			}
			ra, ha := runBlock(a, t, txs)
			rb, hb := runBlock(b, t, txs)
			if strings.Join(ra, "\n") != strings.Join(rb, "\n") {
				code := func(rs []string) string { return strings.SplitN(rs[0], "|", 2)[0] }
				if i == 0 {
					return fmt.Sprintf("fail #results-differ-from-uninterrupted-twin (code %s on the restarted node, %s on the other)", code(ra), code(rb))
				}
				return "fail #results-differ-from-uninterrupted-twin"
			}
			if !bytes.Equal(ha, hb) {
				return "fail #apphash-differs-from-uninterrupted-twin"
			}
		}
		return "pass"
	}))
}

// mon.c10.stale-upgrade-info: an operator's node keeps the upgrade-info.json of the last upgrade in its home for
// ever (x/upgrade writes it when the old binary halts; nothing removes it).  Restarting at any later committed height
// with that file present must bring the node up on its own database with the committed state, and it must go on like
// a twin that was never stopped.  (A start that dies is attributed to this op by the in-flight marker.)
func monC10StaleUpgradeInfo(s *Stream, plan string) {
	name := "mon.c10.stale-upgrade-info name=" + plan
	s.Inflight(name)
	s.Emit(name, guard(func() string {
		accts := rtAccts()
		a, err := NewChain(dbm.NewMemDB(), tmpHome(), accts, 100000, nil)
		if err != nil {
			return "fail #genesis " + err.Error()
		}
		b, _ := NewChain(dbm.NewMemDB(), tmpHome(), accts, 100000, nil)
		t := a.Time
		for i := 0; i < 5; i++ {
			t = t.Add(5 * time.Second)
			runBlock(a, t, nil)
			runBlock(b, t, nil)
		}
		if err := a.App.UpgradeKeeper.DumpUpgradeInfoToDisk(3, upgradetypes.Plan{Name: plan, Height: 3}); err != nil {
			return "fail #dump-upgrade-info " + err.Error()
		}
		hash, height := a.App.LastCommitID().Hash, a.App.LastBlockHeight()
		a = reopen(a)
		if a.App.LastBlockHeight() != height || !bytes.Equal(a.App.LastCommitID().Hash, hash) {
			return "fail #did-not-resume-at-the-committed-state"
		}
		for i := 0; i < 2; i++ {
			t = t.Add(5 * time.Second)
			ra, ha := runBlock(a, t, nil)
			rb, hb := runBlock(b, t, nil)
			if strings.Join(ra, "\n") != strings.Join(rb, "\n") || !bytes.Equal(ha, hb) {
				return "fail #differs-from-uninterrupted-twin"
			}
		}
		return "pass"
	}))
}

// mon.c10.restart-after-param-change: what governance changes while the node runs is read by BaseApp itself — the
// consensus parameters (block gas limit …).  Two nodes execute the same parameter change (the message a passed
// proposal runs, with the governance authority); one is restarted; a block with a transaction whose gas limit lies
// between the new and the old block gas limit must give the same results and hash on both.
func monC10RestartAfterParamChange(s *Stream) {
	name := "mon.c10.restart-after-param-change"
	s.Inflight(name)
	s.Emit(name, guard(func() string {
		accts := rtAccts()
		a, err := NewChain(dbm.NewMemDB(), tmpHome(), accts, 100000, nil)
		if err != nil {
			return "fail #genesis " + err.Error()
		}
		b, _ := NewChain(dbm.NewMemDB(), tmpHome(), accts, 100000, nil)
		t := a.Time
		for i := 0; i < 2; i++ {
			t = t.Add(5 * time.Second)
			runBlock(a, t, nil)
			runBlock(b, t, nil)
		}
		gov := authtypes.NewModuleAddress(govtypes.ModuleName).String()
		t = t.Add(5 * time.Second)
		for _, c := range []*Chain{a, b} {
			c.Begin(t)
			cp, err := c.App.ConsensusParamsKeeper.Get(c.DeliverCtx())
			if err != nil || cp == nil || cp.Block == nil {
				return "pass #no-consensus-params"
			}
			blk := *cp.Block
			blk.MaxGas = 1000000
			ms := consensusparamkeeper.NewMsgServerImpl(c.App.ConsensusParamsKeeper)
			if _, err := ms.UpdateParams(sdk.WrapSDKContext(c.DeliverCtx()), &consensusparamtypes.MsgUpdateParams{Authority: gov, Block: &blk, Evidence: cp.Evidence, Validator: cp.Validator}); err != nil {
				return "pass #param-change-refused " + err.Error()
			}
			c.End()
			c.Commit()
		}
		t = t.Add(5 * time.Second)
		runBlock(a, t, nil)
		runBlock(b, t, nil)
		a = reopen(a)
		tx, err := b.BuildTx(TxSpec{Msgs: []sdk.Msg{&aoltypes.MsgCreateTopicRequest{TopicName: "after-change", OwnerAddress: accts[0].Bech()}},
			Signers: []SignerSpec{{Acct: accts[0]}}, Fee: 1, Gas: 1500000})
		if err != nil {
			return "fail #setup " + err.Error()
		}
		for i := 0; i < 2; i++ {
			t = t.Add(5 * time.Second)
			var txs [][]byte
			if i == 0 {
				txs = [][]byte{tx}
			}
			ra, ha := runBlock(a, t, txs)
			rb, hb := runBlock(b, t, txs)
			if strings.Join(ra, "\n") != strings.Join(rb, "\n") {
				return "fail #results-differ-from-uninterrupted-twin"
			}
			if !bytes.Equal(ha, hb) {
				return "fail #apphash-differs-from-uninterrupted-twin"
			}
		}
		return "pass"
	}))
}

// mon.c10.rolled-back-handler-effects: "transactions … that had not been committed have no effect" holds inside a running
// process too — a transaction whose first message a handler accepted and whose second message failed is rolled back by
// the transaction layer, and nothing the handler did may survive in the process.  Two nodes execute such a transaction
// for every kind of DID operation; one is restarted; the very operation that was rolled back is then sent alone.  Both
// nodes must answer alike (results, hashes).
func monC10RolledBackHandlerEffects(s *Stream) {
	name := "mon.c10.rolled-back-handler-effects"
	s.Inflight(name)
	s.Emit(name, guard(func() string {
		accts := rtAccts()
		a, err := NewChain(dbm.NewMemDB(), tmpHome(), accts, 100000, nil)
		if err != nil {
			return "fail #genesis " + err.Error()
		}
		b, _ := NewChain(dbm.NewMemDB(), tmpHome(), accts, 100000, nil) // never stopped
		A := accts[0]
		k := newDidKey("c10-rollback")
		did := didtypes.NewDID(k.pub)
		vmID := did + "#key1"
		vm := &didtypes.VerificationMethod{Id: vmID, Type: didtypes.ES256K_2019, Controller: did, PublicKeyBase58: k.b58}
		docWith := func(svc string) *didtypes.DIDDocument {
			d := didtypes.NewDIDDocument(did, didtypes.WithVerificationMethods([]*didtypes.VerificationMethod{vm}),
				didtypes.WithAuthentications([]didtypes.VerificationRelationship{rel(vmID)}))
			if svc != "" {
				d.Services = []*didtypes.Service{{Id: "s1", Type: "T", ServiceEndpoint: svc}}
			}
			return &d
		}
		sign := func(d *didtypes.DIDDocument, seq uint64) []byte {
			sg, err := didtypes.Sign(d, seq, k.priv)
			if err != nil {
				panic(err)
			}
			return sg
		}
		failing := &aoltypes.MsgAddRecordRequest{TopicName: "no-such-topic", Key: []byte("k"), Value: []byte("v"), WriterAddress: A.Bech(), OwnerAddress: A.Bech()}
		d0, d1 := docWith(""), docWith("https://a")
		create := &didtypes.MsgCreateDIDRequest{Did: did, Document: d0, VerificationMethodId: vmID, Signature: sign(d0, 0), FromAddress: A.Bech()}
		update := &didtypes.MsgUpdateDIDRequest{Did: did, Document: d1, VerificationMethodId: vmID, Signature: sign(d1, 0), FromAddress: A.Bech()}
		deact := &didtypes.MsgDeactivateDIDRequest{Did: did, VerificationMethodId: vmID, Signature: sign(&didtypes.DIDDocument{Id: did}, 0), FromAddress: A.Bech()}
		deact1 := &didtypes.MsgDeactivateDIDRequest{Did: did, VerificationMethodId: vmID, Signature: sign(&didtypes.DIDDocument{Id: did}, 1), FromAddress: A.Bech()}
		t := a.Time
		step := func(label string, restart bool, msgs ...sdk.Msg) string {
			t = t.Add(5 * time.Second)
			if restart {
				a = reopen(a)
			}
			tx, err := b.BuildTx(TxSpec{Msgs: msgs, Signers: []SignerSpec{{Acct: A}}, Fee: 1})
			if err != nil {
				return "fail #setup build: " + err.Error()
			}
			ra, ha := runBlock(a, t, [][]byte{tx})
			rb, hb := runBlock(b, t, [][]byte{tx})
			if strings.Join(ra, "\n") != strings.Join(rb, "\n") {
				return "fail #results-differ-from-uninterrupted-twin at " + label
			}
			if !bytes.Equal(ha, hb) {
				return "fail #apphash-differs-from-uninterrupted-twin at " + label
			}
			return ""
		}
		for _, st := range []struct {
			label   string
			restart bool
			msgs    []sdk.Msg
		}{
			{"rolled-back create", false, []sdk.Msg{create, failing}},
			{"create after restart", true, []sdk.Msg{create}},
			{"rolled-back deactivation", false, []sdk.Msg{deact, failing}},
			{"update after restart", true, []sdk.Msg{update}},
			{"rolled-back deactivation at sequence 1", false, []sdk.Msg{deact1, failing}},
			{"deactivation after restart", true, []sdk.Msg{deact1}},
			{"create on the tombstone", false, []sdk.Msg{create}},
		} {
			if r := step(st.label, st.restart, st.msgs...); r != "" {
				return r
			}
		}
		return "pass"
	}))
}

// mon.c10.restart-then-verify-invariant: what app.New registers in process memory at start (message routes, query
// routes, the crisis module's invariant routes) must not depend on the height the process starts at.  Two nodes; one is
// restarted after a committed block; a block then carries a crisis MsgVerifyInvariant for a registered route and one for
// an unknown route.  Results and hashes must be those of the node that never stopped.
func monC10RestartThenVerifyInvariant(s *Stream) {
	name := "mon.c10.restart-then-verify-invariant"
	s.Inflight(name)
	s.Emit(name, guard(func() string {
		accts := rtAccts()
		// the senders hold the crisis module's constant fee (bond denomination), so that the route lookup is reached
		oldExtra := genesisExtraCoins
		genesisExtraCoins = sdk.NewCoins(sdk.NewInt64Coin(sdk.DefaultBondDenom, 1000000))
		defer func() { genesisExtraCoins = oldExtra }()
		a, err := NewChain(dbm.NewMemDB(), tmpHome(), accts, 100000, nil)
		if err != nil {
			return "fail #genesis " + err.Error()
		}
		b, _ := NewChain(dbm.NewMemDB(), tmpHome(), accts, 100000, nil)
		t := a.Time
		for i := 0; i < 2; i++ {
			t = t.Add(5 * time.Second)
			runBlock(a, t, nil)
			runBlock(b, t, nil)
		}
		a = reopen(a)
		var txs [][]byte
		for i, route := range [][2]string{{"bank", "total-supply"}, {"bank", "no-such-route"}, {"staking", "module-accounts"}} {
			m := &crisistypes.MsgVerifyInvariant{Sender: accts[i].Bech(), InvariantModuleName: route[0], InvariantRoute: route[1]}
			tx, err := b.BuildTx(TxSpec{Msgs: []sdk.Msg{m}, Signers: []SignerSpec{{Acct: accts[i]}}, Fee: 1, Gas: 5000000})
			if err != nil {
				return "pass #cannot-build " + err.Error()
			}
			txs = append(txs, tx)
		}
		for i := 0; i < 2; i++ {
			t = t.Add(5 * time.Second)
			var bt [][]byte
			if i == 0 {
				bt = txs
			}
			ra, ha := runBlock(a, t, bt)
			rb, hb := runBlock(b, t, bt)
			if strings.Join(ra, "\n") != strings.Join(rb, "\n") {
				code := func(rs []string, k int) string { return strings.SplitN(rs[k], "|", 2)[0] }
				if i == 0 {
					for k := range txs {
						if code(ra, k) != code(rb, k) {
							return fmt.Sprintf("fail #results-differ-from-uninterrupted-twin (message %d: code %s on the restarted node, %s on the other)", k, code(ra, k), code(rb, k))
						}
					}
				}
				return "fail #results-differ-from-uninterrupted-twin"
			}
			if !bytes.Equal(ha, hb) {
				return "fail #apphash-differs-from-uninterrupted-twin"
			}
		}
		return "pass"
	}))
}
